(* Proofs about Model/Node.v: C09 (application answers), C10 (application requests and
   answer correlation), C12 (disconnect-peer handling and reconnect policy). *)
From DV Require Import Prelude.Base Model.Ids Proofs.IdsP Model.Node.
From Coq Require String.
From Coq Require Import Lia.
Local Open Scope Z_scope.

(* ================================================================================== *)
(* 0. generic list facts                                                              *)
(* ================================================================================== *)
Lemma find_filter_neg {A} (f : A -> bool) (l : list A) :
  List.find f (List.filter (fun x => negb (f x)) l) = None.
Proof.
  induction l as [|a l IH]; cbn [List.filter List.find]; [reflexivity|].
  destruct (f a) eqn:E; cbn [negb List.find]; [exact IH|]. rewrite E. exact IH.
Qed.

Lemma find_app_l {A} (f : A -> bool) (l1 l2 : list A) x :
  List.find f l1 = Some x -> List.find f (l1 ++ l2)%list = Some x.
Proof.
  induction l1 as [|a l IH]; cbn [List.find List.app]; [discriminate|].
  destruct (f a); [trivial|exact IH].
Qed.

Lemma find_app_r {A} (f : A -> bool) (l1 l2 : list A) :
  List.find f l1 = None -> List.find f (l1 ++ l2)%list = List.find f l2.
Proof.
  induction l1 as [|a l IH]; cbn [List.find List.app]; [trivial|].
  destruct (f a); [discriminate|exact IH].
Qed.

Lemma find_filter_keep {A} (f g : A -> bool) (l : list A) :
  (forall x, f x = true -> g x = true) ->
  List.find f (List.filter g l) = List.find f l.
Proof.
  intros Hfg. induction l as [|a l IH]; cbn [List.filter List.find]; [reflexivity|].
  destruct (g a) eqn:Eg; cbn [List.find].
  - destruct (f a); [reflexivity|exact IH].
  - destruct (f a) eqn:Ef; [rewrite (Hfg a Ef) in Eg; discriminate|exact IH].
Qed.

Lemma mem_zz_remove_zz k l : mem_zz k (remove_zz k l) = false.
Proof.
  unfold mem_zz, remove_zz. induction l as [|a l IH]; cbn [List.filter List.existsb]; [reflexivity|].
  destruct ((fst k =? fst a) && (snd k =? snd a)) eqn:E; cbn [negb List.existsb]; [exact IH|].
  rewrite E. exact IH.
Qed.

Lemma mem_zz_remove_zz_sub k k' l : mem_zz k (remove_zz k' l) = true -> mem_zz k l = true.
Proof.
  unfold mem_zz, remove_zz. induction l as [|a l IH]; cbn [List.filter List.existsb]; [trivial|].
  destruct (negb ((fst k' =? fst a) && (snd k' =? snd a))); cbn [List.existsb]; intros H.
  - apply orb_true_iff in H. apply orb_true_iff. destruct H as [H|H]; [left; exact H|right; exact (IH H)].
  - apply orb_true_iff. right. exact (IH H).
Qed.

Lemma mem_zz_In k l : mem_zz k l = true <-> List.In k l.
Proof.
  unfold mem_zz. rewrite List.existsb_exists. split.
  - intros [y [Hy E]]. apply andb_true_iff in E. destruct E as [E1 E2].
    apply Z.eqb_eq in E1. apply Z.eqb_eq in E2. destruct k as [a b], y as [c d]. cbn [fst snd] in *.
    subst. exact Hy.
  - intros H. exists k. split; [exact H|]. rewrite !Z.eqb_refl. reflexivity.
Qed.

(* ================================================================================== *)
(* 1. connection / peer table lookups                                                 *)
(* ================================================================================== *)
Definition by_cid (i : nat) (c : conn) : bool := Nat.eqb (c_id c) i.
Definition by_name (nm : String.string) (p : peer) : bool := String.eqb (p_name p) nm.

Lemma get_conn_unfold n i : get_conn n i = List.find (by_cid i) (n_conns n).
Proof. reflexivity. Qed.
Lemma get_peer_unfold n nm : get_peer n nm = List.find (by_name nm) (n_peers n).
Proof. reflexivity. Qed.

Lemma find_cid_id l i c : List.find (by_cid i) l = Some c -> c_id c = i /\ List.In c l.
Proof.
  intros H. apply List.find_some in H. destruct H as [Hin E]. unfold by_cid in E.
  apply Nat.eqb_eq in E. split; assumption.
Qed.
Lemma get_conn_id n i c : get_conn n i = Some c -> c_id c = i /\ List.In c (n_conns n).
Proof. apply find_cid_id. Qed.

Lemma find_name_name l nm p : List.find (by_name nm) l = Some p -> p_name p = nm /\ List.In p l.
Proof.
  intros H. apply List.find_some in H. destruct H as [Hin E]. unfold by_name in E.
  apply String.eqb_eq in E. split; assumption.
Qed.
Lemma get_peer_name n nm p : get_peer n nm = Some p -> p_name p = nm /\ List.In p (n_peers n).
Proof. apply find_name_name. Qed.

Lemma find_upd_conn_same l i f c :
  (forall c, c_id (f c) = c_id c) ->
  List.find (by_cid i) l = Some c -> List.find (by_cid i) (upd_conn l i f) = Some (f c).
Proof.
  intros Hf. induction l as [|a l IH]; cbn [List.find upd_conn]; [discriminate|].
  unfold by_cid at 1. destruct (Nat.eqb (c_id a) i) eqn:E; cbn [List.find].
  - intros H. injection H as <-. unfold by_cid. rewrite Hf, E. reflexivity.
  - change (by_cid i a) with (Nat.eqb (c_id a) i). rewrite E. exact IH.
Qed.

Lemma find_upd_conn_other l i j f :
  (forall c, c_id (f c) = c_id c) -> i <> j ->
  List.find (by_cid j) (upd_conn l i f) = List.find (by_cid j) l.
Proof.
  intros Hf Hij. induction l as [|a l IH]; cbn [List.find upd_conn]; [reflexivity|].
  destruct (Nat.eqb (c_id a) i) eqn:E; cbn [List.find].
  - unfold by_cid. rewrite Hf. apply Nat.eqb_eq in E.
    destruct (Nat.eqb (c_id a) j) eqn:E2; [apply Nat.eqb_eq in E2; congruence|reflexivity].
  - destruct (by_cid j a); [reflexivity|exact IH].
Qed.

Lemma upd_conn_none l i f : List.find (by_cid i) l = None -> upd_conn l i f = l.
Proof.
  induction l as [|a l IH]; cbn [List.find upd_conn]; [reflexivity|].
  unfold by_cid at 1. destruct (Nat.eqb (c_id a) i); [discriminate|]. intros H. rewrite (IH H). reflexivity.
Qed.

Lemma upd_conn_ids l i f : (forall c, c_id (f c) = c_id c) -> List.map c_id (upd_conn l i f) = List.map c_id l.
Proof.
  intros Hf. induction l as [|a l IH]; cbn [upd_conn List.map]; [reflexivity|].
  destruct (Nat.eqb (c_id a) i); cbn [List.map]; [rewrite Hf; reflexivity|rewrite IH; reflexivity].
Qed.

Lemma find_upd_peer_same l nm f p :
  (forall p, p_name (f p) = p_name p) ->
  List.find (by_name nm) l = Some p -> List.find (by_name nm) (upd_peer l nm f) = Some (f p).
Proof.
  intros Hf. induction l as [|a l IH]; cbn [List.find upd_peer]; [discriminate|].
  unfold by_name at 1. destruct (String.eqb (p_name a) nm) eqn:E; cbn [List.find].
  - intros H. injection H as <-. unfold by_name. rewrite Hf, E. reflexivity.
  - change (by_name nm a) with (String.eqb (p_name a) nm). rewrite E. exact IH.
Qed.

Lemma find_upd_peer_other l nm nm' f :
  (forall p, p_name (f p) = p_name p) -> nm <> nm' ->
  List.find (by_name nm') (upd_peer l nm f) = List.find (by_name nm') l.
Proof.
  intros Hf Hne. induction l as [|a l IH]; cbn [List.find upd_peer]; [reflexivity|].
  destruct (String.eqb (p_name a) nm) eqn:E; cbn [List.find].
  - unfold by_name. rewrite Hf. apply String.eqb_eq in E.
    destruct (String.eqb (p_name a) nm') eqn:E2; [apply String.eqb_eq in E2; congruence|reflexivity].
  - destruct (by_name nm' a); [reflexivity|exact IH].
Qed.

(* ================================================================================== *)
(* 2. the frame: what every part of the node leaves alone                             *)
(* ================================================================================== *)
Definition pkey (p : peer) : String.string * bool := (p_name p, p_persistent p).
(* names and persistence flags of the configured peers, in order *)
Definition pmap (n : node) : list (String.string * bool) := List.map pkey (n_peers n).
Fixpoint pers_in (pm : list (String.string * bool)) (nm : String.string) : bool :=
  match pm with
  | [] => false
  | e :: r => if String.eqb (fst e) nm then snd e else pers_in r nm
  end.

Lemma pers_in_pmap n nm :
  pers_in (pmap n) nm = match get_peer n nm with Some p => p_persistent p | None => false end.
Proof.
  unfold pmap, get_peer. induction (n_peers n) as [|a l IH]; cbn [List.map pers_in List.find]; [reflexivity|].
  cbn [pkey fst snd]. destruct (String.eqb (p_name a) nm); [reflexivity|exact IH].
Qed.

Lemma pmap_upd_peer l nm f :
  (forall p, pkey (f p) = pkey p) -> List.map pkey (upd_peer l nm f) = List.map pkey l.
Proof.
  intros Hf. induction l as [|a l IH]; cbn [upd_peer List.map]; [reflexivity|].
  destruct (String.eqb (p_name a) nm); cbn [List.map]; [rewrite Hf; reflexivity|rewrite IH; reflexivity].
Qed.

(* the pair k is in the waiting list filed under host identity h *)
Definition pw_has (pw : list (String.string * list (Z * Z))) (h : String.string) (k : Z * Z) : Prop :=
  exists l, List.In (h, l) pw /\ mem_zz k l = true.
Definition pws (n n' : node) : Prop :=
  forall h k, pw_has (n_peer_waiting n') h k -> pw_has (n_peer_waiting n) h k.
Definition cids (n n' : node) : Prop :=
  (n_next_cid n <= n_next_cid n')%nat /\
  forall i, List.In i (List.map c_id (n_conns n')) ->
            List.In i (List.map c_id (n_conns n)) \/ (n_next_cid n <= i < n_next_cid n')%nat.
Definition frame0 (n n' : node) : Prop := pmap n' = pmap n /\ cids n n'.
Definition frame (n n' : node) : Prop := frame0 n n' /\ pws n n'.

Lemma cids_refl n : cids n n.
Proof. split; [lia|]. intros i H. left. exact H. Qed.
Lemma cids_trans a b c : cids a b -> cids b c -> cids a c.
Proof.
  intros [H1 H2] [H3 H4]. split; [lia|]. intros i Hi.
  destruct (H4 i Hi) as [H|H]; [|right; lia].
  destruct (H2 i H) as [H'|H']; [left; exact H'|right; lia].
Qed.
Lemma frame0_refl n : frame0 n n.
Proof. split; [reflexivity|apply cids_refl]. Qed.
Lemma frame0_trans a b c : frame0 a b -> frame0 b c -> frame0 a c.
Proof. intros [H1 H2] [H3 H4]. split; [congruence|eapply cids_trans; eassumption]. Qed.
Lemma pws_refl n : pws n n.
Proof. intros h k H. exact H. Qed.
Lemma pws_trans a b c : pws a b -> pws b c -> pws a c.
Proof. intros H1 H2 h k H. apply H1, H2, H. Qed.
Lemma frame_refl n : frame n n.
Proof. split; [apply frame0_refl|apply pws_refl]. Qed.
Lemma frame_trans a b c : frame a b -> frame b c -> frame a c.
Proof. intros [H1 H2] [H3 H4]. split; [eapply frame0_trans|eapply pws_trans]; eassumption. Qed.

Lemma frame_same n n' :
  n_peers n' = n_peers n -> n_peer_waiting n' = n_peer_waiting n ->
  n_conns n' = n_conns n -> n_next_cid n' = n_next_cid n -> frame n n'.
Proof.
  intros Hp Hw Hc Hn. split; [split|].
  - unfold pmap. rewrite Hp. reflexivity.
  - split; [lia|]. intros i Hi. left. rewrite Hc in Hi. exact Hi.
  - intros h k H. rewrite Hw in H. exact H.
Qed.

Lemma frame0_same n n' :
  n_peers n' = n_peers n -> n_conns n' = n_conns n -> n_next_cid n' = n_next_cid n -> frame0 n n'.
Proof.
  intros Hp Hc Hn. split.
  - unfold pmap. rewrite Hp. reflexivity.
  - split; [lia|]. intros i Hi. left. rewrite Hc in Hi. exact Hi.
Qed.

Lemma frame_upd_conn n cid f :
  (forall c, c_id (f c) = c_id c) -> frame n (set_conns n (upd_conn (n_conns n) cid f)).
Proof.
  intros Hf. split; [split|].
  - reflexivity.
  - split; [cbn [n_next_cid set_conns]; lia|]. intros i Hi. left.
    cbn [n_conns set_conns] in Hi. rewrite (upd_conn_ids _ _ _ Hf) in Hi. exact Hi.
  - intros h k H. exact H.
Qed.

Lemma frame_upd_peer n nm f :
  (forall p, pkey (f p) = pkey p) -> frame n (set_peers n (upd_peer (n_peers n) nm f)).
Proof.
  intros Hf. split; [split|].
  - unfold pmap. cbn [n_peers set_peers]. apply pmap_upd_peer, Hf.
  - exact (cids_refl n).
  - intros h k H. exact H.
Qed.

Lemma pkey_set_pconn p a b c d : pkey (set_pconn p a b c d) = pkey p.
Proof. reflexivity. Qed.

Lemma pw_has_remove pw host k0 h k : pw_has (pw_remove pw host k0) h k -> pw_has pw h k.
Proof.
  unfold pw_has, pw_remove. intros [l [Hin Hm]]. apply List.in_map_iff in Hin.
  destruct Hin as [[h0 l0] [E Hin]]. cbn [fst snd] in E.
  destruct (String.eqb h0 host).
  - injection E as <- <-. exists l0. split; [exact Hin|]. eapply mem_zz_remove_zz_sub, Hm.
  - injection E as <- <-. exists l0. split; assumption.
Qed.

Lemma pw_has_filter pw f h k : pw_has (List.filter f pw) h k -> pw_has pw h k.
Proof.
  unfold pw_has. intros [l [Hin Hm]]. apply List.filter_In in Hin. exists l. split; [apply Hin|exact Hm].
Qed.

Lemma frame_pw_remove n host k0 :
  frame n (set_waiting n (n_app_waiting n) (pw_remove (n_peer_waiting n) host k0) (n_origin_waiting n) (n_sent_answers n)).
Proof.
  split; [apply frame0_same; reflexivity|]. intros h k H. cbn [n_peer_waiting set_waiting] in H.
  eapply pw_has_remove, H.
Qed.

(* a node function result: the frame holds and every output satisfies P *)
Definition gres (P : output -> Prop) (n : node) (r : node * list output) : Prop :=
  frame n (fst r) /\ List.Forall P (snd r).

Lemma gres_nil (P : output -> Prop) n n' : frame n n' -> gres P n (n', []).
Proof. intros H. split; [exact H|constructor]. Qed.
Lemma gres_refl (P : output -> Prop) n : gres P n (n, []).
Proof. apply gres_nil, frame_refl. Qed.
Lemma gres_app (P : output -> Prop) n n1 o1 n2 o2 : gres P n (n1, o1) -> gres P n1 (n2, o2) -> gres P n (n2, (o1 ++ o2)%list).
Proof.
  intros [H1 H2] [H3 H4]. cbn [fst snd] in *. split; cbn [fst snd].
  - eapply frame_trans; eassumption.
  - apply List.Forall_app. split; assumption.
Qed.
Lemma gres_pre (P : output -> Prop) n n0 r : frame n n0 -> gres P n0 r -> gres P n r.
Proof. intros H [H1 H2]. split; [eapply frame_trans; eassumption|exact H2]. Qed.
Lemma gres_post (P : output -> Prop) n n1 o n2 : gres P n (n1, o) -> frame n1 n2 -> gres P n (n2, o).
Proof. intros [H1 H2] H. split; [eapply frame_trans; eassumption|exact H2]. Qed.
Lemma gres_weaken (P Q : output -> Prop) n r : (forall o, P o -> Q o) -> gres P n r -> gres Q n r.
Proof. intros H [H1 H2]. split; [exact H1|]. eapply List.Forall_impl; eassumption. Qed.
Lemma gres_cons (P : output -> Prop) n n1 o1 x : P x -> gres P n (n1, o1) -> gres P n (n1, x :: o1).
Proof. intros Hx [H1 H2]. split; [exact H1|constructor; assumption]. Qed.
Lemma gres_pmap (P : output -> Prop) n r : gres P n r -> pmap (fst r) = pmap n.
Proof. intros [[[H _] _] _]. exact H. Qed.

(* ================================================================================== *)
(* 3. the building blocks                                                             *)
(* ================================================================================== *)
Lemma record_answer_frame n h e : frame n (record_answer n h e).
Proof.
  unfold record_answer. destruct (List.find _ (n_origin_waiting n)) as [[[a b] o]|]; [|apply frame_refl].
  apply frame_same; reflexivity.
Qed.

Lemma set_cout_id c o : c_id (set_cout c o) = c_id c.
Proof. reflexivity. Qed.

Lemma send_message_out n cid m : snd (send_message n cid m) = [OQueue cid m].
Proof. unfold send_message, queue_out. reflexivity. Qed.

Lemma send_message_frame n cid m : frame n (fst (send_message n cid m)).
Proof.
  unfold send_message, queue_out. cbn [fst].
  destruct (o_req m).
  - apply frame_upd_conn. reflexivity.
  - eapply frame_trans; [|apply record_answer_frame].
    destruct (get_conn n cid) as [c|].
    + eapply frame_trans; [apply frame_pw_remove|]. apply frame_upd_conn. reflexivity.
    + apply frame_upd_conn. reflexivity.
Qed.

Lemma send_message_g (P : output -> Prop) n cid m : P (OQueue cid m) -> gres P n (send_message n cid m).
Proof.
  intros HP. split; [apply send_message_frame|]. rewrite send_message_out. constructor; [exact HP|constructor].
Qed.

Lemma in_ids_filter (f : conn -> bool) l i : List.In i (List.map c_id (List.filter f l)) -> List.In i (List.map c_id l).
Proof.
  intros H. apply List.in_map_iff in H. destruct H as [c [E Hc]]. apply List.filter_In in Hc.
  apply List.in_map_iff. exists c. split; [exact E|apply Hc].
Qed.

Lemma remove_conn_frame n cid r : frame n (remove_conn n cid r).
Proof.
  unfold remove_conn. destruct (get_conn n cid) as [c|]; [|apply frame_refl].
  set (n1 := set_conns n (List.filter (fun x => negb (Nat.eqb (c_id x) cid)) (n_conns n))).
  assert (F1 : frame n n1).
  { split; [split|].
    - reflexivity.
    - split; [cbn [n1 n_next_cid set_conns]; lia|]. intros i Hi. left. cbn [n1 n_conns set_conns] in Hi.
      eapply in_ids_filter, Hi.
    - intros h k H. exact H. }
  match goal with |- context [set_waiting ?x _ _ _ _] => set (n2 := x) end.
  assert (F2 : frame n1 n2).
  { subst n2. destruct (find_conn_peer n c) as [p|]; [|apply frame_refl].
    destruct (p_conn p) as [k|]; [|apply frame_refl].
    destruct (Nat.eqb k cid); [|apply frame_refl].
    apply frame_upd_peer. intros q. reflexivity. }
  clearbody n2.
  eapply frame_trans; [exact F1|]. eapply frame_trans; [exact F2|].
  split; [apply frame0_same; reflexivity|].
  intros h k H. cbn [n_peer_waiting set_apps set_tables set_waiting] in H. eapply pw_has_filter, H.
Qed.

Lemma close_conn_g (P : output -> Prop) n cid r : P (OClose cid r) -> gres P n (close_conn n cid r).
Proof.
  intros HP. unfold close_conn. destruct (get_conn n cid); [|apply gres_refl].
  split; [apply remove_conn_frame|]. constructor; [exact HP|constructor].
Qed.

Lemma flag_ready_frame n cid : frame n (flag_ready n cid).
Proof.
  unfold flag_ready. eapply frame_trans; [apply (frame_upd_conn n cid (fun c => set_cstate c SReady)); reflexivity|].
  apply frame_same; reflexivity.
Qed.

Lemma assign_peer_conn_frame n cid : frame n (assign_peer_conn n cid).
Proof.
  unfold assign_peer_conn. destruct (get_conn n cid) as [c|]; [|apply frame_refl].
  destruct (String.eqb (c_host c) String.EmptyString); [apply frame_refl|].
  destruct (get_peer n (c_host c)) as [p|]; [|apply frame_refl].
  match goal with |- context [if ?b then set_tables ?x _ _ else _] => set (n1 := x); assert (F : frame n n1) end.
  { apply frame_upd_peer. intros q. reflexivity. }
  clearbody n1. destruct (mem_nat cid (n_half_ready n)); [|exact F].
  eapply frame_trans; [exact F|]. apply frame_same; reflexivity.
Qed.

(* what the node itself originates inside the I/O iteration: CER and DWR *)
Definition own_req (m : omsg) : Prop :=
  o_req m = true /\ (o_cmd m = CE \/ o_cmd m = DW) /\ o_app m = 0 /\ o_tag m = 0.

Lemma own_request_frame n cid c : frame n (fst (own_request n cid c)).
Proof.
  unfold own_request. destruct (get_conn n cid) as [cn|]; cbn [fst]; [|apply frame_refl].
  eapply frame_trans; [apply (frame_upd_conn n cid (fun c0 => set_chbh c0 (seq_next (c_hbh cn)))); reflexivity|].
  apply frame_same; reflexivity.
Qed.

Lemma own_request_msg n cid c :
  let m := snd (own_request n cid c) in o_req m = true /\ o_cmd m = c /\ o_app m = 0 /\ o_tag m = 0.
Proof. unfold own_request. destruct (get_conn n cid); cbn; repeat split. Qed.

(* the classes of output predicates used below *)
Definition sysP (P : output -> Prop) : Prop :=
  (forall cid m, own_req m -> P (OQueue cid m)) /\ (forall cid r, P (OClose cid r)) /\ (forall cid m, P (OSend cid m)).
Definition dialP (pm : list (String.string * bool)) (P : output -> Prop) : Prop :=
  forall nm, pers_in pm nm = true -> P (ODial nm).

Lemma send_cer_g (P : output -> Prop) n cid : sysP P -> gres P n (send_cer n cid).
Proof.
  intros [HQ _]. unfold send_cer.
  pose proof (own_request_frame n cid CE) as F. pose proof (own_request_msg n cid CE) as M.
  destruct (own_request n cid CE) as [n1 m]. cbn [fst snd] in *.
  eapply gres_pre; [exact F|]. apply send_message_g. apply HQ.
  destruct M as [M1 [M2 [M3 M4]]]. repeat split; auto.
Qed.

Lemma send_dwr_g (P : output -> Prop) n cid : sysP P -> gres P n (send_dwr n cid).
Proof.
  intros [HQ _]. unfold send_dwr.
  pose proof (own_request_frame n cid DW) as F. pose proof (own_request_msg n cid DW) as M.
  destruct (own_request n cid DW) as [n1 m]. cbn [fst snd] in *.
  assert (G : gres P n (send_message n1 cid m)).
  { eapply gres_pre; [exact F|]. apply send_message_g. apply HQ.
    destruct M as [M1 [M2 [M3 M4]]]. repeat split; auto. }
  destruct (send_message n1 cid m) as [n2 o]. eapply gres_post; [exact G|].
  apply frame_upd_conn. intros c. destruct (is_ready_state (c_state c)); reflexivity.
Qed.

Lemma check_timers_g (P : output -> Prop) n cid : sysP P -> gres P n (check_timers n cid).
Proof.
  intros HP. pose proof HP as [HQ [HC HS]]. unfold check_timers.
  destruct (n_stopping n); [apply gres_refl|].
  destruct (get_conn n cid) as [c|]; [|apply gres_refl].
  destruct (c_state c); try apply gres_refl.
  - match goal with |- context [if ?b then _ else _] => destruct b end; [apply close_conn_g, HC|apply gres_refl].
  - match goal with |- context [if ?b then _ else _] => destruct b end; [apply send_dwr_g, HP|apply gres_refl].
  - match goal with |- context [if ?b then _ else _] => destruct b end; [apply close_conn_g, HC|apply gres_refl].
Qed.

Lemma timers_all_g (P : output -> Prop) cids0 : sysP P -> forall n, gres P n (timers_all n cids0).
Proof.
  intros HP. induction cids0 as [|c r IH]; intros n; cbn [timers_all]; [apply gres_refl|].
  pose proof (check_timers_g P n c HP) as G1. destruct (check_timers n c) as [n1 o1].
  pose proof (IH n1) as G2. destruct (timers_all n1 r) as [n2 o2].
  eapply gres_app; eassumption.
Qed.

Lemma flush_conns_g (P : output -> Prop) cids0 : sysP P -> forall n, gres P n (flush_conns n cids0).
Proof.
  intros HP. pose proof HP as [HQ [HC HS]].
  induction cids0 as [|cid r IH]; intros n; cbn [flush_conns]; [apply gres_refl|].
  match goal with |- context [let '(_, _) := ?X in _] => assert (G1 : gres P n X) end.
  { destruct (get_conn n cid) as [c|]; [|apply gres_refl].
    destruct (c_stalled c || negb (c_sock_open c)); [apply gres_refl|].
    assert (F : frame n (set_conns n (upd_conn (n_conns n) cid (fun c0 => set_cout c0 [])))).
    { apply frame_upd_conn. reflexivity. }
    assert (HO : List.Forall P (List.map (OSend cid) (c_out c))).
    { apply List.Forall_forall. intros x Hx. apply List.in_map_iff in Hx. destruct Hx as [m [<- _]]. apply HS. }
    destruct (c_out c) as [|m0 ms] eqn:Eo; [apply gres_nil, F|].
    destruct (cstate_eqb (c_state c) SClosing).
    - pose proof (close_conn_g P (set_conns n (upd_conn (n_conns n) cid (fun c0 => set_cout c0 []))) cid R_CLEAN (HC _ _)) as G.
      destruct (close_conn _ cid R_CLEAN) as [n'' oc].
      change (gres P n (n'', ((List.map (OSend cid) (m0 :: ms)) ++ oc)%list)).
      eapply gres_app; [|exact G]. split; [exact F|exact HO].
    - split; [exact F|exact HO]. }
  match goal with |- context [let '(_, _) := ?X in _] => destruct X as [n1 o1] end.
  pose proof (IH n1) as G2. destruct (flush_conns n1 r) as [n2 o2].
  eapply gres_app; eassumption.
Qed.

Lemma flush_g (P : output -> Prop) n : sysP P -> gres P n (flush n).
Proof. intros HP. apply flush_conns_g, HP. Qed.

(* ================================================================================== *)
(* 4. reconnect policy, dialling                                                      *)
(* ================================================================================== *)
(* wants_reconnect: exactly the documented reconnect condition *)
Theorem wants_reconnect_spec n p :
  wants_reconnect n p = true <->
  n_stopping n = false /\ p_persistent p = true /\ p_conn p = None /\
  (exists t, p_lastdisc p = Some t /\ p_rwait p <= n_now n - t) /\
  ~ (p_reason p = Some R_DPR /\ p_always p = false).
Proof.
  unfold wants_reconnect. split.
  - intros H. apply andb_true_iff in H. destruct H as [H H5]. apply andb_true_iff in H. destruct H as [H H4].
    apply andb_true_iff in H. destruct H as [H H3]. apply andb_true_iff in H. destruct H as [H1 H2].
    apply negb_true_iff in H1. apply negb_true_iff in H5.
    split; [exact H1|]. split; [exact H2|]. split; [destruct (p_conn p); [discriminate|reflexivity]|].
    split.
    + destruct (p_lastdisc p) as [t|]; [|discriminate]. exists t. split; [reflexivity|]. apply Z.leb_le. exact H4.
    + intros [Hr Ha]. rewrite Hr, Ha in H5. cbn in H5. discriminate.
  - intros (H1 & H2 & H3 & (t & H4 & H6) & H7). rewrite H1, H2, H3, H4. cbn [negb andb].
    apply Z.leb_le in H6. rewrite H6. cbn [andb].
    destruct (p_reason p) as [r|]; [|reflexivity].
    destruct (r =? R_DPR) eqn:E; [|reflexivity]. destruct (p_always p) eqn:Ea; [reflexivity|].
    exfalso. apply H7. apply Z.eqb_eq in E. subst r. split; reflexivity.
Qed.

(* C12: dialling a peer that already has a connection, or has no address, does nothing *)
Theorem C12_dial_needs_no_connection n nm h r p :
  get_peer n nm = Some p -> (p_conn p <> None \/ p_has_addr p = false) ->
  connect_to_peer n nm h r = (n, []).
Proof.
  intros Hp H. unfold connect_to_peer. rewrite Hp.
  destruct (p_conn p) as [k|]; [reflexivity|]. destruct H as [H|H]; [congruence|]. rewrite H. reflexivity.
Qed.

Lemma connect_to_peer_g (P : output -> Prop) pm n name h res :
  sysP P -> dialP pm P -> pmap n = pm ->
  (forall p, get_peer n name = Some p -> p_persistent p = true) ->
  gres P n (connect_to_peer n name h res).
Proof.
  intros HP HD Hpm Hpers. pose proof HP as [HQ [HC HS]]. unfold connect_to_peer.
  destruct (get_peer n name) as [p|] eqn:Ep; [|apply gres_refl].
  destruct (p_conn p); [apply gres_refl|].
  destruct (negb (p_has_addr p)); [apply gres_refl|].
  assert (HDn : P (ODial name)).
  { apply HD. rewrite <- Hpm, pers_in_pmap, Ep. apply Hpers. reflexivity. }
  cbv zeta.
  match goal with |- context [close_conn ?x _ _] => set (n3 := x) end.
  assert (F3 : frame n n3).
  { split; [split|].
    - unfold pmap. cbn [n3 n_peers set_peers set_tables set_misc set_conns]. apply pmap_upd_peer. intros q. reflexivity.
    - split; [cbn [n3 n_next_cid set_peers set_tables set_misc set_conns]; lia|].
      intros i Hi. cbn [n3 n_next_cid n_conns set_peers set_tables set_misc set_conns] in Hi |- *.
      rewrite List.map_app in Hi. apply List.in_app_or in Hi. destruct Hi as [Hi|Hi]; [left; exact Hi|].
      right. cbn in Hi. destruct Hi as [<-|[]]. lia.
    - intros h0 k H. exact H. }
  clearbody n3. destruct res.
  - match goal with |- context [send_cer ?x ?c] => pose proof (send_cer_g P x c HP) as G; destruct (send_cer x c) as [n5 o] end.
    apply gres_cons; [exact HDn|]. eapply gres_pre; [|exact G].
    eapply frame_trans; [exact F3|]. apply frame_upd_conn. reflexivity.
  - match goal with |- context [close_conn ?x ?c ?r] => pose proof (close_conn_g P x c r (HC _ _)) as G; destruct (close_conn x c r) as [n4 o] end.
    apply gres_cons; [exact HDn|]. eapply gres_pre; [exact F3|exact G].
  - split; [exact F3|]. constructor; [exact HDn|constructor].
Qed.

Lemma reconnect_all_g (P : output -> Prop) pm names :
  sysP P -> dialP pm P -> forall n ds, pmap n = pm -> gres P n (fst (reconnect_all n names ds)).
Proof.
  intros HP HD. induction names as [|nm r IH]; intros n ds Hpm; cbn [reconnect_all]; [apply gres_refl|].
  destruct (get_peer n nm) as [p|] eqn:Ep; [|apply IH, Hpm].
  destruct (wants_reconnect n p && p_has_addr p) eqn:Ew; [|apply IH, Hpm].
  assert (Hpers : forall p0, get_peer n nm = Some p0 -> p_persistent p0 = true).
  { intros p0 E0. rewrite Ep in E0. injection E0 as <-. apply andb_true_iff in Ew. destruct Ew as [Ew _].
    apply wants_reconnect_spec in Ew. apply Ew. }
  destruct ds as [|[h0 res] dr].
  - pose proof (connect_to_peer_g P pm n nm 0 DialOk HP HD Hpm Hpers) as G1.
    destruct (connect_to_peer n nm 0 DialOk) as [n1 o1].
    assert (Hpm1 : pmap n1 = pm). { rewrite <- Hpm. apply (gres_pmap _ _ _ G1). }
    pose proof (IH n1 [] Hpm1) as G2. destruct (reconnect_all n1 r []) as [[n2 o2] d2]. cbn [fst] in *.
    eapply gres_app; eassumption.
  - pose proof (connect_to_peer_g P pm n nm h0 res HP HD Hpm Hpers) as G1.
    destruct (connect_to_peer n nm h0 res) as [n1 o1].
    assert (Hpm1 : pmap n1 = pm). { rewrite <- Hpm. apply (gres_pmap _ _ _ G1). }
    pose proof (IH n1 dr Hpm1) as G2. destruct (reconnect_all n1 r dr) as [[n2 o2] d2]. cbn [fst] in *.
    eapply gres_app; eassumption.
Qed.

Lemma io_iteration_g (P : output -> Prop) pm n ds :
  sysP P -> dialP pm P -> pmap n = pm -> gres P n (fst (io_iteration n ds)).
Proof.
  intros HP HD Hpm. unfold io_iteration.
  pose proof (timers_all_g P (List.map c_id (n_conns n)) HP n) as G1.
  destruct (timers_all n (List.map c_id (n_conns n))) as [n1 o1].
  assert (Hpm1 : pmap n1 = pm). { rewrite <- Hpm. apply (gres_pmap _ _ _ G1). }
  pose proof (reconnect_all_g P pm (List.map p_name (n_peers n1)) HP HD n1 ds Hpm1) as G2.
  destruct (reconnect_all n1 (List.map p_name (n_peers n1)) ds) as [[n2 o2] ds']. cbn [fst] in *.
  eapply gres_post; [eapply gres_app; eassumption|]. apply frame_same; reflexivity.
Qed.

Lemma settle_g (P : output -> Prop) pm n ds :
  sysP P -> dialP pm P -> pmap n = pm -> gres P n (fst (settle n ds)).
Proof.
  intros HP HD Hpm. unfold settle.
  pose proof (flush_g P n HP) as G1. destruct (flush n) as [n1 o1].
  assert (Hpm1 : pmap n1 = pm). { rewrite <- Hpm. apply (gres_pmap _ _ _ G1). }
  pose proof (io_iteration_g P pm n1 ds HP HD Hpm1) as G2. destruct (io_iteration n1 ds) as [[n2 o2] ds'].
  cbn [fst] in *.
  pose proof (flush_g P n2 HP) as G3. destruct (flush n2) as [n3 o3]. cbn [fst].
  eapply gres_app; [exact G1|]. eapply gres_app; eassumption.
Qed.

Lemma settle'_g (P : output -> Prop) pm n ds :
  sysP P -> dialP pm P -> pmap n = pm -> gres P n (settle' n ds).
Proof.
  intros HP HD Hpm. unfold settle'. pose proof (settle_g P pm n ds HP HD Hpm) as G.
  destruct (settle n ds) as [[n1 o1] d]. exact G.
Qed.

(* the output predicates *)
Definition sysout (pm : list (String.string * bool)) (o : output) : Prop :=
  match o with
  | OQueue _ m => own_req m
  | ODial nm => pers_in pm nm = true
  | OSend _ _ | OClose _ _ => True
  | _ => False
  end.
Definition nodial (o : output) : Prop := match o with ODial _ => False | _ => True end.
Definition dialok (pm : list (String.string * bool)) (o : output) : Prop :=
  match o with ODial nm => pers_in pm nm = true | _ => True end.

Lemma sysP_sysout pm : sysP (sysout pm).
Proof. split; [intros cid m H; exact H|]. split; intros; exact I. Qed.
Lemma dialP_sysout pm : dialP pm (sysout pm).
Proof. intros nm H. exact H. Qed.
Lemma sysP_dialok pm : sysP (dialok pm).
Proof. split; [intros cid m H; exact I|]. split; intros; exact I. Qed.
Lemma dialP_dialok pm : dialP pm (dialok pm).
Proof. intros nm H. exact H. Qed.
Lemma sysout_dialok pm o : sysout pm o -> dialok pm o.
Proof. destruct o; cbn; auto. Qed.
Lemma nodial_dialok pm o : nodial o -> dialok pm o.
Proof. destruct o; cbn; auto. Qed.

(* after any event the I/O thread only closes, writes, dials persistent peers and queues
   its own CER / DWR *)
Lemma settle'_sys n ds : gres (sysout (pmap n)) n (settle' n ds).
Proof. apply (settle'_g _ (pmap n)); [apply sysP_sysout|apply dialP_sysout|reflexivity]. Qed.

(* ================================================================================== *)
(* 5. C09: application answers                                                        *)
(* ================================================================================== *)
Definition akey (a : omsg) : Z * Z := (o_hbh a, o_e2e a).
(* an output that hands an ANSWER to a connection *)
Definition is_answer_queue (o : output) : bool :=
  match o with OQueue _ m => negb (o_req m) | _ => false end.

Lemma route_answer_some n a cid n1 :
  route_answer n a = (Some cid, n1) ->
  exists host l c,
    List.find (fun e => mem_zz (akey a) (snd e)) (n_peer_waiting n) = Some (host, l) /\
    List.find (fun c => String.eqb (c_host c) host) (n_conns n) = Some c /\
    c_id c = cid /\ c_host c = host /\ is_ready_state (c_state c) = true /\
    List.In c (n_conns n) /\ List.In (host, l) (n_peer_waiting n) /\ mem_zz (akey a) l = true /\
    n1 = set_waiting n (n_app_waiting n) (pw_remove (n_peer_waiting n) host (akey a))
                     (n_origin_waiting n) (n_sent_answers n).
Proof.
  unfold route_answer. fold (akey a).
  destruct (List.find (fun e => mem_zz (akey a) (snd e)) (n_peer_waiting n)) as [[host l]|] eqn:Ef; [|discriminate].
  cbn [n_conns set_waiting].
  destruct (List.find (fun c => String.eqb (c_host c) host) (n_conns n)) as [c|] eqn:Ec; [|discriminate].
  destruct (is_ready_state (c_state c)) eqn:Er; [|discriminate].
  intros H. injection H as H1 H2. exists host, l, c.
  apply List.find_some in Ef. destruct Ef as [Ef1 Ef2]. cbn [snd] in Ef2.
  pose proof (List.find_some _ _ Ec) as [Ec1 Ec2]. apply String.eqb_eq in Ec2.
  repeat split; auto.
Qed.

Lemma route_answer_frame n a : frame n (snd (route_answer n a)).
Proof.
  unfold route_answer.
  destruct (List.find _ (n_peer_waiting n)) as [[host l]|]; [|apply frame_refl].
  match goal with |- context [List.find ?f (n_conns ?x)] => destruct (List.find f (n_conns x)) as [c|] end.
  - destruct (is_ready_state (c_state c)); apply frame_pw_remove.
  - apply frame_pw_remove.
Qed.

(* shape of the reaction to Application.send_answer: NotRoutable, or the answer handed to one
   ready connection under whose host identity the pair was waiting, followed only by what the
   I/O thread does on its own (writes, closes, dials, its own CER / DWR) *)
Theorem C09_answer_shape n ds i a n' outs :
  step n ds (EAppAnswer i a) = (n', outs) ->
  outs = [ONotRoutable] \/
  exists cid c l rest,
    outs = OQueue cid a :: rest /\ List.Forall (sysout (pmap n)) rest /\
    List.In c (n_conns n) /\ c_id c = cid /\ is_ready_state (c_state c) = true /\
    List.In (c_host c, l) (n_peer_waiting n) /\ mem_zz (o_hbh a, o_e2e a) l = true.
Proof.
  cbn [step]. destruct (route_answer n a) as [[cid|] n1] eqn:Er.
  - pose proof (route_answer_frame n a) as F1. rewrite Er in F1. cbn [snd] in F1.
    pose proof (send_message_frame n1 cid a) as F2. pose proof (send_message_out n1 cid a) as O2.
    destruct (send_message n1 cid a) as [n2 o2]. cbn [fst snd] in F2, O2.
    pose proof (settle'_sys n2 ds) as G. destruct (settle' n2 ds) as [n3 o3].
    intros H. injection H as <- <-. right.
    apply route_answer_some in Er. destruct Er as (host & l & c & _ & _ & Hc & Hh & Hr & Hin & Hpw & Hm & _).
    exists cid, c, l, o3. subst o2. split; [reflexivity|]. split.
    + destruct G as [_ G]. cbn [snd] in G.
      assert (E : pmap n2 = pmap n). { destruct F1 as [[E1 _] _]. destruct F2 as [[E2 _] _]. congruence. }
      rewrite E in G. exact G.
    + subst host. repeat split; assumption.
  - intros H. injection H as <- <-. left. reflexivity.
Qed.

(* C09: an answer handed to a connection is the submitted one, goes to a ready connection under
   whose host identity its (hop-by-hop, end-to-end) pair was waiting, and at most one answer is
   handed out (o_req m = false separates it from the CER / DWR of the I/O thread) *)
Theorem C09_to_requester n ds i a n' outs cid m :
  step n ds (EAppAnswer i a) = (n', outs) ->
  List.In (OQueue cid m) outs -> o_req m = false ->
  m = a /\
  (exists c l, List.In c (n_conns n) /\ c_id c = cid /\ is_ready_state (c_state c) = true /\
               List.In (c_host c, l) (n_peer_waiting n) /\ mem_zz (o_hbh a, o_e2e a) l = true) /\
  (List.length (List.filter is_answer_queue outs) <= 1)%nat /\
  (forall cid' m', List.In (OQueue cid' m') outs -> o_req m' = false -> cid' = cid /\ m' = m).
Proof.
  intros Hs Hin Hreq. apply C09_answer_shape in Hs. destruct Hs as [->|Hs].
  - destruct Hin as [Hin|[]]. discriminate.
  - destruct Hs as (cid0 & c & l & rest & -> & Hrest & Hc & Hid & Hr & Hpw & Hm).
    assert (Hrest' : forall k x, List.In (OQueue k x) rest -> o_req x = true).
    { intros k x Hx. rewrite List.Forall_forall in Hrest. apply Hrest in Hx. cbn in Hx. apply Hx. }
    assert (Hone : forall k x, List.In (OQueue k x) (OQueue cid0 a :: rest) -> o_req x = false -> k = cid0 /\ x = a).
    { intros k x [Hx|Hx] Hq; [injection Hx as <- <-; split; reflexivity|]. apply Hrest' in Hx. congruence. }
    destruct (Hone _ _ Hin Hreq) as [-> ->].
    split; [reflexivity|]. split; [exists c, l; repeat split; assumption|]. split.
    + cbn [List.filter]. assert (E : List.filter is_answer_queue rest = []).
      { clear -Hrest. induction rest as [|x r IH]; [reflexivity|]. inversion Hrest as [|? ? Hx Hr]; subst.
        cbn [List.filter]. destruct x; cbn [is_answer_queue]; try (apply IH, Hr).
        cbn in Hx. destruct Hx as [Hx _]. rewrite Hx. cbn [negb]. apply IH, Hr. }
      rewrite E. destruct (is_answer_queue (OQueue cid0 a)); cbn [List.length]; lia.
    + intros k x Hx Hq. apply (Hone _ _ Hx Hq).
Qed.

(* with unique connection ids the connection found is the one get_conn yields *)
Lemma get_conn_of_in n c :
  List.NoDup (List.map c_id (n_conns n)) -> List.In c (n_conns n) -> get_conn n (c_id c) = Some c.
Proof.
  unfold get_conn. induction (n_conns n) as [|x l IH]; cbn [List.map List.In List.find]; [intros _ []|].
  intros Hnd [->|Hin]; [rewrite Nat.eqb_refl; reflexivity|].
  inversion Hnd as [|? ? Hx Hl]; subst.
  destruct (Nat.eqb (c_id x) (c_id c)) eqn:E; [|apply IH; assumption].
  apply Nat.eqb_eq in E. exfalso. apply Hx. rewrite E. apply List.in_map, Hin.
Qed.

(* C09: an answer whose pair is recorded nowhere, or whose recorded host has no connection, or
   whose connection is not ready, is refused and nothing is handed to anybody *)
Theorem C09_gone_is_error n ds i a :
  (forall h l, List.In (h, l) (n_peer_waiting n) -> mem_zz (o_hbh a, o_e2e a) l = false) \/
  (exists host l,
      List.find (fun e => mem_zz (o_hbh a, o_e2e a) (snd e)) (n_peer_waiting n) = Some (host, l) /\
      ((forall c, List.In c (n_conns n) -> c_host c <> host) \/
       (exists c, List.find (fun c => String.eqb (c_host c) host) (n_conns n) = Some c /\
                  is_ready_state (c_state c) = false))) ->
  snd (step n ds (EAppAnswer i a)) = [ONotRoutable].
Proof.
  intros H. cbn [step].
  assert (E : fst (route_answer n a) = None).
  { unfold route_answer. destruct H as [H|(host & l & Hf & H)].
    - destruct (List.find _ (n_peer_waiting n)) as [[host l]|] eqn:Ef; [|reflexivity].
      apply List.find_some in Ef. destruct Ef as [Ef1 Ef2]. cbn [snd] in Ef2. rewrite (H _ _ Ef1) in Ef2. discriminate.
    - rewrite Hf. cbn [n_conns set_waiting]. destruct H as [H|(c & Hc & Hr)].
      + destruct (List.find _ (n_conns n)) as [c|] eqn:Ec; [|reflexivity].
        apply List.find_some in Ec. destruct Ec as [Ec1 Ec2]. apply String.eqb_eq in Ec2.
        exfalso. exact (H c Ec1 Ec2).
      + rewrite Hc, Hr. reflexivity. }
  destruct (route_answer n a) as [[cid|] n1]; [discriminate|]. reflexivity.
Qed.

(* C09: once submitted, the pair is gone from that host's list, immediately and after the step *)
Theorem C09_second_fails n a cid n1 :
  route_answer n a = (Some cid, n1) ->
  exists c, List.In c (n_conns n) /\ c_id c = cid /\
            (forall l, List.In (c_host c, l) (n_peer_waiting n1) -> mem_zz (o_hbh a, o_e2e a) l = false) /\
            forall ds i n' outs, step n ds (EAppAnswer i a) = (n', outs) ->
                                 ~ pw_has (n_peer_waiting n') (c_host c) (o_hbh a, o_e2e a).
Proof.
  intros Er. pose proof (route_answer_some _ _ _ _ Er) as (host & l & c & _ & _ & Hc & Hh & Hr & Hin & Hpw & Hm & Hn1).
  exists c. split; [exact Hin|]. split; [exact Hc|].
  assert (Hgone : forall l0, List.In (c_host c, l0) (n_peer_waiting n1) -> mem_zz (o_hbh a, o_e2e a) l0 = false).
  { intros l0 Hl0. rewrite Hn1 in Hl0. cbn [n_peer_waiting set_waiting] in Hl0. unfold pw_remove in Hl0.
    apply List.in_map_iff in Hl0. destruct Hl0 as [[h1 l1] [E Hin1]]. cbn [fst snd] in E.
    destruct (String.eqb h1 host) eqn:Eh.
    - injection E as _ <-. apply mem_zz_remove_zz.
    - injection E as E1 _. apply String.eqb_neq in Eh. congruence. }
  split; [exact Hgone|].
  intros ds i n' outs Hs [l0 [Hl0 Hm0]]. cbn [step] in Hs. rewrite Er in Hs.
  pose proof (send_message_frame n1 cid a) as F2. destruct (send_message n1 cid a) as [n2 o2]. cbn [fst] in F2.
  pose proof (settle'_sys n2 ds) as [F3 _]. destruct (settle' n2 ds) as [n3 o3]. cbn [fst] in F3.
  injection Hs as <- <-.
  assert (Hp : pw_has (n_peer_waiting n1) (c_host c) (o_hbh a, o_e2e a)).
  { apply F2, F3. exists l0. split; assumption. }
  destruct Hp as [l1 [Hl1 Hm1]]. rewrite (Hgone _ Hl1) in Hm1. discriminate.
Qed.

(* ... consequently a second submission of the same answer is refused *)
Theorem C09_second_is_error n ds i a n' outs cid n1 :
  route_answer n a = (Some cid, n1) ->
  step n ds (EAppAnswer i a) = (n', outs) ->
  (forall c h, List.In c (n_conns n) -> c_id c = cid -> h <> c_host c ->
               ~ pw_has (n_peer_waiting n) h (o_hbh a, o_e2e a)) ->
  forall ds2 j, snd (step n' ds2 (EAppAnswer j a)) = [ONotRoutable].
Proof.
  intros Er Hs Hoth ds2 j.
  pose proof (C09_second_fails _ _ _ _ Er) as (c & Hin & Hc & _ & Hgone).
  specialize (Hgone _ _ _ _ Hs).
  assert (F : pws n n').
  { pose proof (route_answer_frame n a) as F1. rewrite Er in F1. cbn [snd] in F1.
    cbn [step] in Hs. rewrite Er in Hs.
    pose proof (send_message_frame n1 cid a) as F2. destruct (send_message n1 cid a) as [n2 o2]. cbn [fst] in F2.
    pose proof (settle'_sys n2 ds) as [F3 _]. destruct (settle' n2 ds) as [n3 o3]. cbn [fst] in F3.
    injection Hs as <- <-. eapply pws_trans; [apply F1|]. eapply pws_trans; [apply F2|apply F3]. }
  apply C09_gone_is_error. left. intros h l Hl.
  destruct (mem_zz (o_hbh a, o_e2e a) l) eqn:Em; [|reflexivity]. exfalso.
  assert (Hp : pw_has (n_peer_waiting n') h (o_hbh a, o_e2e a)) by (exists l; split; assumption).
  destruct (String.eqb h (c_host c)) eqn:Eh.
  - apply String.eqb_eq in Eh. subst h. exact (Hgone Hp).
  - apply String.eqb_neq in Eh. exact (Hoth c h Hin Hc Eh (F _ _ Hp)).
Qed.

(* C09: closing a connection drops every waiting list filed under its host identity *)
Theorem C09_removed_on_close n cid r c :
  get_conn n cid = Some c ->
  forall l, ~ List.In (c_host c, l) (n_peer_waiting (remove_conn n cid r)).
Proof.
  intros Hc l Hin. unfold remove_conn in Hin. rewrite Hc in Hin.
  cbn [n_peer_waiting set_apps set_tables set_waiting] in Hin.
  apply List.filter_In in Hin. destruct Hin as [_ E]. cbn [fst] in E. rewrite String.eqb_refl in E. discriminate.
Qed.

(* ================================================================================== *)
(* 6. C10: routing of application requests                                            *)
(* ================================================================================== *)
Definition is_app_key (i : nat) (kv : rkey * list String.string) : bool :=
  match fst kv with RApp j => Nat.eqb i j | RDefault => false end.
Definition is_default_key (kv : rkey * list String.string) : bool :=
  match fst kv with RDefault => true | _ => false end.
Definition realm_of (n : node) (realm : pres String.string) : String.string :=
  match realm with Present r => r | _ => g_realm (n_cfg n) end.

(* the route list chosen for application i and the realm: the application's own entry of the
   realm if there is one, else the realm's default entry *)
Inductive chosen_list (n : node) (i : nat) (realm : pres String.string) : list String.string -> Prop :=
| chosen_app entries names :
    route_lookup n (realm_of n realm) = Some entries ->
    List.find (is_app_key i) entries = Some (RApp i, names) ->
    chosen_list n i realm names
| chosen_default entries names :
    route_lookup n (realm_of n realm) = Some entries ->
    List.find (is_app_key i) entries = None ->
    List.find is_default_key entries = Some (RDefault, names) ->
    chosen_list n i realm names.

Definition chosen_names (n : node) (i : nat) (realm : pres String.string) : option (list String.string) :=
  match route_lookup n (realm_of n realm) with
  | None => None
  | Some entries =>
      match List.find (is_app_key i) entries with
      | Some kv => Some (snd kv)
      | None => match List.find is_default_key entries with
                | Some kv => Some (snd kv)
                | None => None
                end
      end
  end.

Lemma chosen_names_spec n i realm names :
  chosen_names n i realm = Some names <-> chosen_list n i realm names.
Proof.
  unfold chosen_names. split.
  - destruct (route_lookup n (realm_of n realm)) as [entries|] eqn:El; [|discriminate].
    destruct (List.find (is_app_key i) entries) as [kv|] eqn:E1.
    + intros H. injection H as <-. pose proof (List.find_some _ _ E1) as [_ Hk].
      destruct kv as [[j|] nms]; cbn [is_app_key fst] in Hk; [|discriminate].
      apply Nat.eqb_eq in Hk. subst j. eapply chosen_app; eassumption.
    + destruct (List.find is_default_key entries) as [kv|] eqn:E2; [|discriminate].
      intros H. injection H as <-. pose proof (List.find_some _ _ E2) as [_ Hk].
      destruct kv as [[j|] nms]; cbn [is_default_key fst] in Hk; [discriminate|].
      eapply chosen_default; eassumption.
  - intros [entries nms Hl Hf|entries nms Hl Hf Hd]; rewrite Hl, Hf; [reflexivity|]. rewrite Hd. reflexivity.
Qed.

(* the peer is connected through a present, ready connection *)
Definition usable_peer (n : node) (p : peer) : Prop :=
  exists k c, p_conn p = Some k /\ get_conn n k = Some c /\ is_ready_state (c_state c) = true.

Definition usable_of (n : node) (nm : String.string) : list peer :=
  match get_peer n nm with
  | Some p => match p_conn p with
              | Some k => match get_conn n k with
                          | Some c => if is_ready_state (c_state c) then [p] else []
                          | None => []
                          end
              | None => []
              end
  | None => []
  end.

Lemma usable_of_In n nm p : List.In p (usable_of n nm) <-> get_peer n nm = Some p /\ usable_peer n p.
Proof.
  unfold usable_of, usable_peer. split.
  - destruct (get_peer n nm) as [q|]; [|intros []].
    destruct (p_conn q) as [k|] eqn:Ek; [|intros []].
    destruct (get_conn n k) as [c|] eqn:Ec; [|intros []].
    destruct (is_ready_state (c_state c)) eqn:Er; [|intros []].
    intros [<-|[]]. split; [reflexivity|]. exists k, c. repeat split; assumption.
  - intros [Hp (k & c & Hk & Hc & Hr)]. rewrite Hp, Hk, Hc, Hr. left. reflexivity.
Qed.

Lemma route_request_unfold n i realm :
  route_request n i realm =
  match chosen_names n i realm with
  | None | Some [] => None
  | Some l => Some (List.flat_map (usable_of n) l)
  end.
Proof.
  unfold route_request, chosen_names, realm_of.
  destruct (route_lookup n match realm with Present r => r | _ => g_realm (n_cfg n) end) as [entries|]; [|reflexivity].
  reflexivity.
Qed.

(* route_request: the peers offered are exactly the usable peers named in the chosen list;
   no list is offered iff no (non-empty) list can be chosen *)
Theorem route_request_spec n i realm :
  (forall l, route_request n i realm = Some l ->
     exists names, chosen_list n i realm names /\ names <> [] /\
       forall p, List.In p l <->
                 exists nm, List.In nm names /\ get_peer n nm = Some p /\ usable_peer n p) /\
  (route_request n i realm = None <-> forall names, chosen_list n i realm names -> names = []).
Proof.
  rewrite route_request_unfold. split.
  - intros l H. destruct (chosen_names n i realm) as [[|nm0 nms]|] eqn:Ec; try discriminate.
    injection H as <-. exists (nm0 :: nms). split; [apply chosen_names_spec, Ec|]. split; [discriminate|].
    intros p. change (usable_of n nm0 ++ List.flat_map (usable_of n) nms)%list with (List.flat_map (usable_of n) (nm0 :: nms)). rewrite List.in_flat_map. split.
    + intros [nm [Hnm Hp]]. exists nm. split; [exact Hnm|]. apply usable_of_In, Hp.
    + intros [nm [Hnm Hp]]. exists nm. split; [exact Hnm|]. apply usable_of_In, Hp.
  - split.
    + intros H names Hc. apply chosen_names_spec in Hc. rewrite Hc in H. destruct names; [reflexivity|discriminate].
    + intros H. destruct (chosen_names n i realm) as [[|nm0 nms]|] eqn:Ec; try reflexivity.
      apply chosen_names_spec in Ec. apply H in Ec. discriminate.
Qed.

(* every offered peer is named in the chosen list and connected through a ready connection *)
Corollary route_request_member n i realm l p :
  route_request n i realm = Some l -> List.In p l ->
  exists names, chosen_list n i realm names /\ List.In (p_name p) names /\ get_peer n (p_name p) = Some p /\
                exists k c, p_conn p = Some k /\ get_conn n k = Some c /\ is_ready_state (c_state c) = true.
Proof.
  intros Hr Hp. destruct (route_request_spec n i realm) as [H _]. destruct (H l Hr) as (names & Hc & _ & Hiff).
  apply Hiff in Hp. destruct Hp as (nm & Hnm & Hg & Hu). exists names. split; [exact Hc|].
  pose proof (get_peer_name _ _ _ Hg) as [E _]. subst nm. repeat split; assumption.
Qed.

(* route_request does not look at the generators, the stop flag or the connection counter *)
Lemma route_request_set_misc n s c e i realm : route_request (set_misc n s c e) i realm = route_request n i realm.
Proof. reflexivity. Qed.

Definition e2e_prep (n : node) (m : omsg) : node * Z :=
  if o_e2e m =? 0 then (set_misc n (n_stopping n) (n_next_cid n) (seq_next (n_e2e n)), seq_next (n_e2e n))
  else (n, o_e2e m).
Definition choose (usable : list peer) (pick : nat) : option peer :=
  match usable with
  | [p] => Some p
  | _ => List.nth_error usable (Nat.modulo pick (List.length usable))
  end.

Lemma route_request_e2e n m i realm : route_request (fst (e2e_prep n m)) i realm = route_request n i realm.
Proof. unfold e2e_prep. destruct (o_e2e m =? 0); reflexivity. Qed.

Lemma choose_spec usable pick p :
  choose usable pick = Some p ->
  List.In p usable /\ (forall q, usable = [q] -> p = q) /\
  (List.length usable <> 1%nat -> List.nth_error usable (Nat.modulo pick (List.length usable)) = Some p).
Proof.
  unfold choose. destruct usable as [|a [|b r]].
  - intros H. destruct (Nat.modulo pick (List.length (@nil peer))); discriminate.
  - intros H. injection H as <-. split; [left; reflexivity|]. split; [intros q E; congruence|].
    cbn [List.length]. intros E. congruence.
  - intros H. split; [eapply List.nth_error_In, H|]. split; [intros q E; discriminate|]. intros _. exact H.
Qed.

(* the part of Application.send_request after the end-to-end id is settled (copy of the model
   text; tied to the model by step_app_request below) *)
Definition req_core (n0 : node) (e2e : Z) (ds : dials) (i : nat) (m : omsg) (realm : pres String.string)
           (pick : nat) (timeout : Z) : node * list output :=
  match route_request n0 i realm with
  | None | Some [] => (n0, [ONotRoutable])
  | Some usable =>
      match choose usable pick with
      | None => (n0, [ONotRoutable])
      | Some p =>
          match p_conn p with
          | None => (n0, [ONotRoutable])
          | Some cid =>
              match get_conn n0 cid with
              | None => (n0, [ONotRoutable])
              | Some c =>
                  let '(n1, hbh) := (if o_hbh m =? 0
                                     then (set_conns n0 (upd_conn (n_conns n0) cid (fun c => set_chbh c (seq_next (c_hbh c)))), seq_next (c_hbh c))
                                     else (n0, o_hbh m)) in
                  let m' := {| o_cmd := o_cmd m; o_req := true; o_app := (if o_app m =? 0 then match List.nth_error (n_apps n1) i with Some a => a_id a | None => 0 end else o_app m);
                               o_hbh := hbh; o_e2e := e2e; o_result := None; o_failed := []; o_tag := o_tag m |} in
                  let n2 := set_waiting n1 ((List.filter (fun x => let '(h, e, _) := x in negb ((h =? hbh) && (e =? e2e))) (n_app_waiting n1)) ++ [(hbh, e2e, i)])%list
                                        (n_peer_waiting n1) (n_origin_waiting n1) (n_sent_answers n1) in
                  let n3 := set_apps n2 (upd_app (n_apps n2) i (fun a => set_awaiting a (a_waiting a ++ [(hbh, n_now n2 + timeout)])%list)) in
                  let '(n4, o4) := send_message n3 cid m' in
                  let '(n5, o5) := settle' n4 ds in (n5, (o4 ++ o5)%list)
              end
          end
      end
  end.

Lemma step_app_request n ds i m realm pick timeout :
  step n ds (EAppRequest i m realm pick timeout) =
  req_core (fst (e2e_prep n m)) (snd (e2e_prep n m)) ds i m realm pick timeout.
Proof. cbn [step]. unfold e2e_prep. destruct (o_e2e m =? 0); reflexivity. Qed.

Lemma send_message_req_eq n cid m :
  o_req m = true ->
  send_message n cid m =
  (set_conns n (upd_conn (n_conns n) cid (fun c => set_cout c (c_out c ++ [m])%list)), [OQueue cid m]).
Proof. intros H. unfold send_message, queue_out. rewrite H. reflexivity. Qed.
