(* C11 — watchdog: idle sends one DWR, DWA restores ready, silence closes the connection
   Statements copied from the proof files; each is closed by `exact`. *)
From DV Require Prelude.Base Model.Ids Proofs.IdsP Model.Node Proofs.NodeA Proofs.NodeB Proofs.NodeC Proofs.NodeD Proofs.NodeF Proofs.NodeG Proofs.NodeH.
From Coq Require String List Lia Bool Arith ZArith.

Module FromNodeA.
Import DV.Prelude.Base DV.Model.Node DV.Proofs.NodeA.
Import Coq.Strings.String.
Open Scope string_scope.
Open Scope list_scope.
Open Scope Z_scope.

(* C11: the definitional case analysis of check_timers with the effective timer values named *)
Theorem check_timers_unfold n cid c :
  n_stopping n = false -> get_conn n cid = Some c ->
  check_timers n cid =
  match c_state c with
  | SConnected =>
      if (negb (c_recv c) && (eff_cea n c <? n_now n - c_last_read c))
         || (c_recv c && (eff_cer n c <? n_now n - c_last_read c))
      then close_conn n cid R_FAILED_CE else (n, [])
  | SReadyWaitDwa =>
      if eff_dwa n c <? n_now n - c_last_dwr c then close_conn n cid R_DWA_TIMEOUT else (n, [])
  | SReady => if eff_idle n c <? n_now n - c_last_read c then send_dwr n cid else (n, [])
  | _ => (n, [])
  end.
Proof. exact (@NodeA.check_timers_unfold n cid c). Qed.

(* C11: the peer's own timer values (when set and non-zero) override the node's *)
Theorem C11_peer_overrides n c :
  (forall p, find_conn_peer n c = Some p ->
     eff_idle n c = opt_or (p_idle p) (g_idle (n_cfg n)) /\
     eff_dwa n c = opt_or (p_dwa p) (g_dwa (n_cfg n)) /\
     eff_cea n c = opt_or (p_cea p) (g_cea (n_cfg n)) /\
     eff_cer n c = opt_or (p_cer p) (g_cer (n_cfg n))) /\
  (find_conn_peer n c = None ->
     eff_idle n c = g_idle (n_cfg n) /\ eff_dwa n c = g_dwa (n_cfg n) /\
     eff_cea n c = g_cea (n_cfg n) /\ eff_cer n c = g_cer (n_cfg n)).
Proof. exact (@NodeA.C11_peer_overrides n c). Qed.

(* C11: an idle READY connection gets exactly one DWR and becomes READY_WAITING_DWA, last_dwr = now *)
Theorem C11_idle_sends_one n cid c :
  n_stopping n = false -> get_conn n cid = Some c -> c_state c = SReady ->
  eff_idle n c < n_now n - c_last_read c ->
  exists dwr c',
    snd (check_timers n cid) = [OQueue cid dwr] /\ o_cmd dwr = DW /\ o_req dwr = true /\
    get_conn (fst (check_timers n cid)) cid = Some c' /\
    c_state c' = SReadyWaitDwa /\ c_last_dwr c' = n_now n.
Proof. exact (@NodeA.C11_idle_sends_one n cid c). Qed.

(* C11: while the DWA is awaited and its timeout has not expired nothing more is sent *)
Theorem C11_no_second_dwr n cid c :
  get_conn n cid = Some c -> c_state c = SReadyWaitDwa ->
  n_now n - c_last_dwr c <= eff_dwa n c ->
  check_timers n cid = (n, []).
Proof. exact (@NodeA.C11_no_second_dwr n cid c). Qed.

(* C11: a DWA turns READY_WAITING_DWA back into READY and clears last_dwr; nothing is sent *)
Theorem C11_dwa_restores n cid c :
  get_conn n cid = Some c -> c_state c = SReadyWaitDwa ->
  snd (recv_dwa n cid) = [] /\
  exists c', get_conn (fst (recv_dwa n cid)) cid = Some c' /\ c_state c' = SReady /\ c_last_dwr c' = 0.
Proof. exact (@NodeA.C11_dwa_restores n cid c). Qed.

(* C11: no DWA within the effective DWA timeout closes the connection (DWA_TIMEOUT) *)
Theorem C11_silence_closes n cid c :
  n_stopping n = false -> get_conn n cid = Some c -> c_state c = SReadyWaitDwa ->
  eff_dwa n c < n_now n - c_last_dwr c ->
  check_timers n cid = close_conn n cid R_DWA_TIMEOUT /\
  snd (check_timers n cid) = [OClose cid R_DWA_TIMEOUT].
Proof. exact (@NodeA.C11_silence_closes n cid c). Qed.

(* C11: a READY connection that was read from recently gets no DWR *)
Theorem C11_no_dwr_while_busy n cid c :
  get_conn n cid = Some c -> c_state c = SReady ->
  n_now n - c_last_read c <= eff_idle n c ->
  check_timers n cid = (n, []).
Proof. exact (@NodeA.C11_no_dwr_while_busy n cid c). Qed.

(* C11: a DWR arriving on a ready connection is answered with exactly one DWA 2001 *)
Theorem C11_dwr_answered n cid c m :
  get_conn n cid = Some c -> (c_state c = SReady \/ c_state c = SReadyWaitDwa) ->
  m_cmd m = DW -> m_req m = true -> m_missing m = [] -> m_t m = false ->
  snd (dispatch n cid m) = [OQueue cid (answer_of m (Some 2001) [])].
Proof. exact (@NodeA.C11_dwr_answered n cid c m). Qed.

(* C11: a second timer check at the same instant produces nothing *)
Theorem C11_timers_idempotent n cid n1 o1 :
  (forall c, get_conn n cid = Some c -> 0 <= eff_dwa n c) ->
  check_timers n cid = (n1, o1) -> snd (check_timers n1 cid) = [].
Proof. exact (@NodeA.C11_timers_idempotent n cid n1 o1). Qed.
End FromNodeA.

Module FromNodeH.
Import DV.Prelude.Base DV.Model.Node DV.Proofs.NodeA DV.Proofs.NodeC DV.Proofs.NodeH.
Local Open Scope Z_scope.

(* C11 (one step): unless the event is a read of a DWA on cid, a quiet connection cid (absent, or waiting for its
   DWA, or being torn down) stays quiet and gets no DWR; and a step that queues a DWR on cid leaves it quiet *)
Theorem C11_step_one_dwr cid n ds e :
  conns_fresh n -> app_ok e -> ~ dwa_read cid e ->
  (W cid n -> W cid (fst (step n ds e)) /\ ~ List.Exists (isdwr cid) (snd (step n ds e))) /\
  (List.Exists (isdwr cid) (snd (step n ds e)) -> W cid (fst (step n ds e))).
Proof. exact (@NodeH.C11_step_one_dwr cid n ds e). Qed.

(* C11: from a state in which connection cid is quiet (absent for good, waiting for its DWA, or being torn down),
   either some later read on cid holds a DWA, or no DWR is ever queued on cid and cid stays quiet *)
Theorem C11_history_quiet_until_dwa cid : forall evs n,
  conns_fresh n -> W cid n ->
  (forall x, List.In x (strace n evs) -> app_ok (fst (snd x))) ->
  (exists x, List.In x (strace n evs) /\ dwa_read cid (fst (snd x))) \/
  (W cid (fst (run n evs)) /\ conns_fresh (fst (run n evs)) /\
   forall x, List.In x (strace n evs) -> W cid (fst x) /\ ~ List.Exists (isdwr cid) (snd (snd x))).
Proof. exact (@NodeH.C11_history_quiet_until_dwa cid). Qed.

(* C11: between two watchdog requests queued on the same connection there is a read of a DWA on that connection
   (the reading event may be the one that queues the first or the second DWR) *)
Theorem C11_history_one_dwr n0 evs cid pre x1 mid x2 post :
  conns_fresh n0 ->
  strace n0 evs = (pre ++ x1 :: mid ++ x2 :: post)%list ->
  (forall x, List.In x (x1 :: mid ++ [x2])%list -> app_ok (fst (snd x))) ->
  List.Exists (isdwr cid) (snd (snd x1)) -> List.Exists (isdwr cid) (snd (snd x2)) ->
  exists x, List.In x (x1 :: mid ++ [x2])%list /\ dwa_read cid (fst (snd x)).
Proof. exact (@NodeH.C11_history_one_dwr n0 evs cid pre x1 mid x2 post). Qed.
End FromNodeH.

Print Assumptions FromNodeA.check_timers_unfold.
Print Assumptions FromNodeA.C11_peer_overrides.
Print Assumptions FromNodeA.C11_idle_sends_one.
Print Assumptions FromNodeA.C11_no_second_dwr.
Print Assumptions FromNodeA.C11_dwa_restores.
Print Assumptions FromNodeA.C11_silence_closes.
Print Assumptions FromNodeA.C11_no_dwr_while_busy.
Print Assumptions FromNodeA.C11_dwr_answered.
Print Assumptions FromNodeA.C11_timers_idempotent.
Print Assumptions FromNodeH.C11_step_one_dwr.
Print Assumptions FromNodeH.C11_history_quiet_until_dwa.
Print Assumptions FromNodeH.C11_history_one_dwr.
