(* Proofs about Model/Node.v: C09 (application answers), C10 (application requests and
   answer correlation), C12 (disconnect-peer handling and reconnect policy). *)
From DV Require Import Prelude.Base Model.Ids Proofs.IdsP Model.Node.
From Coq Require String.
From Coq Require Import Lia.
Local Open Scope Z_scope.

(* ================================================================================== *)
(* 0. generic list facts                                                              *)
(* ================================================================================== *)
Lemma find_filter_neg {A} (f : A -> bool) (l : list A) :
  List.find f (List.filter (fun x => negb (f x)) l) = None.
Proof.
  induction l as [|a l IH]; cbn [List.filter List.find]; [reflexivity|].
  destruct (f a) eqn:E; cbn [negb List.find]; [exact IH|]. rewrite E. exact IH.
Qed.

Lemma find_app_l {A} (f : A -> bool) (l1 l2 : list A) x :
  List.find f l1 = Some x -> List.find f (l1 ++ l2)%list = Some x.
Proof.
  induction l1 as [|a l IH]; cbn [List.find List.app]; [discriminate|].
  destruct (f a); [trivial|exact IH].
Qed.

Lemma find_app_r {A} (f : A -> bool) (l1 l2 : list A) :
  List.find f l1 = None -> List.find f (l1 ++ l2)%list = List.find f l2.
Proof.
  induction l1 as [|a l IH]; cbn [List.find List.app]; [trivial|].
  destruct (f a); [discriminate|exact IH].
Qed.

Lemma find_filter_keep {A} (f g : A -> bool) (l : list A) :
  (forall x, f x = true -> g x = true) ->
  List.find f (List.filter g l) = List.find f l.
Proof.
  intros Hfg. induction l as [|a l IH]; cbn [List.filter List.find]; [reflexivity|].
  destruct (g a) eqn:Eg; cbn [List.find].
  - destruct (f a); [reflexivity|exact IH].
  - destruct (f a) eqn:Ef; [rewrite (Hfg a Ef) in Eg; discriminate|exact IH].
Qed.

Lemma mem_zz_remove_zz k l : mem_zz k (remove_zz k l) = false.
Proof.
  unfold mem_zz, remove_zz. induction l as [|a l IH]; cbn [List.filter List.existsb]; [reflexivity|].
  destruct ((fst k =? fst a) && (snd k =? snd a)) eqn:E; cbn [negb List.existsb]; [exact IH|].
  rewrite E. exact IH.
Qed.

Lemma mem_zz_remove_zz_sub k k' l : mem_zz k (remove_zz k' l) = true -> mem_zz k l = true.
Proof.
  unfold mem_zz, remove_zz. induction l as [|a l IH]; cbn [List.filter List.existsb]; [trivial|].
  destruct (negb ((fst k' =? fst a) && (snd k' =? snd a))); cbn [List.existsb]; intros H.
  - apply orb_true_iff in H. apply orb_true_iff. destruct H as [H|H]; [left; exact H|right; exact (IH H)].
  - apply orb_true_iff. right. exact (IH H).
Qed.

Lemma mem_zz_In k l : mem_zz k l = true <-> List.In k l.
Proof.
  unfold mem_zz. rewrite List.existsb_exists. split.
  - intros [y [Hy E]]. apply andb_true_iff in E. destruct E as [E1 E2].
    apply Z.eqb_eq in E1. apply Z.eqb_eq in E2. destruct k as [a b], y as [c d]. cbn [fst snd] in *.
    subst. exact Hy.
  - intros H. exists k. split; [exact H|]. rewrite !Z.eqb_refl. reflexivity.
Qed.

(* ================================================================================== *)
(* 1. connection / peer table lookups                                                 *)
(* ================================================================================== *)
Definition by_cid (i : nat) (c : conn) : bool := Nat.eqb (c_id c) i.
Definition by_name (nm : String.string) (p : peer) : bool := String.eqb (p_name p) nm.

Lemma get_conn_unfold n i : get_conn n i = List.find (by_cid i) (n_conns n).
Proof. reflexivity. Qed.
Lemma get_peer_unfold n nm : get_peer n nm = List.find (by_name nm) (n_peers n).
Proof. reflexivity. Qed.

Lemma find_cid_id l i c : List.find (by_cid i) l = Some c -> c_id c = i /\ List.In c l.
Proof.
  intros H. apply List.find_some in H. destruct H as [Hin E]. unfold by_cid in E.
  apply Nat.eqb_eq in E. split; assumption.
Qed.
Lemma get_conn_id n i c : get_conn n i = Some c -> c_id c = i /\ List.In c (n_conns n).
Proof. apply find_cid_id. Qed.

Lemma find_name_name l nm p : List.find (by_name nm) l = Some p -> p_name p = nm /\ List.In p l.
Proof.
  intros H. apply List.find_some in H. destruct H as [Hin E]. unfold by_name in E.
  apply String.eqb_eq in E. split; assumption.
Qed.
Lemma get_peer_name n nm p : get_peer n nm = Some p -> p_name p = nm /\ List.In p (n_peers n).
Proof. apply find_name_name. Qed.

Lemma find_upd_conn_same l i f c :
  (forall c, c_id (f c) = c_id c) ->
  List.find (by_cid i) l = Some c -> List.find (by_cid i) (upd_conn l i f) = Some (f c).
Proof.
  intros Hf. induction l as [|a l IH]; cbn [List.find upd_conn]; [discriminate|].
  unfold by_cid at 1. destruct (Nat.eqb (c_id a) i) eqn:E; cbn [List.find].
  - intros H. injection H as <-. unfold by_cid. rewrite Hf, E. reflexivity.
  - change (by_cid i a) with (Nat.eqb (c_id a) i). rewrite E. exact IH.
Qed.

Lemma find_upd_conn_other l i j f :
  (forall c, c_id (f c) = c_id c) -> i <> j ->
  List.find (by_cid j) (upd_conn l i f) = List.find (by_cid j) l.
Proof.
  intros Hf Hij. induction l as [|a l IH]; cbn [List.find upd_conn]; [reflexivity|].
  destruct (Nat.eqb (c_id a) i) eqn:E; cbn [List.find].
  - unfold by_cid. rewrite Hf. apply Nat.eqb_eq in E.
    destruct (Nat.eqb (c_id a) j) eqn:E2; [apply Nat.eqb_eq in E2; congruence|reflexivity].
  - destruct (by_cid j a); [reflexivity|exact IH].
Qed.

Lemma upd_conn_none l i f : List.find (by_cid i) l = None -> upd_conn l i f = l.
Proof.
  induction l as [|a l IH]; cbn [List.find upd_conn]; [reflexivity|].
  unfold by_cid at 1. destruct (Nat.eqb (c_id a) i); [discriminate|]. intros H. rewrite (IH H). reflexivity.
Qed.

Lemma upd_conn_ids l i f : (forall c, c_id (f c) = c_id c) -> List.map c_id (upd_conn l i f) = List.map c_id l.
Proof.
  intros Hf. induction l as [|a l IH]; cbn [upd_conn List.map]; [reflexivity|].
  destruct (Nat.eqb (c_id a) i); cbn [List.map]; [rewrite Hf; reflexivity|rewrite IH; reflexivity].
Qed.

Lemma find_upd_peer_same l nm f p :
  (forall p, p_name (f p) = p_name p) ->
  List.find (by_name nm) l = Some p -> List.find (by_name nm) (upd_peer l nm f) = Some (f p).
Proof.
  intros Hf. induction l as [|a l IH]; cbn [List.find upd_peer]; [discriminate|].
  unfold by_name at 1. destruct (String.eqb (p_name a) nm) eqn:E; cbn [List.find].
  - intros H. injection H as <-. unfold by_name. rewrite Hf, E. reflexivity.
  - change (by_name nm a) with (String.eqb (p_name a) nm). rewrite E. exact IH.
Qed.

Lemma find_upd_peer_other l nm nm' f :
  (forall p, p_name (f p) = p_name p) -> nm <> nm' ->
  List.find (by_name nm') (upd_peer l nm f) = List.find (by_name nm') l.
Proof.
  intros Hf Hne. induction l as [|a l IH]; cbn [List.find upd_peer]; [reflexivity|].
  destruct (String.eqb (p_name a) nm) eqn:E; cbn [List.find].
  - unfold by_name. rewrite Hf. apply String.eqb_eq in E.
    destruct (String.eqb (p_name a) nm') eqn:E2; [apply String.eqb_eq in E2; congruence|reflexivity].
  - destruct (by_name nm' a); [reflexivity|exact IH].
Qed.

(* ================================================================================== *)
(* 2. the frame: what every part of the node leaves alone                             *)
(* ================================================================================== *)
Definition pkey (p : peer) : String.string * bool := (p_name p, p_persistent p).
(* names and persistence flags of the configured peers, in order *)
Definition pmap (n : node) : list (String.string * bool) := List.map pkey (n_peers n).
Fixpoint pers_in (pm : list (String.string * bool)) (nm : String.string) : bool :=
  match pm with
  | [] => false
  | e :: r => if String.eqb (fst e) nm then snd e else pers_in r nm
  end.

Lemma pers_in_pmap n nm :
  pers_in (pmap n) nm = match get_peer n nm with Some p => p_persistent p | None => false end.
Proof.
  unfold pmap, get_peer. induction (n_peers n) as [|a l IH]; cbn [List.map pers_in List.find]; [reflexivity|].
  cbn [pkey fst snd]. destruct (String.eqb (p_name a) nm); [reflexivity|exact IH].
Qed.

Lemma pmap_upd_peer l nm f :
  (forall p, pkey (f p) = pkey p) -> List.map pkey (upd_peer l nm f) = List.map pkey l.
Proof.
  intros Hf. induction l as [|a l IH]; cbn [upd_peer List.map]; [reflexivity|].
  destruct (String.eqb (p_name a) nm); cbn [List.map]; [rewrite Hf; reflexivity|rewrite IH; reflexivity].
Qed.

(* the pair k is in the waiting list filed under host identity h *)
Definition pw_has (pw : list (String.string * list (Z * Z))) (h : String.string) (k : Z * Z) : Prop :=
  exists l, List.In (h, l) pw /\ mem_zz k l = true.
Definition pws (n n' : node) : Prop :=
  forall h k, pw_has (n_peer_waiting n') h k -> pw_has (n_peer_waiting n) h k.
Definition cids (n n' : node) : Prop :=
  (n_next_cid n <= n_next_cid n')%nat /\
  forall i, List.In i (List.map c_id (n_conns n')) ->
            List.In i (List.map c_id (n_conns n)) \/ (n_next_cid n <= i < n_next_cid n')%nat.
Definition frame0 (n n' : node) : Prop := pmap n' = pmap n /\ cids n n'.
Definition frame (n n' : node) : Prop := frame0 n n' /\ pws n n'.

Lemma cids_refl n : cids n n.
Proof. split; [lia|]. intros i H. left. exact H. Qed.
Lemma cids_trans a b c : cids a b -> cids b c -> cids a c.
Proof.
  intros [H1 H2] [H3 H4]. split; [lia|]. intros i Hi.
  destruct (H4 i Hi) as [H|H]; [|right; lia].
  destruct (H2 i H) as [H'|H']; [left; exact H'|right; lia].
Qed.
Lemma frame0_refl n : frame0 n n.
Proof. split; [reflexivity|apply cids_refl]. Qed.
Lemma frame0_trans a b c : frame0 a b -> frame0 b c -> frame0 a c.
Proof. intros [H1 H2] [H3 H4]. split; [congruence|eapply cids_trans; eassumption]. Qed.
Lemma pws_refl n : pws n n.
Proof. intros h k H. exact H. Qed.
Lemma pws_trans a b c : pws a b -> pws b c -> pws a c.
Proof. intros H1 H2 h k H. apply H1, H2, H. Qed.
Lemma frame_refl n : frame n n.
Proof. split; [apply frame0_refl|apply pws_refl]. Qed.
Lemma frame_trans a b c : frame a b -> frame b c -> frame a c.
Proof. intros [H1 H2] [H3 H4]. split; [eapply frame0_trans|eapply pws_trans]; eassumption. Qed.

Lemma frame_same n n' :
  n_peers n' = n_peers n -> n_peer_waiting n' = n_peer_waiting n ->
  n_conns n' = n_conns n -> n_next_cid n' = n_next_cid n -> frame n n'.
Proof.
  intros Hp Hw Hc Hn. split; [split|].
  - unfold pmap. rewrite Hp. reflexivity.
  - split; [lia|]. intros i Hi. left. rewrite Hc in Hi. exact Hi.
  - intros h k H. rewrite Hw in H. exact H.
Qed.

Lemma frame0_same n n' :
  n_peers n' = n_peers n -> n_conns n' = n_conns n -> n_next_cid n' = n_next_cid n -> frame0 n n'.
Proof.
  intros Hp Hc Hn. split.
  - unfold pmap. rewrite Hp. reflexivity.
  - split; [lia|]. intros i Hi. left. rewrite Hc in Hi. exact Hi.
Qed.

Lemma frame_upd_conn n cid f :
  (forall c, c_id (f c) = c_id c) -> frame n (set_conns n (upd_conn (n_conns n) cid f)).
Proof.
  intros Hf. split; [split|].
  - reflexivity.
  - split; [cbn [n_next_cid set_conns]; lia|]. intros i Hi. left.
    cbn [n_conns set_conns] in Hi. rewrite (upd_conn_ids _ _ _ Hf) in Hi. exact Hi.
  - intros h k H. exact H.
Qed.

Lemma frame_upd_peer n nm f :
  (forall p, pkey (f p) = pkey p) -> frame n (set_peers n (upd_peer (n_peers n) nm f)).
Proof.
  intros Hf. split; [split|].
  - unfold pmap. cbn [n_peers set_peers]. apply pmap_upd_peer, Hf.
  - exact (cids_refl n).
  - intros h k H. exact H.
Qed.

Lemma pkey_set_pconn p a b c d : pkey (set_pconn p a b c d) = pkey p.
Proof. reflexivity. Qed.

Lemma pw_has_remove pw host k0 h k : pw_has (pw_remove pw host k0) h k -> pw_has pw h k.
Proof.
  unfold pw_has, pw_remove. intros [l [Hin Hm]]. apply List.in_map_iff in Hin.
  destruct Hin as [[h0 l0] [E Hin]]. cbn [fst snd] in E.
  destruct (String.eqb h0 host).
  - injection E as <- <-. exists l0. split; [exact Hin|]. eapply mem_zz_remove_zz_sub, Hm.
  - injection E as <- <-. exists l0. split; assumption.
Qed.

Lemma pw_has_filter pw f h k : pw_has (List.filter f pw) h k -> pw_has pw h k.
Proof.
  unfold pw_has. intros [l [Hin Hm]]. apply List.filter_In in Hin. exists l. split; [apply Hin|exact Hm].
Qed.

Lemma frame_pw_remove n host k0 :
  frame n (set_waiting n (n_app_waiting n) (pw_remove (n_peer_waiting n) host k0) (n_origin_waiting n) (n_sent_answers n)).
Proof.
  split; [apply frame0_same; reflexivity|]. intros h k H. cbn [n_peer_waiting set_waiting] in H.
  eapply pw_has_remove, H.
Qed.

(* a node function result: the frame holds and every output satisfies P *)
Definition gres (P : output -> Prop) (n : node) (r : node * list output) : Prop :=
  frame n (fst r) /\ List.Forall P (snd r).

Lemma gres_nil (P : output -> Prop) n n' : frame n n' -> gres P n (n', []).
Proof. intros H. split; [exact H|constructor]. Qed.
Lemma gres_refl (P : output -> Prop) n : gres P n (n, []).
Proof. apply gres_nil, frame_refl. Qed.
Lemma gres_app (P : output -> Prop) n n1 o1 n2 o2 : gres P n (n1, o1) -> gres P n1 (n2, o2) -> gres P n (n2, (o1 ++ o2)%list).
Proof.
  intros [H1 H2] [H3 H4]. cbn [fst snd] in *. split; cbn [fst snd].
  - eapply frame_trans; eassumption.
  - apply List.Forall_app. split; assumption.
Qed.
Lemma gres_pre (P : output -> Prop) n n0 r : frame n n0 -> gres P n0 r -> gres P n r.
Proof. intros H [H1 H2]. split; [eapply frame_trans; eassumption|exact H2]. Qed.
Lemma gres_post (P : output -> Prop) n n1 o n2 : gres P n (n1, o) -> frame n1 n2 -> gres P n (n2, o).
Proof. intros [H1 H2] H. split; [eapply frame_trans; eassumption|exact H2]. Qed.
Lemma gres_weaken (P Q : output -> Prop) n r : (forall o, P o -> Q o) -> gres P n r -> gres Q n r.
Proof. intros H [H1 H2]. split; [exact H1|]. eapply List.Forall_impl; eassumption. Qed.
Lemma gres_cons (P : output -> Prop) n n1 o1 x : P x -> gres P n (n1, o1) -> gres P n (n1, x :: o1).
Proof. intros Hx [H1 H2]. split; [exact H1|constructor; assumption]. Qed.
Lemma gres_pmap (P : output -> Prop) n r : gres P n r -> pmap (fst r) = pmap n.
Proof. intros [[[H _] _] _]. exact H. Qed.

(* ================================================================================== *)
(* 3. the building blocks                                                             *)
(* ================================================================================== *)
Lemma record_answer_frame n k h e : frame n (record_answer n k h e).
Proof.
  unfold record_answer. destruct (List.find _ (n_origin_waiting n)) as [[[[k0 a] b] o]|]; [|apply frame_refl].
  apply frame_same; reflexivity.
Qed.

Lemma set_cout_id c o : c_id (set_cout c o) = c_id c.
Proof. reflexivity. Qed.

Lemma send_message_out n cid m : snd (send_message n cid m) = [OQueue cid m].
Proof. unfold send_message, queue_out. reflexivity. Qed.

Lemma send_message_frame n cid m : frame n (fst (send_message n cid m)).
Proof.
  unfold send_message, queue_out. cbn [fst].
  destruct (o_req m).
  - apply frame_upd_conn. reflexivity.
  - eapply frame_trans; [|apply record_answer_frame].
    destruct (get_conn n cid) as [c|].
    + eapply frame_trans; [apply frame_pw_remove|]. apply frame_upd_conn. reflexivity.
    + apply frame_upd_conn. reflexivity.
Qed.

Lemma send_message_g (P : output -> Prop) n cid m : P (OQueue cid m) -> gres P n (send_message n cid m).
Proof.
  intros HP. split; [apply send_message_frame|]. rewrite send_message_out. constructor; [exact HP|constructor].
Qed.

Lemma in_ids_filter (f : conn -> bool) l i : List.In i (List.map c_id (List.filter f l)) -> List.In i (List.map c_id l).
Proof.
  intros H. apply List.in_map_iff in H. destruct H as [c [E Hc]]. apply List.filter_In in Hc.
  apply List.in_map_iff. exists c. split; [exact E|apply Hc].
Qed.

Lemma remove_conn_frame n cid r : frame n (remove_conn n cid r).
Proof.
  unfold remove_conn. destruct (get_conn n cid) as [c|]; [|apply frame_refl].
  set (n1 := set_conns n (List.filter (fun x => negb (Nat.eqb (c_id x) cid)) (n_conns n))).
  assert (F1 : frame n n1).
  { split; [split|].
    - reflexivity.
    - split; [cbn [n1 n_next_cid set_conns]; lia|]. intros i Hi. left. cbn [n1 n_conns set_conns] in Hi.
      eapply in_ids_filter, Hi.
    - intros h k H. exact H. }
  match goal with |- context [set_waiting ?x _ _ _ _] => set (n2 := x) end.
  assert (F2 : frame n1 n2).
  { subst n2. destruct (find_conn_peer n c) as [p|]; [|apply frame_refl].
    destruct (p_conn p) as [k|]; [|apply frame_refl].
    destruct (Nat.eqb k cid); [|apply frame_refl].
    apply frame_upd_peer. intros q. reflexivity. }
  clearbody n2.
  eapply frame_trans; [exact F1|]. eapply frame_trans; [exact F2|].
  split; [apply frame0_same; reflexivity|].
  intros h k H. cbn [n_peer_waiting set_apps set_tables set_waiting] in H. eapply pw_has_filter, H.
Qed.

Lemma close_conn_g (P : output -> Prop) n cid r : P (OClose cid r) -> gres P n (close_conn n cid r).
Proof.
  intros HP. unfold close_conn. destruct (get_conn n cid); [|apply gres_refl].
  split; [apply remove_conn_frame|]. constructor; [exact HP|constructor].
Qed.

Lemma flag_ready_frame n cid : frame n (flag_ready n cid).
Proof.
  unfold flag_ready. eapply frame_trans; [apply (frame_upd_conn n cid (fun c => set_cstate c SReady)); reflexivity|].
  apply frame_same; reflexivity.
Qed.

Lemma assign_peer_conn_frame n cid : frame n (assign_peer_conn n cid).
Proof.
  unfold assign_peer_conn. destruct (get_conn n cid) as [c|]; [|apply frame_refl].
  destruct (String.eqb (c_host c) String.EmptyString); [apply frame_refl|].
  destruct (get_peer n (c_host c)) as [p|]; [|apply frame_refl].
  match goal with |- context [if ?b then set_tables ?x _ _ else _] => set (n1 := x); assert (F : frame n n1) end.
  { apply frame_upd_peer. intros q. reflexivity. }
  clearbody n1. destruct (mem_nat cid (n_half_ready n)); [|exact F].
  eapply frame_trans; [exact F|]. apply frame_same; reflexivity.
Qed.

(* what the node itself originates inside the I/O iteration: CER and DWR *)
Definition own_req (m : omsg) : Prop :=
  o_req m = true /\ (o_cmd m = CE \/ o_cmd m = DW) /\ o_app m = 0 /\ o_tag m = 0.

Lemma own_request_frame n cid c : frame n (fst (own_request n cid c)).
Proof.
  unfold own_request. destruct (get_conn n cid) as [cn|]; cbn [fst]; [|apply frame_refl].
  eapply frame_trans; [apply (frame_upd_conn n cid (fun c0 => set_chbh c0 (seq_next (c_hbh cn)))); reflexivity|].
  apply frame_same; reflexivity.
Qed.

Lemma own_request_msg n cid c :
  let m := snd (own_request n cid c) in o_req m = true /\ o_cmd m = c /\ o_app m = 0 /\ o_tag m = 0.
Proof. unfold own_request. destruct (get_conn n cid); cbn; repeat split. Qed.

(* the classes of output predicates used below *)
Definition sysP (P : output -> Prop) : Prop :=
  (forall cid m, own_req m -> P (OQueue cid m)) /\ (forall cid r, P (OClose cid r)) /\ (forall cid m, P (OSend cid m)).
Definition dialP (pm : list (String.string * bool)) (P : output -> Prop) : Prop :=
  forall nm, pers_in pm nm = true -> P (ODial nm).

Lemma send_cer_g (P : output -> Prop) n cid : sysP P -> gres P n (send_cer n cid).
Proof.
  intros [HQ _]. unfold send_cer.
  pose proof (own_request_frame n cid CE) as F. pose proof (own_request_msg n cid CE) as M.
  destruct (own_request n cid CE) as [n1 m]. cbn [fst snd] in *.
  eapply gres_pre; [exact F|]. apply send_message_g. apply HQ.
  destruct M as [M1 [M2 [M3 M4]]]. repeat split; auto.
Qed.

Lemma send_dwr_g (P : output -> Prop) n cid : sysP P -> gres P n (send_dwr n cid).
Proof.
  intros [HQ _]. unfold send_dwr.
  pose proof (own_request_frame n cid DW) as F. pose proof (own_request_msg n cid DW) as M.
  destruct (own_request n cid DW) as [n1 m]. cbn [fst snd] in *.
  assert (G : gres P n (send_message n1 cid m)).
  { eapply gres_pre; [exact F|]. apply send_message_g. apply HQ.
    destruct M as [M1 [M2 [M3 M4]]]. repeat split; auto. }
  destruct (send_message n1 cid m) as [n2 o]. eapply gres_post; [exact G|].
  apply frame_upd_conn. intros c. destruct (is_ready_state (c_state c)); reflexivity.
Qed.

Lemma check_timers_g (P : output -> Prop) n cid : sysP P -> gres P n (check_timers n cid).
Proof.
  intros HP. pose proof HP as [HQ [HC HS]]. unfold check_timers.
  destruct (n_stopping n); [apply gres_refl|].
  destruct (get_conn n cid) as [c|]; [|apply gres_refl].
  destruct (c_state c); try apply gres_refl.
  - match goal with |- context [if ?b then _ else _] => destruct b end; [apply close_conn_g, HC|apply gres_refl].
  - match goal with |- context [if ?b then _ else _] => destruct b end; [apply send_dwr_g, HP|apply gres_refl].
  - match goal with |- context [if ?b then _ else _] => destruct b end; [apply close_conn_g, HC|apply gres_refl].
Qed.

Lemma timers_all_g (P : output -> Prop) cids0 : sysP P -> forall n, gres P n (timers_all n cids0).
Proof.
  intros HP. induction cids0 as [|c r IH]; intros n; cbn [timers_all]; [apply gres_refl|].
  pose proof (check_timers_g P n c HP) as G1. destruct (check_timers n c) as [n1 o1].
  pose proof (IH n1) as G2. destruct (timers_all n1 r) as [n2 o2].
  eapply gres_app; eassumption.
Qed.

Lemma flush_conns_g (P : output -> Prop) cids0 : sysP P -> forall n, gres P n (flush_conns n cids0).
Proof.
  intros HP. pose proof HP as [HQ [HC HS]].
  induction cids0 as [|cid r IH]; intros n; cbn [flush_conns]; [apply gres_refl|].
  match goal with |- context [let '(_, _) := ?X in _] => assert (G1 : gres P n X) end.
  { destruct (get_conn n cid) as [c|]; [|apply gres_refl].
    destruct (c_stalled c || negb (c_sock_open c)); [apply gres_refl|].
    assert (F : frame n (set_conns n (upd_conn (n_conns n) cid (fun c0 => set_cout c0 [])))).
    { apply frame_upd_conn. reflexivity. }
    assert (HO : List.Forall P (List.map (OSend cid) (c_out c))).
    { apply List.Forall_forall. intros x Hx. apply List.in_map_iff in Hx. destruct Hx as [m [<- _]]. apply HS. }
    destruct (c_out c) as [|m0 ms] eqn:Eo; [apply gres_nil, F|].
    destruct (cstate_eqb (c_state c) SClosing).
    - pose proof (close_conn_g P (set_conns n (upd_conn (n_conns n) cid (fun c0 => set_cout c0 []))) cid R_CLEAN (HC _ _)) as G.
      destruct (close_conn _ cid R_CLEAN) as [n'' oc].
      change (gres P n (n'', ((List.map (OSend cid) (m0 :: ms)) ++ oc)%list)).
      eapply gres_app; [|exact G]. split; [exact F|exact HO].
    - split; [exact F|exact HO]. }
  match goal with |- context [let '(_, _) := ?X in _] => destruct X as [n1 o1] end.
  pose proof (IH n1) as G2. destruct (flush_conns n1 r) as [n2 o2].
  eapply gres_app; eassumption.
Qed.

Lemma flush_g (P : output -> Prop) n : sysP P -> gres P n (flush n).
Proof. intros HP. apply flush_conns_g, HP. Qed.

(* ================================================================================== *)
(* 4. reconnect policy, dialling                                                      *)
(* ================================================================================== *)
(* wants_reconnect: exactly the documented reconnect condition *)
Theorem wants_reconnect_spec n p :
  wants_reconnect n p = true <->
  n_stopping n = false /\ p_persistent p = true /\ p_conn p = None /\
  (exists t, p_lastdisc p = Some t /\ p_rwait p <= n_now n - t) /\
  ~ (p_reason p = Some R_DPR /\ p_always p = false).
Proof.
  unfold wants_reconnect. split.
  - intros H. apply andb_true_iff in H. destruct H as [H H5]. apply andb_true_iff in H. destruct H as [H H4].
    apply andb_true_iff in H. destruct H as [H H3]. apply andb_true_iff in H. destruct H as [H1 H2].
    apply negb_true_iff in H1. apply negb_true_iff in H5.
    split; [exact H1|]. split; [exact H2|]. split; [destruct (p_conn p); [discriminate|reflexivity]|].
    split.
    + destruct (p_lastdisc p) as [t|]; [|discriminate]. exists t. split; [reflexivity|]. apply Z.leb_le. exact H4.
    + intros [Hr Ha]. rewrite Hr, Ha in H5. cbn in H5. discriminate.
  - intros (H1 & H2 & H3 & (t & H4 & H6) & H7). rewrite H1, H2, H3, H4. cbn [negb andb].
    apply Z.leb_le in H6. rewrite H6. cbn [andb].
    destruct (p_reason p) as [r|]; [|reflexivity].
    destruct (r =? R_DPR) eqn:E; [|reflexivity]. destruct (p_always p) eqn:Ea; [reflexivity|].
    exfalso. apply H7. apply Z.eqb_eq in E. subst r. split; reflexivity.
Qed.

(* C12: dialling a peer that already has a connection, or has no address, does nothing *)
Theorem C12_dial_needs_no_connection n nm h r p :
  get_peer n nm = Some p -> (p_conn p <> None \/ p_has_addr p = false) ->
  connect_to_peer n nm h r = (n, []).
Proof.
  intros Hp H. unfold connect_to_peer. rewrite Hp.
  destruct (p_conn p) as [k|]; [reflexivity|]. destruct H as [H|H]; [congruence|]. rewrite H. reflexivity.
Qed.

Lemma connect_to_peer_g0 (P : output -> Prop) n name h res :
  sysP P -> (forall p, get_peer n name = Some p -> P (ODial name)) ->
  gres P n (connect_to_peer n name h res).
Proof.
  intros HP HDn0. pose proof HP as [HQ [HC HS]]. unfold connect_to_peer.
  destruct (get_peer n name) as [p|] eqn:Ep; [|apply gres_refl].
  destruct (p_conn p); [apply gres_refl|].
  destruct (negb (p_has_addr p)); [apply gres_refl|].
  assert (HDn : P (ODial name)) by (apply (HDn0 p); reflexivity).
  cbv zeta.
  match goal with |- context [close_conn ?x _ _] => set (n3 := x) end.
  assert (F3 : frame n n3).
  { split; [split|].
    - unfold pmap. cbn [n3 n_peers set_peers set_tables set_misc set_conns]. apply pmap_upd_peer. intros q. reflexivity.
    - split; [cbn [n3 n_next_cid set_peers set_tables set_misc set_conns]; lia|].
      intros i Hi. cbn [n3 n_next_cid n_conns set_peers set_tables set_misc set_conns] in Hi |- *.
      rewrite List.map_app in Hi. apply List.in_app_or in Hi. destruct Hi as [Hi|Hi]; [left; exact Hi|].
      right. cbn in Hi. destruct Hi as [<-|[]]. lia.
    - intros h0 k H. exact H. }
  clearbody n3. destruct res.
  - match goal with |- context [send_cer ?x ?c] => pose proof (send_cer_g P x c HP) as G; destruct (send_cer x c) as [n5 o] end.
    apply gres_cons; [exact HDn|]. eapply gres_pre; [|exact G].
    eapply frame_trans; [exact F3|]. apply frame_upd_conn. reflexivity.
  - match goal with |- context [close_conn ?x ?c ?r] => pose proof (close_conn_g P x c r (HC _ _)) as G; destruct (close_conn x c r) as [n4 o] end.
    apply gres_cons; [exact HDn|]. eapply gres_pre; [exact F3|exact G].
  - split; [exact F3|]. constructor; [exact HDn|constructor].
Qed.

Lemma connect_to_peer_g (P : output -> Prop) pm n name h res :
  sysP P -> dialP pm P -> pmap n = pm ->
  (forall p, get_peer n name = Some p -> p_persistent p = true) ->
  gres P n (connect_to_peer n name h res).
Proof.
  intros HP HD Hpm Hpers. apply connect_to_peer_g0; [exact HP|].
  intros p Ep. apply HD. rewrite <- Hpm, pers_in_pmap, Ep. apply Hpers, Ep.
Qed.

Lemma reconnect_all_g (P : output -> Prop) pm names :
  sysP P -> dialP pm P -> forall n ds, pmap n = pm -> gres P n (fst (reconnect_all n names ds)).
Proof.
  intros HP HD. induction names as [|nm r IH]; intros n ds Hpm; cbn [reconnect_all]; [apply gres_refl|].
  destruct (get_peer n nm) as [p|] eqn:Ep; [|apply IH, Hpm].
  destruct (wants_reconnect n p && p_has_addr p) eqn:Ew; [|apply IH, Hpm].
  assert (Hpers : forall p0, get_peer n nm = Some p0 -> p_persistent p0 = true).
  { intros p0 E0. rewrite Ep in E0. injection E0 as <-. apply andb_true_iff in Ew. destruct Ew as [Ew _].
    apply wants_reconnect_spec in Ew. apply Ew. }
  destruct ds as [|[h0 res] dr].
  - pose proof (connect_to_peer_g P pm n nm 0 DialOk HP HD Hpm Hpers) as G1.
    destruct (connect_to_peer n nm 0 DialOk) as [n1 o1].
    assert (Hpm1 : pmap n1 = pm). { rewrite <- Hpm. apply (gres_pmap _ _ _ G1). }
    pose proof (IH n1 [] Hpm1) as G2. destruct (reconnect_all n1 r []) as [[n2 o2] d2]. cbn [fst] in *.
    eapply gres_app; eassumption.
  - pose proof (connect_to_peer_g P pm n nm h0 res HP HD Hpm Hpers) as G1.
    destruct (connect_to_peer n nm h0 res) as [n1 o1].
    assert (Hpm1 : pmap n1 = pm). { rewrite <- Hpm. apply (gres_pmap _ _ _ G1). }
    pose proof (IH n1 dr Hpm1) as G2. destruct (reconnect_all n1 r dr) as [[n2 o2] d2]. cbn [fst] in *.
    eapply gres_app; eassumption.
Qed.

Lemma io_iteration_g (P : output -> Prop) pm n ds :
  sysP P -> dialP pm P -> pmap n = pm -> gres P n (fst (io_iteration n ds)).
Proof.
  intros HP HD Hpm. unfold io_iteration.
  pose proof (timers_all_g P (List.map c_id (n_conns n)) HP n) as G1.
  destruct (timers_all n (List.map c_id (n_conns n))) as [n1 o1].
  assert (Hpm1 : pmap n1 = pm). { rewrite <- Hpm. apply (gres_pmap _ _ _ G1). }
  pose proof (reconnect_all_g P pm (List.map p_name (n_peers n1)) HP HD n1 ds Hpm1) as G2.
  destruct (reconnect_all n1 (List.map p_name (n_peers n1)) ds) as [[n2 o2] ds']. cbn [fst] in *.
  eapply gres_post; [eapply gres_app; eassumption|]. apply frame_same; reflexivity.
Qed.

Lemma settle_g (P : output -> Prop) pm n ds :
  sysP P -> dialP pm P -> pmap n = pm -> gres P n (fst (settle n ds)).
Proof.
  intros HP HD Hpm. unfold settle.
  pose proof (flush_g P n HP) as G1. destruct (flush n) as [n1 o1].
  assert (Hpm1 : pmap n1 = pm). { rewrite <- Hpm. apply (gres_pmap _ _ _ G1). }
  pose proof (io_iteration_g P pm n1 ds HP HD Hpm1) as G2. destruct (io_iteration n1 ds) as [[n2 o2] ds'].
  cbn [fst] in *.
  pose proof (flush_g P n2 HP) as G3. destruct (flush n2) as [n3 o3]. cbn [fst].
  eapply gres_app; [exact G1|]. eapply gres_app; eassumption.
Qed.

Lemma settle'_g (P : output -> Prop) pm n ds :
  sysP P -> dialP pm P -> pmap n = pm -> gres P n (settle' n ds).
Proof.
  intros HP HD Hpm. unfold settle'. pose proof (settle_g P pm n ds HP HD Hpm) as G.
  destruct (settle n ds) as [[n1 o1] d]. exact G.
Qed.

Lemma settle_app_g (P : output -> Prop) pm n ds :
  sysP P -> dialP pm P -> pmap n = pm -> gres P n (fst (settle_app n ds)).
Proof.
  intros HP HD Hpm. unfold settle_app.
  pose proof (io_iteration_g P pm n ds HP HD Hpm) as G2. destruct (io_iteration n ds) as [[n2 o2] ds'].
  cbn [fst] in *.
  pose proof (flush_g P n2 HP) as G3. destruct (flush n2) as [n3 o3]. cbn [fst].
  eapply gres_app; eassumption.
Qed.

Lemma settle_app'_g (P : output -> Prop) pm n ds :
  sysP P -> dialP pm P -> pmap n = pm -> gres P n (settle_app' n ds).
Proof.
  intros HP HD Hpm. unfold settle_app'. pose proof (settle_app_g P pm n ds HP HD Hpm) as G.
  destruct (settle_app n ds) as [[n1 o1] d]. exact G.
Qed.

(* the output predicates *)
Definition sysout (pm : list (String.string * bool)) (o : output) : Prop :=
  match o with
  | OQueue _ m => own_req m
  | ODial nm => pers_in pm nm = true
  | OSend _ _ | OClose _ _ => True
  | _ => False
  end.
Definition nodial (o : output) : Prop := match o with ODial _ => False | _ => True end.
Definition dialok (pm : list (String.string * bool)) (o : output) : Prop :=
  match o with ODial nm => pers_in pm nm = true | _ => True end.

Lemma sysP_sysout pm : sysP (sysout pm).
Proof. split; [intros cid m H; exact H|]. split; intros; exact I. Qed.
Lemma dialP_sysout pm : dialP pm (sysout pm).
Proof. intros nm H. exact H. Qed.
Lemma sysP_dialok pm : sysP (dialok pm).
Proof. split; [intros cid m H; exact I|]. split; intros; exact I. Qed.
Lemma dialP_dialok pm : dialP pm (dialok pm).
Proof. intros nm H. exact H. Qed.
Lemma sysout_dialok pm o : sysout pm o -> dialok pm o.
Proof. destruct o; cbn; auto. Qed.
Lemma nodial_dialok pm o : nodial o -> dialok pm o.
Proof. destruct o; cbn; auto. Qed.

(* after any event the I/O thread only closes, writes, dials persistent peers and queues
   its own CER / DWR *)
Lemma settle'_sys n ds : gres (sysout (pmap n)) n (settle' n ds).
Proof. apply (settle'_g _ (pmap n)); [apply sysP_sysout|apply dialP_sysout|reflexivity]. Qed.
Lemma settle_app'_sys n ds : gres (sysout (pmap n)) n (settle_app' n ds).
Proof. apply (settle_app'_g _ (pmap n)); [apply sysP_sysout|apply dialP_sysout|reflexivity]. Qed.

(* ================================================================================== *)
(* 5. C09: application answers                                                        *)
(* ================================================================================== *)
Definition akey (a : omsg) : Z * Z := (o_hbh a, o_e2e a).
(* an output that hands an ANSWER to a connection *)
Definition is_answer_queue (o : output) : bool :=
  match o with OQueue _ m => negb (o_req m) | _ => false end.

Lemma route_answer_some n a cid n1 :
  route_answer n a = (Some cid, n1) ->
  exists host l c,
    List.find (fun e => mem_zz (akey a) (snd e)) (n_peer_waiting n) = Some (host, l) /\
    List.find (fun c => String.eqb (c_host c) host) (n_conns n) = Some c /\
    c_id c = cid /\ c_host c = host /\ is_ready_state (c_state c) = true /\
    List.In c (n_conns n) /\ List.In (host, l) (n_peer_waiting n) /\ mem_zz (akey a) l = true /\
    n1 = set_waiting n (n_app_waiting n) (pw_remove (n_peer_waiting n) host (akey a))
                     (n_origin_waiting n) (n_sent_answers n).
Proof.
  unfold route_answer. fold (akey a).
  destruct (List.find (fun e => mem_zz (akey a) (snd e)) (n_peer_waiting n)) as [[host l]|] eqn:Ef; [|discriminate].
  cbn [n_conns set_waiting].
  destruct (List.find (fun c => String.eqb (c_host c) host) (n_conns n)) as [c|] eqn:Ec; [|discriminate].
  destruct (is_ready_state (c_state c)) eqn:Er; [|discriminate].
  intros H. injection H as H1 H2. exists host, l, c.
  apply List.find_some in Ef. destruct Ef as [Ef1 Ef2]. cbn [snd] in Ef2.
  pose proof (List.find_some _ _ Ec) as [Ec1 Ec2]. apply String.eqb_eq in Ec2.
  repeat split; auto.
Qed.

Lemma route_answer_frame n a : frame n (snd (route_answer n a)).
Proof.
  unfold route_answer.
  destruct (List.find _ (n_peer_waiting n)) as [[host l]|]; [|apply frame_refl].
  match goal with |- context [List.find ?f (n_conns ?x)] => destruct (List.find f (n_conns x)) as [c|] end.
  - destruct (is_ready_state (c_state c)); apply frame_pw_remove.
  - apply frame_pw_remove.
Qed.

(* shape of the reaction to Application.send_answer: NotRoutable, or the answer handed to one
   ready connection under whose host identity the pair was waiting, followed only by what the
   I/O thread does on its own (writes, closes, dials, its own CER / DWR) *)
Theorem C09_answer_shape n ds i a n' outs :
  step n ds (EAppAnswer i a) = (n', outs) ->
  outs = [ONotRoutable] \/
  exists cid c l rest,
    outs = OQueue cid a :: rest /\ List.Forall (sysout (pmap n)) rest /\
    List.In c (n_conns n) /\ c_id c = cid /\ is_ready_state (c_state c) = true /\
    List.In (c_host c, l) (n_peer_waiting n) /\ mem_zz (o_hbh a, o_e2e a) l = true.
Proof.
  cbn [step]. destruct (route_answer n a) as [[cid|] n1] eqn:Er.
  - pose proof (route_answer_frame n a) as F1. rewrite Er in F1. cbn [snd] in F1.
    pose proof (send_message_frame n1 cid a) as F2. pose proof (send_message_out n1 cid a) as O2.
    destruct (send_message n1 cid a) as [n2 o2]. cbn [fst snd] in F2, O2.
    pose proof (settle_app'_sys n2 ds) as G. destruct (settle_app' n2 ds) as [n3 o3].
    intros H. injection H as <- <-. right.
    apply route_answer_some in Er. destruct Er as (host & l & c & _ & _ & Hc & Hh & Hr & Hin & Hpw & Hm & _).
    exists cid, c, l, o3. subst o2. split; [reflexivity|]. split.
    + destruct G as [_ G]. cbn [snd] in G.
      assert (E : pmap n2 = pmap n). { destruct F1 as [[E1 _] _]. destruct F2 as [[E2 _] _]. congruence. }
      rewrite E in G. exact G.
    + subst host. repeat split; assumption.
  - intros H. injection H as <- <-. left. reflexivity.
Qed.

(* C09: an answer handed to a connection is the submitted one, goes to a ready connection under
   whose host identity its (hop-by-hop, end-to-end) pair was waiting, and at most one answer is
   handed out (o_req m = false separates it from the CER / DWR of the I/O thread) *)
Theorem C09_to_requester n ds i a n' outs cid m :
  step n ds (EAppAnswer i a) = (n', outs) ->
  List.In (OQueue cid m) outs -> o_req m = false ->
  m = a /\
  (exists c l, List.In c (n_conns n) /\ c_id c = cid /\ is_ready_state (c_state c) = true /\
               List.In (c_host c, l) (n_peer_waiting n) /\ mem_zz (o_hbh a, o_e2e a) l = true) /\
  (List.length (List.filter is_answer_queue outs) <= 1)%nat /\
  (forall cid' m', List.In (OQueue cid' m') outs -> o_req m' = false -> cid' = cid /\ m' = m).
Proof.
  intros Hs Hin Hreq. apply C09_answer_shape in Hs. destruct Hs as [->|Hs].
  - destruct Hin as [Hin|[]]. discriminate.
  - destruct Hs as (cid0 & c & l & rest & -> & Hrest & Hc & Hid & Hr & Hpw & Hm).
    assert (Hrest' : forall k x, List.In (OQueue k x) rest -> o_req x = true).
    { intros k x Hx. rewrite List.Forall_forall in Hrest. apply Hrest in Hx. cbn in Hx. apply Hx. }
    assert (Hone : forall k x, List.In (OQueue k x) (OQueue cid0 a :: rest) -> o_req x = false -> k = cid0 /\ x = a).
    { intros k x [Hx|Hx] Hq; [injection Hx as <- <-; split; reflexivity|]. apply Hrest' in Hx. congruence. }
    destruct (Hone _ _ Hin Hreq) as [-> ->].
    split; [reflexivity|]. split; [exists c, l; repeat split; assumption|]. split.
    + cbn [List.filter]. assert (E : List.filter is_answer_queue rest = []).
      { clear -Hrest. induction rest as [|x r IH]; [reflexivity|]. inversion Hrest as [|? ? Hx Hr]; subst.
        cbn [List.filter]. destruct x; cbn [is_answer_queue]; try (apply IH, Hr).
        cbn in Hx. destruct Hx as [Hx _]. rewrite Hx. cbn [negb]. apply IH, Hr. }
      rewrite E. destruct (is_answer_queue (OQueue cid0 a)); cbn [List.length]; lia.
    + intros k x Hx Hq. apply (Hone _ _ Hx Hq).
Qed.

(* with unique connection ids the connection found is the one get_conn yields *)
Lemma get_conn_of_in n c :
  List.NoDup (List.map c_id (n_conns n)) -> List.In c (n_conns n) -> get_conn n (c_id c) = Some c.
Proof.
  unfold get_conn. induction (n_conns n) as [|x l IH]; cbn [List.map List.In List.find]; [intros _ []|].
  intros Hnd [->|Hin]; [rewrite Nat.eqb_refl; reflexivity|].
  inversion Hnd as [|? ? Hx Hl]; subst.
  destruct (Nat.eqb (c_id x) (c_id c)) eqn:E; [|apply IH; assumption].
  apply Nat.eqb_eq in E. exfalso. apply Hx. rewrite E. apply List.in_map, Hin.
Qed.

(* C09: an answer whose pair is recorded nowhere, or whose recorded host has no connection, or
   whose connection is not ready, is refused and nothing is handed to anybody *)
Theorem C09_gone_is_error n ds i a :
  (forall h l, List.In (h, l) (n_peer_waiting n) -> mem_zz (o_hbh a, o_e2e a) l = false) \/
  (exists host l,
      List.find (fun e => mem_zz (o_hbh a, o_e2e a) (snd e)) (n_peer_waiting n) = Some (host, l) /\
      ((forall c, List.In c (n_conns n) -> c_host c <> host) \/
       (exists c, List.find (fun c => String.eqb (c_host c) host) (n_conns n) = Some c /\
                  is_ready_state (c_state c) = false))) ->
  snd (step n ds (EAppAnswer i a)) = [ONotRoutable].
Proof.
  intros H. cbn [step].
  assert (E : fst (route_answer n a) = None).
  { unfold route_answer. destruct H as [H|(host & l & Hf & H)].
    - destruct (List.find _ (n_peer_waiting n)) as [[host l]|] eqn:Ef; [|reflexivity].
      apply List.find_some in Ef. destruct Ef as [Ef1 Ef2]. cbn [snd] in Ef2. rewrite (H _ _ Ef1) in Ef2. discriminate.
    - rewrite Hf. cbn [n_conns set_waiting]. destruct H as [H|(c & Hc & Hr)].
      + destruct (List.find _ (n_conns n)) as [c|] eqn:Ec; [|reflexivity].
        apply List.find_some in Ec. destruct Ec as [Ec1 Ec2]. apply String.eqb_eq in Ec2.
        exfalso. exact (H c Ec1 Ec2).
      + rewrite Hc, Hr. reflexivity. }
  destruct (route_answer n a) as [[cid|] n1]; [discriminate|]. reflexivity.
Qed.

(* C09: once submitted, the pair is gone from that host's list, immediately and after the step *)
Theorem C09_second_fails n a cid n1 :
  route_answer n a = (Some cid, n1) ->
  exists c, List.In c (n_conns n) /\ c_id c = cid /\
            (forall l, List.In (c_host c, l) (n_peer_waiting n1) -> mem_zz (o_hbh a, o_e2e a) l = false) /\
            forall ds i n' outs, step n ds (EAppAnswer i a) = (n', outs) ->
                                 ~ pw_has (n_peer_waiting n') (c_host c) (o_hbh a, o_e2e a).
Proof.
  intros Er. pose proof (route_answer_some _ _ _ _ Er) as (host & l & c & _ & _ & Hc & Hh & Hr & Hin & Hpw & Hm & Hn1).
  exists c. split; [exact Hin|]. split; [exact Hc|].
  assert (Hgone : forall l0, List.In (c_host c, l0) (n_peer_waiting n1) -> mem_zz (o_hbh a, o_e2e a) l0 = false).
  { intros l0 Hl0. rewrite Hn1 in Hl0. cbn [n_peer_waiting set_waiting] in Hl0. unfold pw_remove in Hl0.
    apply List.in_map_iff in Hl0. destruct Hl0 as [[h1 l1] [E Hin1]]. cbn [fst snd] in E.
    destruct (String.eqb h1 host) eqn:Eh.
    - injection E as _ <-. apply mem_zz_remove_zz.
    - injection E as E1 _. apply String.eqb_neq in Eh. congruence. }
  split; [exact Hgone|].
  intros ds i n' outs Hs [l0 [Hl0 Hm0]]. cbn [step] in Hs. rewrite Er in Hs.
  pose proof (send_message_frame n1 cid a) as F2. destruct (send_message n1 cid a) as [n2 o2]. cbn [fst] in F2.
  pose proof (settle_app'_sys n2 ds) as [F3 _]. destruct (settle_app' n2 ds) as [n3 o3]. cbn [fst] in F3.
  injection Hs as <- <-.
  assert (Hp : pw_has (n_peer_waiting n1) (c_host c) (o_hbh a, o_e2e a)).
  { apply F2, F3. exists l0. split; assumption. }
  destruct Hp as [l1 [Hl1 Hm1]]. rewrite (Hgone _ Hl1) in Hm1. discriminate.
Qed.

(* ... consequently a second submission of the same answer is refused *)
Theorem C09_second_is_error n ds i a n' outs cid n1 :
  route_answer n a = (Some cid, n1) ->
  step n ds (EAppAnswer i a) = (n', outs) ->
  (forall c h, List.In c (n_conns n) -> c_id c = cid -> h <> c_host c ->
               ~ pw_has (n_peer_waiting n) h (o_hbh a, o_e2e a)) ->
  forall ds2 j, snd (step n' ds2 (EAppAnswer j a)) = [ONotRoutable].
Proof.
  intros Er Hs Hoth ds2 j.
  pose proof (C09_second_fails _ _ _ _ Er) as (c & Hin & Hc & _ & Hgone).
  specialize (Hgone _ _ _ _ Hs).
  assert (F : pws n n').
  { pose proof (route_answer_frame n a) as F1. rewrite Er in F1. cbn [snd] in F1.
    cbn [step] in Hs. rewrite Er in Hs.
    pose proof (send_message_frame n1 cid a) as F2. destruct (send_message n1 cid a) as [n2 o2]. cbn [fst] in F2.
    pose proof (settle_app'_sys n2 ds) as [F3 _]. destruct (settle_app' n2 ds) as [n3 o3]. cbn [fst] in F3.
    injection Hs as <- <-. eapply pws_trans; [apply F1|]. eapply pws_trans; [apply F2|apply F3]. }
  apply C09_gone_is_error. left. intros h l Hl.
  destruct (mem_zz (o_hbh a, o_e2e a) l) eqn:Em; [|reflexivity]. exfalso.
  assert (Hp : pw_has (n_peer_waiting n') h (o_hbh a, o_e2e a)) by (exists l; split; assumption).
  destruct (String.eqb h (c_host c)) eqn:Eh.
  - apply String.eqb_eq in Eh. subst h. exact (Hgone Hp).
  - apply String.eqb_neq in Eh. exact (Hoth c h Hin Hc Eh (F _ _ Hp)).
Qed.

(* C09: closing a connection drops every waiting list filed under its host identity *)
Theorem C09_removed_on_close n cid r c :
  get_conn n cid = Some c ->
  forall l, ~ List.In (c_host c, l) (n_peer_waiting (remove_conn n cid r)).
Proof.
  intros Hc l Hin. unfold remove_conn in Hin. rewrite Hc in Hin.
  cbn [n_peer_waiting set_apps set_tables set_waiting] in Hin.
  apply List.filter_In in Hin. destruct Hin as [_ E]. cbn [fst] in E. rewrite String.eqb_refl in E. discriminate.
Qed.

(* drop_origin touches only the origin table, which afterwards has no entry for the connection's pair *)
Lemma drop_origin_none n cid hbh e2e k h e x :
  List.In (k, h, e, x) (n_origin_waiting (drop_origin n cid hbh e2e)) -> ~ (k = cid /\ h = hbh /\ e = e2e).
Proof.
  unfold drop_origin. cbn [n_origin_waiting set_waiting]. intros Hin (-> & -> & ->).
  apply List.filter_In in Hin. destruct Hin as [_ E]. unfold ow_key in E.
  rewrite Nat.eqb_refl, !Z.eqb_refl in E. discriminate.
Qed.
(* ... and every other entry stays *)
Lemma drop_origin_keeps n cid hbh e2e k h e x :
  List.In (k, h, e, x) (n_origin_waiting n) -> ~ (k = cid /\ h = hbh /\ e = e2e) ->
  List.In (k, h, e, x) (n_origin_waiting (drop_origin n cid hbh e2e)).
Proof.
  unfold drop_origin. cbn [n_origin_waiting set_waiting]. intros Hin Hne.
  apply List.filter_In. split; [exact Hin|]. unfold ow_key.
  destruct (Nat.eqb k cid) eqn:E1; [|reflexivity]. destruct (h =? hbh) eqn:E2; [|reflexivity].
  destruct (e =? e2e) eqn:E3; [|reflexivity]. exfalso. apply Hne.
  apply Nat.eqb_eq in E1. apply Z.eqb_eq in E2. apply Z.eqb_eq in E3. auto.
Qed.

(* C09 (old statement, origin table keyed by the pair only; false for the table keyed by connection,
   see ex_C09_unroutable_releases_origin_refuted below):
     fst (route_answer n m) = None ->
     List.find (fun e => mem_zz (o_hbh m, o_e2e m) (snd e)) (n_peer_waiting n) <> None ->
     forall h e x, List.In (h, e, x) (n_origin_waiting (snd (route_answer n m))) ->
                   ~ (h = o_hbh m /\ e = o_e2e m).
   New: an answer that cannot be routed although a host was waiting for its pair AND a connection
   with that host identity exists (which then is not ready) releases that connection's entry for
   the pair; every other entry of the origin table stays. *)
Theorem C09_unroutable_releases_origin n m host l c :
  List.find (fun e => mem_zz (o_hbh m, o_e2e m) (snd e)) (n_peer_waiting n) = Some (host, l) ->
  List.find (fun c => String.eqb (c_host c) host) (n_conns n) = Some c ->
  fst (route_answer n m) = None ->
  is_ready_state (c_state c) = false /\
  (forall k h e x, List.In (k, h, e, x) (n_origin_waiting (snd (route_answer n m))) ->
                   ~ (k = c_id c /\ h = o_hbh m /\ e = o_e2e m)) /\
  (forall k h e x, List.In (k, h, e, x) (n_origin_waiting n) ->
                   ~ (k = c_id c /\ h = o_hbh m /\ e = o_e2e m) ->
                   List.In (k, h, e, x) (n_origin_waiting (snd (route_answer n m)))).
Proof.
  unfold route_answer. intros Ef Ec. rewrite Ef. cbn [n_conns set_waiting]. rewrite Ec.
  destruct (is_ready_state (c_state c)); [discriminate|]. intros _. cbn [snd].
  split; [reflexivity|]. split.
  - intros k h e x. apply drop_origin_none.
  - intros k h e x Hin Hne. apply drop_origin_keeps; assumption.
Qed.

(* when no connection carries the waiting host's identity the origin table is left as it is (the
   entries of a connection leave with the connection, remove_conn) *)
Theorem C09_unroutable_no_conn_keeps_origin n m host l :
  List.find (fun e => mem_zz (o_hbh m, o_e2e m) (snd e)) (n_peer_waiting n) = Some (host, l) ->
  List.find (fun c => String.eqb (c_host c) host) (n_conns n) = None ->
  fst (route_answer n m) = None /\
  n_origin_waiting (snd (route_answer n m)) = n_origin_waiting n.
Proof.
  unfold route_answer. intros Ef Ec. rewrite Ef. cbn [n_conns set_waiting]. rewrite Ec. split; reflexivity.
Qed.

(* ================================================================================== *)
(* 6. C10: routing of application requests                                            *)
(* ================================================================================== *)
Definition is_app_key (i : nat) (kv : rkey * list String.string) : bool :=
  match fst kv with RApp j => Nat.eqb i j | RDefault => false end.
Definition is_default_key (kv : rkey * list String.string) : bool :=
  match fst kv with RDefault => true | _ => false end.
Definition realm_of (n : node) (realm : pres String.string) : String.string :=
  match realm with Present r => r | _ => g_realm (n_cfg n) end.

(* the route list chosen for application i and the realm: the application's own entry of the
   realm if there is one, else the realm's default entry *)
Inductive chosen_list (n : node) (i : nat) (realm : pres String.string) : list String.string -> Prop :=
| chosen_app entries names :
    route_lookup n (realm_of n realm) = Some entries ->
    List.find (is_app_key i) entries = Some (RApp i, names) ->
    chosen_list n i realm names
| chosen_default entries names :
    route_lookup n (realm_of n realm) = Some entries ->
    List.find (is_app_key i) entries = None ->
    List.find is_default_key entries = Some (RDefault, names) ->
    chosen_list n i realm names.

Definition chosen_names (n : node) (i : nat) (realm : pres String.string) : option (list String.string) :=
  match route_lookup n (realm_of n realm) with
  | None => None
  | Some entries =>
      match List.find (is_app_key i) entries with
      | Some kv => Some (snd kv)
      | None => match List.find is_default_key entries with
                | Some kv => Some (snd kv)
                | None => None
                end
      end
  end.

Lemma chosen_names_spec n i realm names :
  chosen_names n i realm = Some names <-> chosen_list n i realm names.
Proof.
  unfold chosen_names. split.
  - destruct (route_lookup n (realm_of n realm)) as [entries|] eqn:El; [|discriminate].
    destruct (List.find (is_app_key i) entries) as [kv|] eqn:E1.
    + intros H. injection H as <-. pose proof (List.find_some _ _ E1) as [_ Hk].
      destruct kv as [[j|] nms]; cbn [is_app_key fst] in Hk; [|discriminate].
      apply Nat.eqb_eq in Hk. subst j. eapply chosen_app; eassumption.
    + destruct (List.find is_default_key entries) as [kv|] eqn:E2; [|discriminate].
      intros H. injection H as <-. pose proof (List.find_some _ _ E2) as [_ Hk].
      destruct kv as [[j|] nms]; cbn [is_default_key fst] in Hk; [discriminate|].
      eapply chosen_default; eassumption.
  - intros [entries nms Hl Hf|entries nms Hl Hf Hd]; rewrite Hl, Hf; [reflexivity|]. rewrite Hd. reflexivity.
Qed.

(* the peer is connected through a present, ready connection *)
Definition usable_peer (n : node) (p : peer) : Prop :=
  exists k c, p_conn p = Some k /\ get_conn n k = Some c /\ is_ready_state (c_state c) = true.

Definition usable_of (n : node) (nm : String.string) : list peer :=
  match get_peer n nm with
  | Some p => match p_conn p with
              | Some k => match get_conn n k with
                          | Some c => if is_ready_state (c_state c) then [p] else []
                          | None => []
                          end
              | None => []
              end
  | None => []
  end.

Lemma usable_of_In n nm p : List.In p (usable_of n nm) <-> get_peer n nm = Some p /\ usable_peer n p.
Proof.
  unfold usable_of, usable_peer. split.
  - destruct (get_peer n nm) as [q|]; [|intros []].
    destruct (p_conn q) as [k|] eqn:Ek; [|intros []].
    destruct (get_conn n k) as [c|] eqn:Ec; [|intros []].
    destruct (is_ready_state (c_state c)) eqn:Er; [|intros []].
    intros [<-|[]]. split; [reflexivity|]. exists k, c. repeat split; assumption.
  - intros [Hp (k & c & Hk & Hc & Hr)]. rewrite Hp, Hk, Hc, Hr. left. reflexivity.
Qed.

Lemma route_request_unfold n i realm :
  route_request n i realm =
  match chosen_names n i realm with
  | None | Some [] => None
  | Some l => Some (List.flat_map (usable_of n) l)
  end.
Proof.
  unfold route_request, chosen_names, realm_of.
  destruct (route_lookup n match realm with Present r => r | _ => g_realm (n_cfg n) end) as [entries|]; [|reflexivity].
  reflexivity.
Qed.

(* route_request: the peers offered are exactly the usable peers named in the chosen list;
   no list is offered iff no (non-empty) list can be chosen *)
Theorem route_request_spec n i realm :
  (forall l, route_request n i realm = Some l ->
     exists names, chosen_list n i realm names /\ names <> [] /\
       forall p, List.In p l <->
                 exists nm, List.In nm names /\ get_peer n nm = Some p /\ usable_peer n p) /\
  (route_request n i realm = None <-> forall names, chosen_list n i realm names -> names = []).
Proof.
  rewrite route_request_unfold. split.
  - intros l H. destruct (chosen_names n i realm) as [[|nm0 nms]|] eqn:Ec; try discriminate.
    injection H as <-. exists (nm0 :: nms). split; [apply chosen_names_spec, Ec|]. split; [discriminate|].
    intros p. change (usable_of n nm0 ++ List.flat_map (usable_of n) nms)%list with (List.flat_map (usable_of n) (nm0 :: nms)). rewrite List.in_flat_map. split.
    + intros [nm [Hnm Hp]]. exists nm. split; [exact Hnm|]. apply usable_of_In, Hp.
    + intros [nm [Hnm Hp]]. exists nm. split; [exact Hnm|]. apply usable_of_In, Hp.
  - split.
    + intros H names Hc. apply chosen_names_spec in Hc. rewrite Hc in H. destruct names; [reflexivity|discriminate].
    + intros H. destruct (chosen_names n i realm) as [[|nm0 nms]|] eqn:Ec; try reflexivity.
      apply chosen_names_spec in Ec. apply H in Ec. discriminate.
Qed.

(* every offered peer is named in the chosen list and connected through a ready connection *)
Corollary route_request_member n i realm l p :
  route_request n i realm = Some l -> List.In p l ->
  exists names, chosen_list n i realm names /\ List.In (p_name p) names /\ get_peer n (p_name p) = Some p /\
                exists k c, p_conn p = Some k /\ get_conn n k = Some c /\ is_ready_state (c_state c) = true.
Proof.
  intros Hr Hp. destruct (route_request_spec n i realm) as [H _]. destruct (H l Hr) as (names & Hc & _ & Hiff).
  apply Hiff in Hp. destruct Hp as (nm & Hnm & Hg & Hu). exists names. split; [exact Hc|].
  pose proof (get_peer_name _ _ _ Hg) as [E _]. subst nm. repeat split; assumption.
Qed.

(* route_request does not look at the generators, the stop flag or the connection counter *)
Lemma route_request_set_misc n s c e i realm : route_request (set_misc n s c e) i realm = route_request n i realm.
Proof. reflexivity. Qed.

Definition e2e_prep (n : node) (m : omsg) : node * Z :=
  if o_e2e m =? 0 then (set_misc n (n_stopping n) (n_next_cid n) (seq_next (n_e2e n)), seq_next (n_e2e n))
  else (n, o_e2e m).
Definition choose (usable : list peer) (pick : nat) : option peer :=
  match usable with
  | [p] => Some p
  | _ => List.nth_error usable (Nat.modulo pick (List.length usable))
  end.

Lemma route_request_e2e n m i realm : route_request (fst (e2e_prep n m)) i realm = route_request n i realm.
Proof. unfold e2e_prep. destruct (o_e2e m =? 0); reflexivity. Qed.

Lemma choose_spec usable pick p :
  choose usable pick = Some p ->
  List.In p usable /\ (forall q, usable = [q] -> p = q) /\
  (List.length usable <> 1%nat -> List.nth_error usable (Nat.modulo pick (List.length usable)) = Some p).
Proof.
  unfold choose. destruct usable as [|a [|b r]].
  - intros H. destruct (Nat.modulo pick (List.length (@nil peer))); discriminate.
  - intros H. injection H as <-. split; [left; reflexivity|]. split; [intros q E; congruence|].
    cbn [List.length]. intros E. congruence.
  - intros H. split; [eapply List.nth_error_In, H|]. split; [intros q E; discriminate|]. intros _. exact H.
Qed.

(* the part of Application.send_request after the end-to-end id is settled (copy of the model
   text; tied to the model by step_app_request below) *)
Definition req_core (n0 : node) (e2e : Z) (ds : dials) (i : nat) (m : omsg) (realm : pres String.string)
           (pick : nat) (timeout : Z) : node * list output :=
  match route_request n0 i realm with
  | None | Some [] => (n0, [ONotRoutable])
  | Some usable =>
      match choose usable pick with
      | None => (n0, [ONotRoutable])
      | Some p =>
          match p_conn p with
          | None => (n0, [ONotRoutable])
          | Some cid =>
              match get_conn n0 cid with
              | None => (n0, [ONotRoutable])
              | Some c =>
                  let '(n1, hbh) := (if o_hbh m =? 0
                                     then (set_conns n0 (upd_conn (n_conns n0) cid (fun c => set_chbh c (seq_next (c_hbh c)))), seq_next (c_hbh c))
                                     else (n0, o_hbh m)) in
                  let m' := {| o_cmd := o_cmd m; o_req := true; o_app := (if o_app m =? 0 then match List.nth_error (n_apps n1) i with Some a => a_id a | None => 0 end else o_app m);
                               o_hbh := hbh; o_e2e := e2e; o_result := None; o_failed := []; o_tag := o_tag m |} in
                  let n2 := set_waiting n1 ((List.filter (fun x => let '(h, e, _) := x in negb ((h =? hbh) && (e =? e2e))) (n_app_waiting n1)) ++ [(hbh, e2e, i)])%list
                                        (n_peer_waiting n1) (n_origin_waiting n1) (n_sent_answers n1) in
                  let n3 := set_apps n2 (upd_app (n_apps n2) i (fun a => set_awaiting a (a_waiting a ++ [(hbh, n_now n2 + timeout)])%list)) in
                  let '(n4, o4) := send_message n3 cid m' in
                  let '(n5, o5) := settle_app' n4 ds in (n5, (o4 ++ o5)%list)
              end
          end
      end
  end.

Lemma step_app_request n ds i m realm pick timeout :
  step n ds (EAppRequest i m realm pick timeout) =
  req_core (fst (e2e_prep n m)) (snd (e2e_prep n m)) ds i m realm pick timeout.
Proof. cbn [step]. unfold e2e_prep. destruct (o_e2e m =? 0); reflexivity. Qed.

Lemma send_message_req_eq n cid m :
  o_req m = true ->
  send_message n cid m =
  (set_conns n (upd_conn (n_conns n) cid (fun c => set_cout c (c_out c ++ [m])%list)), [OQueue cid m]).
Proof. intros H. unfold send_message, queue_out. rewrite H. reflexivity. Qed.

Lemma seq_next_is_next s : seq_next s = next 1 4294967295 s.
Proof. reflexivity. Qed.
Lemma seq_next_range s : 1 <= s <= 4294967295 -> 1 <= seq_next s <= 4294967295.
Proof. intros H. rewrite seq_next_is_next. apply next_range; [lia|exact H]. Qed.
Lemma seq_next_nonzero s : 1 <= s <= 4294967295 -> seq_next s <> 0.
Proof. intros H. rewrite seq_next_is_next. apply next_nonzero; [lia|exact H]. Qed.
Lemma seq_next_neq s : 1 <= s <= 4294967295 -> seq_next s <> s.
Proof. intros H. unfold seq_next. destruct (s =? 4294967295) eqn:E; lia. Qed.

Lemma req_core_shape n0 e2e ds i m realm pick timeout n' outs :
  req_core n0 e2e ds i m realm pick timeout = (n', outs) ->
  (n' = n0 /\ outs = [ONotRoutable]) \/
  exists usable p cid c m' n4 rest,
    route_request n0 i realm = Some usable /\ usable <> [] /\ choose usable pick = Some p /\
    p_conn p = Some cid /\ get_conn n0 cid = Some c /\
    outs = OQueue cid m' :: rest /\ settle_app' n4 ds = (n', rest) /\ List.Forall (sysout (pmap n0)) rest /\
    o_req m' = true /\ o_cmd m' = o_cmd m /\ o_tag m' = o_tag m /\
    o_hbh m' = (if o_hbh m =? 0 then seq_next (c_hbh c) else o_hbh m) /\ o_e2e m' = e2e /\
    (exists c4, get_conn n4 cid = Some c4 /\
                c_hbh c4 = (if o_hbh m =? 0 then seq_next (c_hbh c) else c_hbh c) /\
                c_out c4 = (c_out c ++ [m'])%list /\ c_state c4 = c_state c) /\
    n_e2e n4 = n_e2e n0 /\ List.In (o_hbh m', e2e, i) (n_app_waiting n4) /\ frame n0 n4.
Proof.
  unfold req_core. intros H.
  destruct (route_request n0 i realm) as [usable|] eqn:Er; [|left; injection H as <- <-; split; reflexivity].
  destruct usable as [|p0 us]; [left; injection H as <- <-; split; reflexivity|].
  destruct (choose (p0 :: us) pick) as [p|] eqn:Ech; [|left; injection H as <- <-; split; reflexivity].
  destruct (p_conn p) as [cid|] eqn:Ep; [|left; injection H as <- <-; split; reflexivity].
  destruct (get_conn n0 cid) as [c|] eqn:Ec; [|left; injection H as <- <-; split; reflexivity].
  right. exists (p0 :: us), p, cid, c.
  destruct (o_hbh m =? 0) eqn:Eh; cbv zeta in H.
  - match type of H with context [send_message ?x ?cc ?mm] => set (n3 := x) in H; set (m' := mm) in H end.
    rewrite (send_message_req_eq n3 cid m' eq_refl) in H.
    match type of H with context [settle_app' ?x ds] => set (n4 := x) in H end.
    pose proof (settle_app'_sys n4 ds) as G. destruct (settle_app' n4 ds) as [n5 o5] eqn:E5. injection H as <- <-.
    assert (F : frame n0 n4).
    { eapply frame_trans; [apply (frame_upd_conn n0 cid (fun c0 => set_chbh c0 (seq_next (c_hbh c0)))); reflexivity|].
      eapply frame_trans; [|apply (frame_upd_conn n3 cid (fun c0 => set_cout c0 (c_out c0 ++ [m'])%list)); reflexivity].
      apply frame_same; reflexivity. }
    exists m', n4, o5. split; [first [reflexivity|assumption]|]. split; [discriminate|]. split; [exact Ech|].
    split; [first [reflexivity|assumption]|].
    split; [first [reflexivity|assumption]|]. split; [first [reflexivity|assumption]|]. split; [first [reflexivity|assumption]|]. split.
    { destruct G as [_ G]. cbn [snd] in G. destruct F as [[E _] _]. rewrite E in G. exact G. }
    split; [first [reflexivity|assumption]|]. split; [first [reflexivity|assumption]|]. split; [first [reflexivity|assumption]|]. split; [first [reflexivity|assumption]|]. split; [first [reflexivity|assumption]|].
    split.
    { eexists. split.
      - unfold get_conn. cbn [n4 n3 n_conns set_conns set_apps set_waiting].
        apply find_upd_conn_same; [reflexivity|]. apply find_upd_conn_same; [reflexivity|]. exact Ec.
      - split; [first [reflexivity|assumption]|]. split; reflexivity. }
    split; [first [reflexivity|assumption]|]. split; [|exact F].
    cbn [n4 n3 n_app_waiting set_conns set_apps set_waiting]. apply List.in_or_app. right. left. reflexivity.
  - match type of H with context [send_message ?x ?cc ?mm] => set (n3 := x) in H; set (m' := mm) in H end.
    rewrite (send_message_req_eq n3 cid m' eq_refl) in H.
    match type of H with context [settle_app' ?x ds] => set (n4 := x) in H end.
    pose proof (settle_app'_sys n4 ds) as G. destruct (settle_app' n4 ds) as [n5 o5] eqn:E5. injection H as <- <-.
    assert (F : frame n0 n4).
    { eapply frame_trans; [|apply (frame_upd_conn n3 cid (fun c0 => set_cout c0 (c_out c0 ++ [m'])%list)); reflexivity].
      apply frame_same; reflexivity. }
    exists m', n4, o5. split; [first [reflexivity|assumption]|]. split; [discriminate|]. split; [exact Ech|].
    split; [first [reflexivity|assumption]|].
    split; [first [reflexivity|assumption]|]. split; [first [reflexivity|assumption]|]. split; [first [reflexivity|assumption]|]. split.
    { destruct G as [_ G]. cbn [snd] in G. destruct F as [[E _] _]. rewrite E in G. exact G. }
    split; [first [reflexivity|assumption]|]. split; [first [reflexivity|assumption]|]. split; [first [reflexivity|assumption]|]. split; [first [reflexivity|assumption]|]. split; [first [reflexivity|assumption]|].
    split.
    { eexists. split.
      - unfold get_conn. cbn [n4 n3 n_conns set_conns set_apps set_waiting].
        apply find_upd_conn_same; [reflexivity|]. exact Ec.
      - split; [first [reflexivity|assumption]|]. split; reflexivity. }
    split; [first [reflexivity|assumption]|]. split; [|exact F].
    cbn [n4 n3 n_app_waiting set_conns set_apps set_waiting]. apply List.in_or_app. right. left. reflexivity.
Qed.

(* shape of the reaction to Application.send_request: NotRoutable, or the request handed to the
   connection of the peer chosen from route_request's list, followed only by what the I/O thread
   does on its own.  n4 is the node before the I/O thread settles. *)
Theorem C10_request_shape n ds i m realm pick timeout n' outs :
  step n ds (EAppRequest i m realm pick timeout) = (n', outs) ->
  outs = [ONotRoutable] \/
  exists usable p cid c m' n4 rest,
    route_request n i realm = Some usable /\ usable <> [] /\ choose usable pick = Some p /\
    p_conn p = Some cid /\ get_conn n cid = Some c /\
    outs = OQueue cid m' :: rest /\ settle_app' n4 ds = (n', rest) /\ List.Forall (sysout (pmap n)) rest /\
    o_req m' = true /\ o_cmd m' = o_cmd m /\ o_tag m' = o_tag m /\
    o_hbh m' = (if o_hbh m =? 0 then seq_next (c_hbh c) else o_hbh m) /\
    o_e2e m' = (if o_e2e m =? 0 then seq_next (n_e2e n) else o_e2e m) /\
    (exists c4, get_conn n4 cid = Some c4 /\
                c_hbh c4 = (if o_hbh m =? 0 then seq_next (c_hbh c) else c_hbh c) /\
                c_out c4 = (c_out c ++ [m'])%list /\ c_state c4 = c_state c) /\
    n_e2e n4 = (if o_e2e m =? 0 then seq_next (n_e2e n) else n_e2e n) /\
    List.In (o_hbh m', o_e2e m', i) (n_app_waiting n4).
Proof.
  rewrite step_app_request. intros H. apply req_core_shape in H. destruct H as [[_ H]|H]; [left; exact H|right].
  destruct H as (usable & p & cid & c & m' & n4 & rest & H1 & H2 & H3 & H4 & H5 & H6 & H7 & H8 & H9 & H10 & H11 & H12 & H13 & H14 & H15 & H16 & _).
  exists usable, p, cid, c, m', n4, rest. rewrite route_request_e2e in H1.
  assert (E1 : get_conn (fst (e2e_prep n m)) cid = get_conn n cid).
  { unfold e2e_prep. destruct (o_e2e m =? 0); reflexivity. }
  assert (E2 : pmap (fst (e2e_prep n m)) = pmap n).
  { unfold e2e_prep. destruct (o_e2e m =? 0); reflexivity. }
  rewrite E1 in H5. rewrite E2 in H8. rewrite H13.
  repeat (split; [assumption|]).
  unfold e2e_prep in *. destruct (o_e2e m =? 0); cbn [fst snd] in *; repeat (split; try assumption); try reflexivity.
Qed.

(* C10: whatever is handed to a connection is a request; it is either the I/O thread's own
   CER / DWR, or the application's request and then the connection is the one of the peer
   selected from route_request's list (the only one, or the pick-th modulo the length) *)
Theorem C10_eligible n ds i m realm pick timeout n' outs cid m' :
  step n ds (EAppRequest i m realm pick timeout) = (n', outs) ->
  List.In (OQueue cid m') outs ->
  o_req m' = true /\
  (own_req m' \/
   exists usable p,
     route_request n i realm = Some usable /\ List.In p usable /\ p_conn p = Some cid /\
     (forall q, usable = [q] -> p = q) /\
     (List.length usable <> 1%nat -> List.nth_error usable (Nat.modulo pick (List.length usable)) = Some p) /\
     o_cmd m' = o_cmd m /\ o_tag m' = o_tag m).
Proof.
  intros Hs Hin. apply C10_request_shape in Hs. destruct Hs as [->|Hs].
  - destruct Hin as [Hin|[]]. discriminate.
  - destruct Hs as (usable & p & cid0 & c & m0 & n4 & rest & H1 & H2 & H3 & H4 & H5 & -> & H7 & H8 & H9 & H10 & H11 & _).
    destruct Hin as [Hin|Hin].
    + injection Hin as <- <-. split; [exact H9|]. right. exists usable, p.
      destruct (choose_spec _ _ _ H3) as (C1 & C2 & C3). repeat split; assumption.
    + rewrite List.Forall_forall in H8. apply H8 in Hin. cbn in Hin. split; [apply Hin|left; exact Hin].
Qed.

(* C10: no route, or no usable peer: NotRoutable and nothing else *)
Theorem C10_none_is_error n ds i m realm pick timeout :
  route_request n i realm = None \/ route_request n i realm = Some [] ->
  step n ds (EAppRequest i m realm pick timeout) = (fst (e2e_prep n m), [ONotRoutable]).
Proof.
  intros H. rewrite step_app_request. unfold req_core. rewrite route_request_e2e.
  destruct H as [-> | ->]; reflexivity.
Qed.

(* C10: a hop-by-hop id left 0 by the caller is drawn from the chosen connection's generator:
   it is the successor of the generator state, the state is advanced to it, it lies in
   1 .. 2^32-1 (so it is not 0) and differs from the previous state (so from the previous draw) *)
Theorem C10_hbh_fresh n ds i m realm pick timeout n' outs :
  step n ds (EAppRequest i m realm pick timeout) = (n', outs) ->
  o_hbh m = 0 -> outs <> [ONotRoutable] ->
  exists cid c m' rest n4 c4,
    outs = OQueue cid m' :: rest /\ get_conn n cid = Some c /\
    o_hbh m' = seq_next (c_hbh c) /\
    settle_app' n4 ds = (n', rest) /\ get_conn n4 cid = Some c4 /\ c_hbh c4 = seq_next (c_hbh c) /\
    (1 <= c_hbh c <= 4294967295 ->
     1 <= o_hbh m' <= 4294967295 /\ o_hbh m' <> 0 /\ o_hbh m' <> c_hbh c /\
     seq_next (c_hbh c4) <> o_hbh m').
Proof.
  intros Hs H0 Hne. apply C10_request_shape in Hs. destruct Hs as [Hs|Hs]; [contradiction|].
  destruct Hs as (usable & p & cid & c & m' & n4 & rest & H1 & H2 & H3 & H4 & H5 & H6 & H7 & H8 & H9 & H10 & H11 & H12 & H13 & (c4 & H14 & H15 & _) & _).
  rewrite H0 in H12, H15. cbn [Z.eqb] in H12, H15.
  exists cid, c, m', rest, n4, c4. repeat (split; [assumption|]).
  intros Hr. rewrite H12, H15. pose proof (seq_next_range _ Hr) as Hr'.
  split; [exact Hr'|]. split; [apply seq_next_nonzero, Hr|]. split; [apply seq_next_neq, Hr|]. apply seq_next_neq, Hr'.
Qed.

(* ---- answers to the node's own application requests ---------------------------------- *)
Definition aw_key (m : msg) (x : Z * Z * nat) : bool :=
  let '(h, e, _) := x in (h =? m_hbh m) && (e =? m_e2e m).
(* the application recorded as waiting for the answer m *)
Definition aw_lookup (n : node) (m : msg) : option nat :=
  match List.find (aw_key m) (n_app_waiting n) with Some x => Some (snd x) | None => None end.

Lemma aw_lookup_In n m i : aw_lookup n m = Some i -> List.In (m_hbh m, m_e2e m, i) (n_app_waiting n).
Proof.
  unfold aw_lookup. destruct (List.find (aw_key m) (n_app_waiting n)) as [[[h e] j]|] eqn:E; [|discriminate].
  intros H. injection H as <-. apply List.find_some in E. destruct E as [Hin Hk]. cbn [aw_key] in Hk.
  apply andb_true_iff in Hk. destruct Hk as [H1 H2]. apply Z.eqb_eq in H1. apply Z.eqb_eq in H2. subst. exact Hin.
Qed.

Lemma aw_lookup_None n m : aw_lookup n m = None <-> forall i, ~ List.In (m_hbh m, m_e2e m, i) (n_app_waiting n).
Proof.
  unfold aw_lookup. split.
  - destruct (List.find (aw_key m) (n_app_waiting n)) eqn:E; [discriminate|]. intros _ i Hin.
    pose proof (List.find_none _ _ E _ Hin) as Hk. cbn [aw_key] in Hk. rewrite !Z.eqb_refl in Hk. discriminate.
  - intros H. destruct (List.find (aw_key m) (n_app_waiting n)) as [[[h e] j]|] eqn:E; [|reflexivity].
    exfalso. apply (H j). apply aw_lookup_In. unfold aw_lookup. rewrite E. reflexivity.
Qed.

Lemma nth_error_upd_app l i f a :
  List.nth_error l i = Some a -> List.nth_error (upd_app l i f) i = Some (f a).
Proof.
  revert i. induction l as [|x l IH]; intros [|i]; cbn [List.nth_error upd_app]; try discriminate.
  - intros H. injection H as <-. reflexivity.
  - apply IH.
Qed.

Lemma nth_error_upd_app_other l i j f : i <> j -> List.nth_error (upd_app l i f) j = List.nth_error l j.
Proof.
  revert i j. induction l as [|x l IH]; intros [|i] [|j] H; cbn [List.nth_error upd_app]; try reflexivity.
  - congruence.
  - apply IH. congruence.
Qed.

Lemma mem_z_filter_out x (l : list (Z * Z)) :
  mem_z x (List.map fst (List.filter (fun w => negb (fst w =? x)) l)) = false.
Proof.
  unfold mem_z. induction l as [|w l IH]; cbn [List.filter List.map List.existsb]; [reflexivity|].
  destruct (fst w =? x) eqn:E; cbn [negb List.map List.existsb]; [exact IH|].
  rewrite Z.eqb_sym, E. exact IH.
Qed.

(* C10: an answer is handed to the blocked caller of the application that sent the request
   (and to no other application), or reported as unexpected to that application when nobody is
   blocked on it any more; an answer nobody asked for produces nothing.  In the first two
   cases the record is dropped. *)
Theorem C10_correlation n m :
  (forall i a, aw_lookup n m = Some i -> List.nth_error (n_apps n) i = Some a ->
     (mem_z (m_hbh m) (List.map fst (a_waiting a)) = true ->
      exists n', recv_app_answer n m = (n', [OAnswerTo i m]) /\ aw_lookup n' m = None /\
                 (exists a', List.nth_error (n_apps n') i = Some a' /\
                             mem_z (m_hbh m) (List.map fst (a_waiting a')) = false) /\
                 (forall j, j <> i -> List.nth_error (n_apps n') j = List.nth_error (n_apps n) j)) /\
     (mem_z (m_hbh m) (List.map fst (a_waiting a)) = false ->
      exists n', recv_app_answer n m = (n', [OUnexpected i m]) /\ aw_lookup n' m = None /\
                 n_apps n' = n_apps n)) /\
  (aw_lookup n m = None -> recv_app_answer n m = (n, [])).
Proof.
  unfold aw_lookup, recv_app_answer. fold (aw_key m). split.
  - intros i a Hl Ha.
    destruct (List.find (aw_key m) (n_app_waiting n)) as [[[h e] j]|] eqn:E; [|discriminate].
    injection Hl as Hl. cbn [snd] in Hl. subst j. rewrite Ha.
    assert (Hnone : List.find (aw_key m)
                      (List.filter (fun x => let '(h, e, _) := x in negb ((h =? m_hbh m) && (e =? m_e2e m))) (n_app_waiting n)) = None).
    { rewrite (List.filter_ext _ (fun x => negb (aw_key m x))); [apply find_filter_neg|].
      intros [[h0 e0] j0]. reflexivity. }
    split; intros Hw; rewrite Hw; eexists; (split; [reflexivity|]).
    + cbn [n_app_waiting n_apps set_apps set_waiting]. split; [rewrite Hnone; reflexivity|]. split.
      * eexists. split; [apply nth_error_upd_app; exact Ha|]. cbn [a_waiting set_awaiting]. apply mem_z_filter_out.
      * intros j Hj. apply nth_error_upd_app_other. congruence.
    + cbn [n_app_waiting n_apps set_waiting]. split; [rewrite Hnone; reflexivity|reflexivity].
  - destruct (List.find (aw_key m) (n_app_waiting n)); [discriminate|reflexivity].
Qed.

(* C10: a second copy of an answer is ignored *)
Theorem C10_duplicate_ignored n m i a n1 o1 :
  aw_lookup n m = Some i -> List.nth_error (n_apps n) i = Some a ->
  recv_app_answer n m = (n1, o1) ->
  (o1 = [OAnswerTo i m] \/ o1 = [OUnexpected i m]) /\ recv_app_answer n1 m = (n1, []).
Proof.
  intros Hl Ha Hr. destruct (C10_correlation n m) as [H _]. destruct (H i a Hl Ha) as [H1 H2].
  destruct (mem_z (m_hbh m) (List.map fst (a_waiting a))) eqn:Ew.
  - destruct (H1 eq_refl) as (n' & E & Hn & _). rewrite E in Hr. injection Hr as <- <-.
    split; [left; reflexivity|]. apply (C10_correlation n' m), Hn.
  - destruct (H2 eq_refl) as (n' & E & Hn & _). rewrite E in Hr. injection Hr as <- <-.
    split; [right; reflexivity|]. apply (C10_correlation n' m), Hn.
Qed.

(* ================================================================================== *)
(* 7. C12: Disconnect-Peer-Request                                                    *)
(* ================================================================================== *)
Lemma find_conn_peer_get n c p : find_conn_peer n c = Some p -> get_peer n (p_name p) = Some p.
Proof.
  unfold find_conn_peer. destruct (get_peer n (c_node_name c)) as [q|] eqn:E.
  - intros H. injection H as <-. pose proof (get_peer_name _ _ _ E) as [-> _]. exact E.
  - intros H. pose proof (get_peer_name _ _ _ H) as [-> _]. exact H.
Qed.

Lemma send_message_conns n cid m :
  n_conns (fst (send_message n cid m)) = upd_conn (n_conns n) cid (fun c => set_cout c (c_out c ++ [m])%list)
  /\ n_peers (fst (send_message n cid m)) = n_peers n.
Proof.
  unfold send_message, queue_out. cbn [fst]. destruct (o_req m); [split; reflexivity|].
  unfold record_answer.
  match goal with |- context [List.find ?f (n_origin_waiting ?x)] => destruct (List.find f (n_origin_waiting x)) as [[[[k9 a] b] o]|] end;
    destruct (get_conn n cid); split; reflexivity.
Qed.

(* C12: a DPR is answered with success on the same connection, the connection leaves the ready
   states (so route_request no longer offers it), and its peer is marked as disconnected by DPR *)
Theorem C12_dpr n cid m c n' outs :
  get_conn n cid = Some c -> recv_dpr n cid m = (n', outs) ->
  outs = [OQueue cid (answer_of m (Some 2001) [])] /\
  (exists c', get_conn n' cid = Some c' /\ c_state c' = SDisconnecting /\ is_ready_state (c_state c') = false /\
              c_host c' = c_host c /\ c_node_name c' = c_node_name c) /\
  (forall p, find_conn_peer n c = Some p ->
             exists p', get_peer n' (p_name p) = Some p' /\ p_reason p' = Some R_DPR /\ p_conn p' = p_conn p) /\
  (find_conn_peer n c = None -> n_peers n' = n_peers n).
Proof.
  intros Hc Hr. unfold recv_dpr in Hr.
  set (n1 := set_conns n (upd_conn (n_conns n) cid (fun c0 => set_cstate c0 SDisconnecting))) in Hr.
  assert (Hc1 : get_conn n1 cid = Some (set_cstate c SDisconnecting)).
  { unfold get_conn. cbn [n1 n_conns set_conns].
    apply (find_upd_conn_same _ cid (fun c0 => set_cstate c0 SDisconnecting) c); [reflexivity|exact Hc]. }
  rewrite Hc1 in Hr.
  change (find_conn_peer n1 (set_cstate c SDisconnecting)) with (find_conn_peer n c) in Hr.
  match type of Hr with send_message ?x _ _ = _ => set (n2 := x) in Hr end.
  pose proof (send_message_out n2 cid (answer_of m (Some RC_SUCCESS) [])) as Ho.
  pose proof (send_message_conns n2 cid (answer_of m (Some RC_SUCCESS) [])) as [Hcs Hps].
  rewrite Hr in Ho, Hcs, Hps. cbn [fst snd] in Ho, Hcs, Hps.
  assert (Hc2 : n_conns n2 = n_conns n1).
  { subst n2. destruct (find_conn_peer n c); reflexivity. }
  split; [exact Ho|]. split.
  - eexists. split.
    + unfold get_conn. rewrite Hcs, Hc2. apply find_upd_conn_same; [reflexivity|exact Hc1].
    + repeat split.
  - split.
    + intros p Hp. unfold n2 in Hps. rewrite Hp in Hps. pose proof (find_conn_peer_get _ _ _ Hp) as Hg.
      eexists. split.
      * unfold get_peer. rewrite Hps. cbn [n1 n_peers set_peers set_conns]. apply find_upd_peer_same; [reflexivity|].
        exact Hg.
      * split; reflexivity.
    + intros Hp. unfold n2 in Hps. rewrite Hp in Hps. rewrite Hps. reflexivity.
Qed.

(* ================================================================================== *)
(* 8. every event: named copies of the local loops of `step`                          *)
(* ================================================================================== *)
Section Wake.
Variable target : Z.
Definition expire (n : node) : node :=
  set_apps n (List.map (fun a => set_awaiting a (List.filter (fun w => target <? snd w) (a_waiting a))) (n_apps n)).
Fixpoint wake (fuel : nat) (n : node) (ds : dials) (acc : list output) : node * list output :=
  match fuel with
  | O => (expire (set_time n target (n_io_deadline n)), acc)
  | S f =>
      if n_io_deadline n <=? target then
        let n1 := set_time n (n_io_deadline n) (n_io_deadline n) in
        let '(n2, o2, ds2) := settle n1 ds in
        wake f n2 ds2 (acc ++ o2)%list
      else (expire (set_time n target (n_io_deadline n)), acc)
  end.
End Wake.

Fixpoint stop_go (cids0 : list nat) (n : node) (acc : list output) : node * list output :=
  match cids0 with
  | [] => (n, acc)
  | c :: r => match get_conn n c with
              | Some cn => if is_ready_state (c_state cn)
                           then let '(n', o') := send_dpr n c in stop_go r n' (acc ++ o')%list
                           else stop_go r n acc
              | None => stop_go r n acc
              end
  end.

Fixpoint finish_go (cids0 : list nat) (n : node) (acc : list output) : node * list output :=
  match cids0 with
  | [] => (n, acc)
  | c :: r => let '(n', o') := close_conn n c R_SHUTDOWN in finish_go r n' (acc ++ o')%list
  end.

Fixpoint start_go (names : list String.string) (n : node) (ds : dials) (acc : list output) : node * list output * dials :=
  match names with
  | [] => (n, acc, ds)
  | nm :: r =>
      match get_peer n nm with
      | Some p =>
          if p_persistent p then
            match ds with
            | (h0, res) :: dr => let '(n1, o1) := connect_to_peer n nm h0 res in start_go r n1 dr (acc ++ o1)%list
            | [] => let '(n1, o1) := connect_to_peer n nm 0 DialOk in start_go r n1 [] (acc ++ o1)%list
            end
          else start_go r n ds acc
      | None => start_go r n ds acc
      end
  end.

Lemma step_tick n ds dt : step n ds (ETick dt) = wake (n_now n + dt) (S (Z.to_nat dt)) n ds [].
Proof. reflexivity. Qed.
Lemma step_stop n ds force :
  step n ds (EStop force) =
  let n0 := set_misc n true (n_next_cid n) (n_e2e n) in
  if force then (n0, [])
  else let '(n1, o1) := stop_go (List.map c_id (n_conns n0)) n0 [] in
       let '(n2, o2) := settle' n1 ds in (n2, (o1 ++ o2)%list).
Proof. reflexivity. Qed.
Lemma step_stop_finish n ds tclose tend :
  step n ds (EStopFinish tclose tend) =
  let n0 := set_time n tclose (n_io_deadline n) in
  let '(n1, o1) := finish_go (List.map c_id (n_conns n0)) n0 [] in
  (set_time (set_apps n1 (List.map (fun a => set_awaiting a []) (n_apps n1))) tend (n_io_deadline n1), o1).
Proof. reflexivity. Qed.
Lemma step_start n ds :
  step n ds EStart =
  let '(n1, o1, ds1) := start_go (List.map p_name (n_peers n)) n ds [] in
  let '(n2, o2) := settle' n1 ds1 in (n2, (o1 ++ o2)%list).
Proof. reflexivity. Qed.

Lemma pmap_set_time n a b : pmap (set_time n a b) = pmap n.
Proof. reflexivity. Qed.

Lemma wake_g (P : output -> Prop) pm target fuel :
  sysP P -> dialP pm P ->
  forall n ds acc n0, pmap n = pm -> frame n0 n -> List.Forall P acc -> gres P n0 (wake target fuel n ds acc).
Proof.
  intros HP HD. induction fuel as [|f IH]; intros n ds acc n0 Hpm F Hacc; cbn [wake].
  - split; [|exact Hacc]. eapply frame_trans; [exact F|]. apply frame_same; reflexivity.
  - destruct (n_io_deadline n <=? target).
    + cbv zeta. set (n1 := set_time n (n_io_deadline n) (n_io_deadline n)).
      pose proof (settle_g P pm n1 ds HP HD Hpm) as G. destruct (settle n1 ds) as [[n2 o2] ds2]. cbn [fst] in G.
      apply IH.
      * rewrite <- Hpm. apply (gres_pmap _ _ _ G).
      * eapply frame_trans; [exact F|]. eapply frame_trans; [|apply G]. apply frame_same; reflexivity.
      * apply List.Forall_app. split; [exact Hacc|apply G].
    + split; [|exact Hacc]. eapply frame_trans; [exact F|]. apply frame_same; reflexivity.
Qed.

Lemma send_dpr_g (P : output -> Prop) n cid : (forall c m, P (OQueue c m)) -> gres P n (send_dpr n cid).
Proof.
  intros HQ. unfold send_dpr. pose proof (own_request_frame n cid DP) as F.
  destruct (own_request n cid DP) as [n1 m]. cbn [fst] in F.
  eapply gres_pre; [exact F|]. eapply gres_pre; [|apply send_message_g, HQ].
  apply frame_upd_conn. reflexivity.
Qed.

Lemma stop_go_g (P : output -> Prop) cids0 :
  (forall c m, P (OQueue c m)) ->
  forall n acc n0, frame n0 n -> List.Forall P acc -> gres P n0 (stop_go cids0 n acc).
Proof.
  intros HQ. induction cids0 as [|c r IH]; intros n acc n0 F Hacc; cbn [stop_go]; [split; assumption|].
  destruct (get_conn n c) as [cn|]; [|apply IH; assumption].
  destruct (is_ready_state (c_state cn)); [|apply IH; assumption].
  pose proof (send_dpr_g P n c HQ) as G. destruct (send_dpr n c) as [n1 o1].
  apply IH; [eapply frame_trans; [exact F|apply G]|]. apply List.Forall_app. split; [exact Hacc|apply G].
Qed.

Lemma finish_go_g (P : output -> Prop) cids0 :
  (forall c r, P (OClose c r)) ->
  forall n acc n0, frame n0 n -> List.Forall P acc -> gres P n0 (finish_go cids0 n acc).
Proof.
  intros HC. induction cids0 as [|c r IH]; intros n acc n0 F Hacc; cbn [finish_go]; [split; assumption|].
  pose proof (close_conn_g P n c R_SHUTDOWN (HC _ _)) as G. destruct (close_conn n c R_SHUTDOWN) as [n1 o1].
  apply IH; [eapply frame_trans; [exact F|apply G]|]. apply List.Forall_app. split; [exact Hacc|apply G].
Qed.

Lemma start_go_g (P : output -> Prop) pm names :
  sysP P -> dialP pm P ->
  forall n ds acc n0, pmap n = pm -> frame n0 n -> List.Forall P acc -> gres P n0 (fst (start_go names n ds acc)).
Proof.
  intros HP HD. induction names as [|nm r IH]; intros n ds acc n0 Hpm F Hacc; cbn [start_go]; [split; assumption|].
  destruct (get_peer n nm) as [p|] eqn:Ep; [|apply IH; assumption].
  destruct (p_persistent p) eqn:Epers; [|apply IH; assumption].
  assert (Hpers : forall p0, get_peer n nm = Some p0 -> p_persistent p0 = true).
  { intros p0 E0. rewrite Ep in E0. injection E0 as <-. exact Epers. }
  destruct ds as [|[h0 res] dr].
  - pose proof (connect_to_peer_g P pm n nm 0 DialOk HP HD Hpm Hpers) as G.
    destruct (connect_to_peer n nm 0 DialOk) as [n1 o1]. apply IH.
    + rewrite <- Hpm. apply (gres_pmap _ _ _ G).
    + eapply frame_trans; [exact F|apply G].
    + apply List.Forall_app. split; [exact Hacc|apply G].
  - pose proof (connect_to_peer_g P pm n nm h0 res HP HD Hpm Hpers) as G.
    destruct (connect_to_peer n nm h0 res) as [n1 o1]. apply IH.
    + rewrite <- Hpm. apply (gres_pmap _ _ _ G).
    + eapply frame_trans; [exact F|apply G].
    + apply List.Forall_app. split; [exact Hacc|apply G].
Qed.

(* ---- the reader thread: handlers of received messages -------------------------------- *)
Lemma close_all_g (P : output -> Prop) cids0 r :
  (forall c r0, P (OClose c r0)) -> forall n, gres P n (close_all n cids0 r).
Proof.
  intros HC. induction cids0 as [|k l IH]; intros n; cbn [close_all]; [apply gres_refl|].
  pose proof (close_conn_g P n k r (HC _ _)) as G1. destruct (close_conn n k r) as [n1 o1].
  pose proof (IH n1) as G2. destruct (close_all n1 l r) as [n2 o2].
  eapply gres_app; eassumption.
Qed.

Lemma recv_cer_g n cid m : gres nodial n (recv_cer n cid m).
Proof.
  unfold recv_cer. destruct (get_conn n cid) as [c0|]; [|apply gres_refl].
  destruct (negb (cstate_eqb (c_state c0) SConnected)); [apply gres_nil, frame_same; reflexivity|].
  destruct (pres_get (m_origin m)) as [host|]; [|apply gres_refl].
  destruct (get_peer n host) as [p|].
  - cbv zeta.
    set (n0 := set_conns n (upd_conn (n_conns n) cid (fun c =>
                  if String.eqb (c_node_name c) String.EmptyString then set_cident c host (c_host c) (c_auth c) (c_acct c) else c))).
    assert (F0 : frame n n0).
    { apply frame_upd_conn. intros c. destruct (String.eqb (c_node_name c) String.EmptyString); reflexivity. }
    (* election lost: CLOSING and the 4003 answer *)
    assert (L : gres nodial n (send_message (set_conns n0 (upd_conn (n_conns n0) cid (fun c => set_cstate c SClosing))) cid
                                 (answer_of m (Some RC_ELECTION_LOST) []))).
    { eapply gres_pre; [|apply send_message_g; exact I].
      eapply frame_trans; [exact F0|]. apply frame_upd_conn. reflexivity. }
    (* election won or no rival: the rivals are closed first *)
    pose proof (close_all_g nodial (election_rivals n0 cid host) R_CLEAN (fun _ _ => I) n0) as G.
    clearbody n0.
    destruct (close_all n0 (election_rivals n0 cid host) R_CLEAN) as [n1 oel].
    assert (G' : gres nodial n (n1, oel)) by (eapply gres_pre; eassumption).
    assert (A : gres nodial n (let '(n2, o) := send_message n1 cid (answer_of m (Some RC_NO_COMMON_APP) []) in (n2, (oel ++ o)%list))).
    { pose proof (send_message_g nodial n1 cid (answer_of m (Some RC_NO_COMMON_APP) []) I) as G2.
      destruct (send_message n1 cid (answer_of m (Some RC_NO_COMMON_APP) [])) as [n2 o]. eapply gres_app; eassumption. }
    match goal with |- context [flag_ready ?x cid] => set (n3 := flag_ready x cid) end.
    assert (F3 : frame n1 n3).
    { unfold n3. eapply frame_trans; [|apply flag_ready_frame]. eapply frame_trans; [|apply assign_peer_conn_frame].
      apply frame_upd_conn. reflexivity. }
    clearbody n3.
    assert (B : gres nodial n (let '(n4, o) := send_message n3 cid (answer_of m (Some RC_SUCCESS) []) in (n4, (oel ++ o)%list))).
    { pose proof (send_message_g nodial n3 cid (answer_of m (Some RC_SUCCESS) []) I) as G2.
      destruct (send_message n3 cid (answer_of m (Some RC_SUCCESS) [])) as [n4 o].
      eapply gres_app; [exact G'|]. eapply gres_pre; eassumption. }
    assert (W : gres nodial n
                  match inter_z (node_auth n1) (m_auth m), inter_z (node_acct n1) (m_acct m),
                        mem_z APP_RELAY (m_auth m) || mem_z APP_RELAY (m_acct m) with
                  | [], [], false =>
                      let '(n2, o) := send_message n1 cid (answer_of m (Some RC_NO_COMMON_APP) []) in (n2, (oel ++ o)%list)
                  | _, _, _ =>
                      let '(n4, o) := send_message n3 cid (answer_of m (Some RC_SUCCESS) []) in (n4, (oel ++ o)%list)
                  end).
    { destruct (inter_z (node_auth n1) (m_auth m)); [|exact B].
      destruct (inter_z (node_acct n1) (m_acct m)); [|exact B].
      destruct (mem_z APP_RELAY (m_auth m) || mem_z APP_RELAY (m_acct m)); [exact B|exact A]. }
    destruct (election_rivals n0 cid host) as [|k0 ks]; [exact W|].
    destruct (String.ltb host (g_host (n_cfg n0))); [exact W|exact L].
  - eapply gres_pre; [|apply send_message_g; exact I]. apply frame_upd_conn. reflexivity.
Qed.

Lemma recv_cea_g n cid m : gres nodial n (recv_cea n cid m).
Proof.
  unfold recv_cea.
  assert (B : gres nodial n (close_conn n cid R_CER_REJECTED)) by (apply close_conn_g; exact I).
  destruct (get_conn n cid) as [c0|]; [|apply gres_refl].
  destruct (negb (cstate_eqb (c_state c0) SConnected)); [apply gres_refl|].
  match goal with |- context [match pres_get (m_origin m) with Some h => @?f h | None => ?y end] =>
    assert (A : gres nodial n (match pres_get (m_origin m) with Some h => f h | None => y end)) end.
  { destruct (pres_get (m_origin m)) as [host|]; [|apply gres_refl]. cbv beta.
    destruct (negb (String.eqb (c_node_name c0) String.EmptyString) && negb (String.eqb host (c_node_name c0))); [exact B|].
    apply gres_nil. eapply frame_trans; [|apply flag_ready_frame]. eapply frame_trans; [|apply assign_peer_conn_frame].
    apply frame_upd_conn. reflexivity. }
  cbv beta in A.
  destruct (m_result m) as [| |z]; try exact B.
  destruct z as [|p|p]; try exact B.
  do 11 (destruct p as [p|p|]; try exact B). exact A.
Qed.

Lemma recv_dpr_g n cid m : gres nodial n (recv_dpr n cid m).
Proof.
  unfold recv_dpr. eapply gres_pre; [|apply send_message_g; exact I].
  set (n1 := set_conns n (upd_conn (n_conns n) cid (fun c => set_cstate c SDisconnecting))).
  assert (F1 : frame n n1) by (apply frame_upd_conn; reflexivity).
  eapply frame_trans; [exact F1|]. clearbody n1.
  destruct (get_conn n1 cid) as [c|]; [|apply frame_refl].
  destruct (find_conn_peer n1 c) as [p|]; [|apply frame_refl].
  apply frame_upd_peer. reflexivity.
Qed.

Lemma recv_dpa_g n cid : gres nodial n (recv_dpa n cid).
Proof.
  unfold recv_dpa. set (n1 := set_conns n (upd_conn (n_conns n) cid (fun c => set_cstate c SClosing))).
  assert (F1 : frame n n1) by (apply frame_upd_conn; reflexivity). clearbody n1.
  destruct (get_conn n1 cid) as [c|]; [|apply gres_nil, F1].
  destruct (c_out c); [|apply gres_nil, F1].
  eapply gres_pre; [exact F1|]. apply close_conn_g. exact I.
Qed.

Lemma recv_app_answer_g n m : gres nodial n (recv_app_answer n m).
Proof.
  unfold recv_app_answer. destruct (List.find _ (n_app_waiting n)) as [[[h e] i]|]; [|apply gres_refl].
  destruct (List.nth_error (n_apps n) i) as [a|]; [|apply gres_refl].
  destruct (mem_z (m_hbh m) (List.map fst (a_waiting a))).
  - split; [apply frame_same; reflexivity|]. constructor; [exact I|constructor].
  - split; [apply frame_same; reflexivity|]. constructor; [exact I|constructor].
Qed.

Lemma zz_eq (k k0 : Z * Z) : (fst k =? fst k0) && (snd k =? snd k0) = true -> k = k0.
Proof.
  destruct k, k0. cbn [fst snd]. intros H. apply andb_true_iff in H. destruct H as [H1 H2].
  apply Z.eqb_eq in H1. apply Z.eqb_eq in H2. congruence.
Qed.

Lemma pw_has_add pw host k0 h k : pw_has (pw_add pw host k0) h k -> pw_has pw h k \/ (h = host /\ k = k0).
Proof.
  unfold pw_add, pw_has. intros [l [Hin Hm]].
  destruct (List.existsb (fun e => String.eqb (fst e) host) pw).
  - apply List.in_map_iff in Hin. destruct Hin as [[h1 l1] [E Hin]]. cbn [fst snd] in E.
    destruct (String.eqb h1 host) eqn:Eh.
    + apply String.eqb_eq in Eh. destruct (mem_zz k0 l1) eqn:Em.
      * injection E as <- <-. left. exists l1. split; assumption.
      * injection E as <- <-. unfold mem_zz in Hm. rewrite List.existsb_app in Hm. apply orb_true_iff in Hm.
        destruct Hm as [Hm|Hm]; [left; exists l1; split; assumption|].
        cbn [List.existsb] in Hm. rewrite orb_false_r in Hm. right. split; [exact Eh|apply zz_eq, Hm].
    + injection E as <- <-. left. exists l1. split; assumption.
  - apply List.in_app_or in Hin. destruct Hin as [Hin|[E|[]]]; [left; exists l; split; assumption|].
    injection E as <- <-. unfold mem_zz in Hm. cbn [List.existsb] in Hm. rewrite orb_false_r in Hm.
    right. split; [reflexivity|apply zz_eq, Hm].
Qed.

(* adding a pair under a host and removing it from that host again leaves nothing new *)
Lemma pw_has_remove_add pw host k0 h k :
  pw_has (pw_remove (pw_add pw host k0) host k0) h k -> pw_has pw h k.
Proof.
  intros H.
  assert (Hne : ~ (h = host /\ k = k0)).
  { intros [-> ->]. unfold pw_has, pw_remove in H. destruct H as [l [Hin Hm]].
    apply List.in_map_iff in Hin. destruct Hin as [[h1 l1] [E Hin]]. cbn [fst snd] in E.
    destruct (String.eqb h1 host) eqn:Eh.
    - injection E as _ <-. rewrite mem_zz_remove_zz in Hm. discriminate.
    - injection E as E1 _. apply String.eqb_neq in Eh. congruence. }
  apply pw_has_remove, pw_has_add in H. destruct H as [H|H]; [exact H|contradiction].
Qed.

(* an answer sent on a present connection takes its pair out of the list of the connection's host;
   nothing else happens to the waiting lists *)
Lemma send_message_answer_pw n cid a c :
  o_req a = false -> get_conn n cid = Some c ->
  n_peer_waiting (fst (send_message n cid a)) = pw_remove (n_peer_waiting n) (c_host c) (o_hbh a, o_e2e a).
Proof.
  intros Hq Hc. unfold send_message, queue_out. rewrite Hq, Hc. cbn [fst]. unfold record_answer.
  match goal with |- context [List.find ?f (n_origin_waiting ?x)] => destruct (List.find f (n_origin_waiting x)) as [[[[k9 a0] b0] o0]|] end;
    reflexivity.
Qed.

(* result of the reader thread for the frames ms: the peer table and the connection counter are
   framed, nothing is dialled, and a new waiting pair comes with a delivery of one of the frames *)
Definition dres (ms : list msg) (n : node) (r : node * list output) : Prop :=
  frame0 n (fst r) /\ List.Forall nodial (snd r) /\
  forall h k, pw_has (n_peer_waiting (fst r)) h k ->
     pw_has (n_peer_waiting n) h k \/
     exists i m, List.In m ms /\ List.In (ODeliver i m) (snd r) /\ k = (m_hbh m, m_e2e m).

Lemma dres_of_gres ms n r : gres nodial n r -> dres ms n r.
Proof. intros [[F0 Fw] Ho]. split; [exact F0|]. split; [exact Ho|]. intros h k H. left. apply Fw, H. Qed.

Lemma dres_pre ms n n0 r : frame n n0 -> dres ms n0 r -> dres ms n r.
Proof.
  intros [F0 Fw] (D0 & Do & Dw). split; [eapply frame0_trans; eassumption|]. split; [exact Do|].
  intros h k H. destruct (Dw h k H) as [H'|H']; [left; apply Fw, H'|right; exact H'].
Qed.

Lemma dres_app ms1 ms2 n n1 o1 n2 o2 :
  dres ms1 n (n1, o1) -> dres ms2 n1 (n2, o2) -> dres (ms1 ++ ms2)%list n (n2, (o1 ++ o2)%list).
Proof.
  intros (A0 & Ao & Aw) (B0 & Bo & Bw). cbn [fst snd] in *. split; [eapply frame0_trans; eassumption|].
  split; [apply List.Forall_app; split; assumption|]. cbn [fst snd].
  intros h k H. destruct (Bw h k H) as [H'|(i & m & Hm & Hd & Hk)].
  - destruct (Aw h k H') as [H''|(i & m & Hm & Hd & Hk)]; [left; exact H''|].
    right. exists i, m. split; [apply List.in_or_app; left; exact Hm|]. split; [apply List.in_or_app; left; exact Hd|exact Hk].
  - right. exists i, m. split; [apply List.in_or_app; right; exact Hm|]. split; [apply List.in_or_app; right; exact Hd|exact Hk].
Qed.

(* C09: a pair enters a host's waiting list only when a request carrying it is delivered on a
   connection whose host identity is that host *)
Theorem C09_entry_host n cid m n' outs h k :
  recv_app_request n cid m = (n', outs) ->
  ~ pw_has (n_peer_waiting n) h k -> pw_has (n_peer_waiting n') h k ->
  exists c i, get_conn n cid = Some c /\ c_host c = h /\ outs = [ODeliver i m] /\ k = (m_hbh m, m_e2e m).
Proof.
  unfold recv_app_request. intros Hr Hno Hyes.
  assert (S : forall r, send_message n cid r = (n', outs) -> False).
  { intros r E. pose proof (send_message_frame n cid r) as [_ F]. rewrite E in F. exact (Hno (F _ _ Hyes)). }
  destruct (get_conn n cid) as [c|] eqn:Hc; [|injection Hr as <- <-; contradiction].
  destruct (m_drealm m) as [| |realm]; try (exfalso; eapply S; eassumption).
  destruct (route_lookup n realm) as [entries|]; [|exfalso; eapply S; eassumption].
  destruct (List.find _ entries) as [[[i|] l]|]; try (exfalso; eapply S; eassumption).
  destruct (handler_raises m).
  - (* the handler raises: the 5012 answer takes the pair out again, nothing new remains *)
    exfalso. cbv zeta in Hr.
    match type of Hr with context [send_message ?x cid ?a] =>
      pose proof (send_message_answer_pw x cid a c eq_refl Hc) as E; destruct (send_message x cid a) as [n2 o] end.
    injection Hr as <- <-. cbn [fst] in E. rewrite E in Hyes. cbn [n_peer_waiting set_waiting answer_of o_hbh o_e2e] in Hyes.
    apply pw_has_remove_add in Hyes. contradiction.
  - injection Hr as <- <-. cbn [n_peer_waiting set_waiting] in Hyes.
    apply pw_has_add in Hyes. destruct Hyes as [Hyes|[-> ->]]; [contradiction|].
    exists c, i. repeat split.
Qed.

(* ... and when the application's handler raises, the request is delivered and answered 5012 on the
   same connection, and no pair is left behind *)
Theorem C09_raise_leaves_no_entry n cid m n' outs :
  recv_app_request n cid m = (n', outs) -> handler_raises m = true ->
  (forall h k, pw_has (n_peer_waiting n') h k -> pw_has (n_peer_waiting n) h k) /\
  (forall i, List.In (ODeliver i m) outs -> outs = [ODeliver i m; OQueue cid (answer_of m (Some RC_UNABLE) [])]).
Proof.
  unfold recv_app_request. intros Hr Hh.
  assert (S : forall r, send_message n cid r = (n', outs) ->
              (forall h k, pw_has (n_peer_waiting n') h k -> pw_has (n_peer_waiting n) h k) /\
              (forall i, List.In (ODeliver i m) outs -> outs = [ODeliver i m; OQueue cid (answer_of m (Some RC_UNABLE) [])])).
  { intros r E. pose proof (send_message_frame n cid r) as [_ F]. pose proof (send_message_out n cid r) as O.
    rewrite E in F, O. cbn [fst snd] in F, O. split; [exact F|]. subst outs. intros i [H|[]]. discriminate. }
  destruct (get_conn n cid) as [c|] eqn:Hc; [|injection Hr as <- <-; split; [intros h k H; exact H|intros i []]].
  destruct (m_drealm m) as [| |realm]; try (eapply S; eassumption).
  destruct (route_lookup n realm) as [entries|]; [|eapply S; eassumption].
  destruct (List.find _ entries) as [[[i|] l]|]; try (eapply S; eassumption).
  rewrite Hh in Hr. cbv zeta in Hr.
  match type of Hr with context [send_message ?x cid ?a] =>
    pose proof (send_message_answer_pw x cid a c eq_refl Hc) as E; pose proof (send_message_out x cid a) as O;
    destruct (send_message x cid a) as [n2 o] end.
  injection Hr as <- <-. cbn [fst snd] in E, O. subst o. split.
  - intros h k H. rewrite E in H. cbn [n_peer_waiting set_waiting answer_of o_hbh o_e2e] in H.
    eapply pw_has_remove_add, H.
  - intros j [H|[H|[]]]; [injection H as <-; reflexivity|discriminate].
Qed.

Lemma recv_app_request_d n cid m : dres [m] n (recv_app_request n cid m).
Proof.
  unfold recv_app_request.
  assert (S : forall r, dres [m] n (send_message n cid r)).
  { intros r. apply dres_of_gres, send_message_g. exact I. }
  destruct (get_conn n cid) as [c|]; [|apply dres_of_gres, gres_refl].
  destruct (m_drealm m) as [| |realm]; try apply S.
  destruct (route_lookup n realm) as [entries|]; [|apply S].
  destruct (List.find _ entries) as [[[i|] l]|]; try apply S.
  destruct (handler_raises m).
  - (* delivered, the handler raises, the 5012 answer is queued on the same connection *)
    cbv zeta.
    match goal with |- context [send_message ?x cid ?a] =>
      pose proof (send_message_frame x cid a) as [F Fw]; pose proof (send_message_out x cid a) as O;
      destruct (send_message x cid a) as [n2 o] end.
    cbn [fst snd] in *. subst o.
    split; [eapply frame0_trans; [|exact F]; apply frame0_same; reflexivity|].
    split; [constructor; [exact I|constructor; [exact I|constructor]]|].
    intros h k H. apply Fw in H. cbn [n_peer_waiting set_waiting] in H. apply pw_has_add in H.
    destruct H as [H|[_ ->]]; [left; exact H|]. right. exists i, m. split; [left; reflexivity|].
    split; [left; reflexivity|reflexivity].
  - split; [apply frame0_same; reflexivity|]. split; [constructor; [exact I|constructor]|].
    cbn [fst snd n_peer_waiting set_waiting]. intros h k H. apply pw_has_add in H.
    destruct H as [H|[_ ->]]; [left; exact H|]. right. exists i, m. split; [left; reflexivity|].
    split; [left; reflexivity|reflexivity].
Qed.

Lemma receive_message_d n cid m : dres [m] n (receive_message n cid m).
Proof.
  unfold receive_message. cbv zeta.
  match goal with |- context [g_validate (n_cfg ?x)] => set (n0 := x) end.
  assert (F0 : frame n n0).
  { unfold n0. destruct (m_origin m); [apply frame_refl| |]; (destruct (m_req m); [apply frame_same; reflexivity|apply frame_refl]). }
  clearbody n0. apply (dres_pre _ _ _ _ F0).
  assert (S : forall r, dres [m] n0 (send_message n0 cid r)).
  { intros r. apply dres_of_gres, send_message_g. exact I. }
  destruct (if m_req m && g_validate (n_cfg n0) then m_missing m else []); [|apply S].
  match goal with |- context [if ?b then send_message _ _ _ else _] => destruct b end; [apply S|].
  destruct (m_req m), (m_cmd m).
  - destruct (m_origin m); [apply S|apply S|]. apply dres_of_gres, recv_cer_g.
  - apply dres_of_gres. unfold recv_dwr. apply send_message_g. exact I.
  - apply dres_of_gres, recv_dpr_g.
  - apply recv_app_request_d.
  - apply dres_of_gres, recv_cea_g.
  - apply dres_of_gres. unfold recv_dwa. apply gres_nil. apply frame_upd_conn.
    intros c. destruct (cstate_eqb (c_state c) SReadyWaitDwa); reflexivity.
  - apply dres_of_gres, recv_dpa_g.
  - apply dres_of_gres, recv_app_answer_g.
Qed.

Lemma dispatch_all_d cid ms : forall n, dres ms n (dispatch_all n cid ms).
Proof.
  induction ms as [|m r IH]; intros n; cbn [dispatch_all]; [apply dres_of_gres, gres_refl|].
  assert (D : dres [m] n (dispatch n cid m)).
  { unfold dispatch. destruct (get_conn n cid) as [c|]; [|apply dres_of_gres, gres_refl].
    destruct (gate_passes c m); [apply receive_message_d|apply dres_of_gres, gres_refl]. }
  destruct (dispatch n cid m) as [n1 o1]. pose proof (IH n1) as D2. destruct (dispatch_all n1 cid r) as [n2 o2].
  change (m :: r) with ([m] ++ r)%list. eapply dres_app; eassumption.
Qed.

(* ================================================================================== *)
(* 9. every event                                                                     *)
(* ================================================================================== *)
Lemma frame_next n n' :
  n_peers n' = n_peers n -> n_peer_waiting n' = n_peer_waiting n -> n_next_cid n' = S (n_next_cid n) ->
  (n_conns n' = n_conns n \/ exists c, n_conns n' = (n_conns n ++ [c])%list /\ c_id c = n_next_cid n) ->
  frame n n'.
Proof.
  intros Hp Hw Hn Hc. split; [split|].
  - unfold pmap. rewrite Hp. reflexivity.
  - split; [lia|]. intros i Hi. destruct Hc as [Hc|[c [Hc Hid]]]; rewrite Hc in Hi; [left; exact Hi|].
    rewrite List.map_app in Hi. apply List.in_app_or in Hi. destruct Hi as [Hi|[<-|[]]]; [left; exact Hi|right; lia].
  - intros h k H. rewrite Hw in H. exact H.
Qed.

Lemma then_settle (P : output -> Prop) pm n n1 o1 ds :
  sysP P -> dialP pm P -> pmap n = pm -> gres P n (n1, o1) ->
  gres P n (let '(n2, o2) := settle' n1 ds in (n2, (o1 ++ o2)%list)).
Proof.
  intros HP HD Hpm G.
  assert (Hpm1 : pmap n1 = pm). { rewrite <- Hpm. apply (gres_pmap _ _ _ G). }
  pose proof (settle'_g P pm n1 ds HP HD Hpm1) as G2. destruct (settle' n1 ds) as [n2 o2].
  eapply gres_app; eassumption.
Qed.

Lemma then_settle_app (P : output -> Prop) pm n n1 o1 ds :
  sysP P -> dialP pm P -> pmap n = pm -> gres P n (n1, o1) ->
  gres P n (let '(n2, o2) := settle_app' n1 ds in (n2, (o1 ++ o2)%list)).
Proof.
  intros HP HD Hpm G.
  assert (Hpm1 : pmap n1 = pm). { rewrite <- Hpm. apply (gres_pmap _ _ _ G). }
  pose proof (settle_app'_g P pm n1 ds HP HD Hpm1) as G2. destruct (settle_app' n1 ds) as [n2 o2].
  eapply gres_app; eassumption.
Qed.

Lemma step_other_g n ds e :
  (forall cid ms, e <> ERecv cid ms) -> gres (dialok (pmap n)) n (step n ds e).
Proof.
  intros Hne. set (pm := pmap n). set (P := dialok pm).
  assert (HP : sysP P) by apply sysP_dialok. assert (HD : dialP pm P) by apply dialP_dialok.
  assert (Hpm : pmap n = pm) by reflexivity. clearbody pm.
  pose proof HP as [HQ [HC HS]].
  destruct e as [hbh0|cid ms|cid|cid hard|cid ok|cid b|dt|i m|i m realm pick timeout|force|tclose tend|].
  - (* EAccept *)
    cbn [step]. destruct (n_stopping n).
    + split; [|constructor; [exact I|constructor]]. apply frame_next; try reflexivity. left. reflexivity.
    + cbv zeta. match goal with |- context [settle' ?x ds] => set (n2 := x) end.
      assert (F : frame n n2).
      { apply frame_next; try reflexivity. right. eexists. split; reflexivity. }
      eapply gres_pre; [exact F|]. apply (settle'_g P pm); auto.
  - exfalso. eapply Hne. reflexivity.
  - (* EPeerClose *)
    cbn [step]. pose proof (close_conn_g P n cid R_GONE (HC _ _)) as G. destruct (close_conn n cid R_GONE) as [n1 o1].
    apply (then_settle P pm); auto.
  - (* EReadErr *)
    cbn [step].
    assert (G : gres P n (if hard then close_conn n cid R_SOCKET_FAIL else (n, []))).
    { destruct hard; [apply close_conn_g, HC|apply gres_refl]. }
    destruct (if hard then close_conn n cid R_SOCKET_FAIL else (n, [])) as [n1 o1].
    apply (then_settle P pm); auto.
  - (* EConnDone *)
    cbn [step]. destruct (get_conn n cid) as [c|]; [|apply gres_refl].
    destruct (cstate_eqb (c_state c) SConnecting); [|apply gres_refl].
    destruct ok.
    + cbv zeta. match goal with |- context [send_cer ?x cid] => set (n2 := x) end.
      assert (F : frame n n2).
      { unfold n2. eapply frame_trans; [apply (frame_upd_conn n cid (fun c0 => set_cstate c0 SConnected)); reflexivity|].
        match goal with |- context [find_conn_peer ?a ?b] => destruct (find_conn_peer a b) as [p|] end; [|apply frame_refl].
        apply frame_upd_peer. reflexivity. }
      clearbody n2.
      pose proof (send_cer_g P n2 cid HP) as G3. destruct (send_cer n2 cid) as [n3 o3].
      assert (G3' : gres P n (n3, o3)) by (eapply gres_pre; eassumption).
      assert (Hpm3 : pmap n3 = pm). { rewrite <- Hpm. apply (gres_pmap _ _ _ G3'). }
      pose proof (io_iteration_g P pm n3 ds HP HD Hpm3) as G4. destruct (io_iteration n3 ds) as [[n4 o4] ds4].
      cbn [fst] in G4.
      assert (G4' : gres P n (n4, (o3 ++ o4)%list)) by (eapply gres_app; eassumption).
      pose proof (then_settle P pm n n4 (o3 ++ o4)%list ds4 HP HD Hpm G4') as G5.
      destruct (settle' n4 ds4) as [n5 o5]. rewrite <- List.app_assoc in G5. exact G5.
    + pose proof (close_conn_g P n cid R_FAILED_CONNECT (HC _ _)) as G.
      destruct (close_conn n cid R_FAILED_CONNECT) as [n1 o1]. apply (then_settle P pm); auto.
  - (* EStall *)
    cbn [step]. destruct (get_conn n cid) as [c|]; [|apply gres_refl].
    cbv zeta. set (n1 := set_conns n (upd_conn (n_conns n) cid (fun c0 => set_csock c0 (c_sock_open c0) b (c_workers c0)))).
    assert (F : frame n n1) by (apply frame_upd_conn; reflexivity).
    destruct b; [apply gres_nil, F|]. destruct (c_out c); [apply gres_nil, F|].
    eapply gres_pre; [exact F|]. apply (settle'_g P pm); auto.
  - (* ETick *)
    rewrite step_tick. apply (wake_g P pm); auto; try apply frame_refl; try constructor.
  - (* EAppAnswer *)
    cbn [step]. pose proof (route_answer_frame n m) as F. destruct (route_answer n m) as [[cid|] n1]; cbn [snd] in F.
    + pose proof (send_message_g P n1 cid m I) as G. destruct (send_message n1 cid m) as [n2 o2].
      apply (then_settle_app P pm); auto. eapply gres_pre; eassumption.
    + split; [exact F|constructor; [exact I|constructor]].
  - (* EAppRequest *)
    rewrite step_app_request. destruct (req_core _ _ ds i m realm pick timeout) as [n' outs] eqn:E.
    assert (F0 : frame n (fst (e2e_prep n m))).
    { unfold e2e_prep. destruct (o_e2e m =? 0); [apply frame_same; reflexivity|apply frame_refl]. }
    apply req_core_shape in E. destruct E as [[-> ->]|E].
    + split; [exact F0|constructor; [exact I|constructor]].
    + destruct E as (usable & p & cid & c & m' & n4 & rest & _ & _ & _ & _ & _ & -> & Hs & Hrest & H9 & _ & _ & _ & _ & _ & _ & _ & F4).
      pose proof (settle_app'_sys n4 ds) as [F5 _]. rewrite Hs in F5. cbn [fst] in F5.
      split; [eapply frame_trans; [exact F0|]; eapply frame_trans; eassumption|].
      cbn [snd]. constructor; [exact I|].
      assert (E : pmap (fst (e2e_prep n m)) = pm). { rewrite <- Hpm. apply F0. }
      rewrite E in Hrest. eapply List.Forall_impl; [|exact Hrest]. apply sysout_dialok.
  - (* EStop *)
    rewrite step_stop. cbv zeta. set (n0 := set_misc n true (n_next_cid n) (n_e2e n)).
    assert (F : frame n n0) by (apply frame_same; reflexivity).
    destruct force; [apply gres_nil, F|].
    pose proof (stop_go_g P (List.map c_id (n_conns n0)) (fun _ _ => I) n0 [] n F (List.Forall_nil _)) as G.
    destruct (stop_go (List.map c_id (n_conns n0)) n0 []) as [n1 o1]. apply (then_settle P pm); auto.
  - (* EStopFinish *)
    rewrite step_stop_finish. cbv zeta. set (n0 := set_time n tclose (n_io_deadline n)).
    assert (F : frame n n0) by (apply frame_same; reflexivity).
    pose proof (finish_go_g P (List.map c_id (n_conns n0)) HC n0 [] n F (List.Forall_nil _)) as G.
    destruct (finish_go (List.map c_id (n_conns n0)) n0 []) as [n1 o1].
    eapply gres_post; [exact G|]. apply frame_same; reflexivity.
  - (* EStart *)
    rewrite step_start.
    pose proof (start_go_g P pm (List.map p_name (n_peers n)) HP HD n ds [] n Hpm (frame_refl n) (List.Forall_nil _)) as G.
    destruct (start_go (List.map p_name (n_peers n)) n ds []) as [[n1 o1] ds1]. cbn [fst] in G.
    apply (then_settle P pm); auto.
Qed.

Lemma step_recv_d n ds cid ms c0 :
  get_conn n cid = Some c0 ->
  frame0 n (fst (step n ds (ERecv cid ms))) /\
  List.Forall (dialok (pmap n)) (snd (step n ds (ERecv cid ms))) /\
  forall h k, pw_has (n_peer_waiting (fst (step n ds (ERecv cid ms)))) h k ->
     pw_has (n_peer_waiting n) h k \/
     exists i m, List.In m ms /\ List.In (ODeliver i m) (snd (step n ds (ERecv cid ms))) /\ k = (m_hbh m, m_e2e m).
Proof.
  intros Hc. cbn [step]. rewrite Hc.
  set (pm := pmap n). set (P := dialok pm).
  assert (HP : sysP P) by apply sysP_dialok. assert (HD : dialP pm P) by apply dialP_dialok.
  assert (Hpm : pmap n = pm) by reflexivity. clearbody pm.
  pose proof (io_iteration_g P pm n ds HP HD Hpm) as G1. destruct (io_iteration n ds) as [[n1 o1] ds1]. cbn [fst] in G1.
  assert (F2 : frame n1 (upd_last_read n1 cid)) by (apply frame_upd_conn; reflexivity).
  pose proof (dispatch_all_d cid ms (upd_last_read n1 cid)) as D. destruct (dispatch_all (upd_last_read n1 cid) cid ms) as [n3 o3].
  destruct G1 as [[F1 W1] O1]. destruct F2 as [F2 W2]. destruct D as (F3 & O3 & W3). cbn [fst snd] in *.
  assert (F13 : frame0 n n3) by (eapply frame0_trans; [exact F1|]; eapply frame0_trans; eassumption).
  assert (Hpm3 : pmap n3 = pm). { rewrite <- Hpm. apply F13. }
  pose proof (settle'_g P pm n3 ds1 HP HD Hpm3) as G4. destruct (settle' n3 ds1) as [n4 o4].
  destruct G4 as [[F4 W4] O4]. cbn [fst snd] in *.
  split; [eapply frame0_trans; eassumption|]. split.
  - apply List.Forall_app. split; [exact O1|]. apply List.Forall_app. split; [|exact O4].
    eapply List.Forall_impl; [|exact O3]. apply nodial_dialok.
  - intros h k H. apply W4 in H. destruct (W3 h k H) as [H'|(i & m & Hm & Hd & Hk)].
    + left. apply W1, W2, H'.
    + right. exists i, m. split; [exact Hm|]. split; [|exact Hk].
      apply List.in_or_app. right. apply List.in_or_app. left. exact Hd.
Qed.

Lemma event_cases e : (exists cid ms, e = ERecv cid ms) \/ (forall cid ms, e <> ERecv cid ms).
Proof. destruct e; try (right; intros; discriminate). left. eauto. Qed.

(* what every event leaves alone *)
Theorem step_inv n ds e n' outs :
  step n ds e = (n', outs) ->
  frame0 n n' /\ List.Forall (dialok (pmap n)) outs /\
  forall h k, pw_has (n_peer_waiting n') h k ->
    pw_has (n_peer_waiting n) h k \/
    exists cid ms c0 i m, e = ERecv cid ms /\ get_conn n cid = Some c0 /\ List.In m ms /\
                          List.In (ODeliver i m) outs /\ k = (m_hbh m, m_e2e m).
Proof.
  intros Hs. destruct (event_cases e) as [(cid & ms & ->)|Hne].
  - destruct (get_conn n cid) as [c0|] eqn:Hc.
    + pose proof (step_recv_d n ds cid ms c0 Hc) as (F & O & W). rewrite Hs in F, O, W. cbn [fst snd] in *.
      split; [exact F|]. split; [exact O|]. intros h k H. destruct (W h k H) as [H'|(i & m & Hm & Hd & Hk)]; [left; exact H'|].
      right. exists cid, ms, c0, i, m. repeat split; assumption.
    + cbn [step] in Hs. rewrite Hc in Hs. injection Hs as <- <-.
      split; [apply frame0_refl|]. split; [constructor|]. intros h k H. left. exact H.
  - pose proof (step_other_g n ds e Hne) as [[F W] O]. rewrite Hs in F, W, O. cbn [fst snd] in *.
    split; [exact F|]. split; [exact O|]. intros h k H. left. apply W, H.
Qed.

(* C09: waiting entries only come from delivered requests *)
Theorem C09_entry_from_delivery n ds e n' outs h hbh e2e :
  step n ds e = (n', outs) ->
  ~ pw_has (n_peer_waiting n) h (hbh, e2e) -> pw_has (n_peer_waiting n') h (hbh, e2e) ->
  exists cid ms c0 i m,
    e = ERecv cid ms /\ get_conn n cid = Some c0 /\ List.In m ms /\ List.In (ODeliver i m) outs /\
    m_hbh m = hbh /\ m_e2e m = e2e.
Proof.
  intros Hs Hno Hyes. destruct (step_inv _ _ _ _ _ Hs) as (_ & _ & W).
  destruct (W _ _ Hyes) as [H|(cid & ms & c0 & i & m & He & Hc & Hm & Hd & Hk)]; [contradiction|].
  exists cid, ms, c0, i, m. injection Hk as -> ->. repeat split; assumption.
Qed.

Lemma pmap_get_peer n n' nm p :
  pmap n' = pmap n -> get_peer n nm = Some p ->
  exists p', get_peer n' nm = Some p' /\ p_persistent p' = p_persistent p /\ p_name p' = p_name p.
Proof.
  unfold pmap, get_peer. generalize (n_peers n') as l'. induction (n_peers n) as [|a l IH]; intros l' E H; [discriminate|].
  destruct l' as [|a' l']; [discriminate|]. cbn [List.map] in E. injection E as E1 E2 E3. cbn [List.find] in *.
  rewrite E1. destruct (String.eqb (p_name a) nm).
  - injection H as <-. exists a'. repeat split; assumption.
  - apply IH; assumption.
Qed.

(* C12: the names and the persistence flags of the configured peers never change *)
Theorem persistent_stable n ds e n' outs :
  step n ds e = (n', outs) ->
  List.map (fun p => (p_name p, p_persistent p)) (n_peers n') = List.map (fun p => (p_name p, p_persistent p)) (n_peers n) /\
  forall nm p, get_peer n nm = Some p ->
               exists p', get_peer n' nm = Some p' /\ p_persistent p' = p_persistent p.
Proof.
  intros Hs. destruct (step_inv _ _ _ _ _ Hs) as ([E _] & _ & _). split; [exact E|].
  intros nm p Hp. destruct (pmap_get_peer _ _ _ _ E Hp) as (p' & H1 & H2 & _). exists p'. split; assumption.
Qed.

(* C12: only persistent peers are ever dialled, whatever the event *)
Theorem C12_never_nonpersistent n ds e n' outs nm :
  step n ds e = (n', outs) -> List.In (ODial nm) outs ->
  exists p, get_peer n nm = Some p /\ p_persistent p = true.
Proof.
  intros Hs Hin. destruct (step_inv _ _ _ _ _ Hs) as (_ & O & _).
  rewrite List.Forall_forall in O. apply O in Hin. cbn [dialok] in Hin. rewrite pers_in_pmap in Hin.
  destruct (get_peer n nm) as [p|]; [|discriminate]. exists p. split; [reflexivity|exact Hin].
Qed.

(* connection ids are below the connection counter: an invariant of every event *)
Definition cid_fresh (n : node) : Prop := forall c, List.In c (n_conns n) -> (c_id c < n_next_cid n)%nat.

Lemma cids_fresh n n' : cids n n' -> cid_fresh n -> cid_fresh n'.
Proof.
  intros [H1 H2] Hf c Hc. destruct (H2 (c_id c) (List.in_map c_id _ _ Hc)) as [H|H]; [|lia].
  apply List.in_map_iff in H. destruct H as [c1 [E Hc1]]. apply Hf in Hc1. lia.
Qed.

Theorem cid_fresh_step n ds e n' outs : step n ds e = (n', outs) -> cid_fresh n -> cid_fresh n'.
Proof. intros Hs. destruct (step_inv _ _ _ _ _ Hs) as ([_ C] & _ & _). apply cids_fresh, C. Qed.

(* ================================================================================== *)
(* 10. C12: who is dialled at a wake-up                                               *)
(* ================================================================================== *)
Lemma connect_to_peer_frame n nm h res : frame n (fst (connect_to_peer n nm h res)).
Proof.
  apply (connect_to_peer_g0 (fun _ => True)); [|intros; exact I].
  split; [intros; exact I|]. split; intros; exact I.
Qed.

Lemma send_message_keeps n cid m :
  n_peers (fst (send_message n cid m)) = n_peers n /\
  n_stopping (fst (send_message n cid m)) = n_stopping n /\ n_now (fst (send_message n cid m)) = n_now n.
Proof.
  unfold send_message, queue_out. cbn [fst]. destruct (o_req m); [repeat split; reflexivity|].
  unfold record_answer.
  match goal with |- context [List.find ?f (n_origin_waiting ?x)] => destruct (List.find f (n_origin_waiting x)) as [[[[k9 a] b] o]|] end;
    destruct (get_conn n cid); repeat split; reflexivity.
Qed.

Lemma own_request_keeps n cid c :
  n_peers (fst (own_request n cid c)) = n_peers n /\
  n_stopping (fst (own_request n cid c)) = n_stopping n /\ n_now (fst (own_request n cid c)) = n_now n.
Proof. unfold own_request. destruct (get_conn n cid); repeat split; reflexivity. Qed.

Lemma send_cer_keeps n cid :
  n_peers (fst (send_cer n cid)) = n_peers n /\
  n_stopping (fst (send_cer n cid)) = n_stopping n /\ n_now (fst (send_cer n cid)) = n_now n.
Proof.
  unfold send_cer. pose proof (own_request_keeps n cid CE) as (A1 & A2 & A3).
  destruct (own_request n cid CE) as [n1 m]. cbn [fst] in *.
  pose proof (send_message_keeps n1 cid m) as (B1 & B2 & B3). repeat split; congruence.
Qed.

Lemma send_cer_out n cid : exists m, snd (send_cer n cid) = [OQueue cid m].
Proof.
  unfold send_cer. destruct (own_request n cid CE) as [n1 m]. exists m. apply send_message_out.
Qed.

Lemma remove_conn_keeps n cid r :
  n_stopping (remove_conn n cid r) = n_stopping n /\ n_now (remove_conn n cid r) = n_now n.
Proof.
  unfold remove_conn. destruct (get_conn n cid) as [c|]; [|split; reflexivity].
  cbn [n_stopping n_now set_apps set_tables set_waiting].
  destruct (find_conn_peer n c) as [p|]; [destruct (p_conn p) as [k|]; [destruct (Nat.eqb k cid)|]|]; split; reflexivity.
Qed.

Lemma remove_conn_peer_other n cid r c nm' :
  get_conn n cid = Some c -> (forall p, find_conn_peer n c = Some p -> p_name p <> nm') ->
  get_peer (remove_conn n cid r) nm' = get_peer n nm'.
Proof.
  intros Hc Hp. unfold remove_conn. rewrite Hc. unfold get_peer. cbn [n_peers set_apps set_tables set_waiting].
  destruct (find_conn_peer n c) as [p|]; [|reflexivity].
  destruct (p_conn p) as [k|]; [|reflexivity]. destruct (Nat.eqb k cid); [|reflexivity].
  cbn [n_peers set_peers set_conns]. apply find_upd_peer_other; [reflexivity|]. apply Hp. reflexivity.
Qed.

Lemma fresh_find_none n : cid_fresh n -> List.find (by_cid (n_next_cid n)) (n_conns n) = None.
Proof.
  intros Hf. destruct (List.find (by_cid (n_next_cid n)) (n_conns n)) as [c|] eqn:E; [|reflexivity].
  apply find_cid_id in E. destruct E as [E Hin]. apply Hf in Hin. lia.
Qed.

Lemma find_app_single_other l k c : c_id c <> k -> List.find (by_cid k) (l ++ [c])%list = List.find (by_cid k) l.
Proof.
  intros Hne. induction l as [|a l IH]; cbn [List.app List.find].
  - unfold by_cid. destruct (Nat.eqb (c_id c) k) eqn:E; [apply Nat.eqb_eq in E; contradiction|reflexivity].
  - destruct (by_cid k a); [reflexivity|exact IH].
Qed.

Lemma send_message_get_conn_other n cid m k :
  k <> cid -> get_conn (fst (send_message n cid m)) k = get_conn n k.
Proof.
  intros Hk. unfold get_conn. destruct (send_message_conns n cid m) as [E _]. rewrite E.
  apply find_upd_conn_other; [reflexivity|congruence].
Qed.

Lemma own_request_get_conn_other n cid c k :
  k <> cid -> get_conn (fst (own_request n cid c)) k = get_conn n k.
Proof.
  intros Hk. unfold own_request. destruct (get_conn n cid) as [cn|]; [|reflexivity]. cbn [fst].
  unfold get_conn. cbn [n_conns set_misc set_conns]. apply find_upd_conn_other; [reflexivity|congruence].
Qed.

Lemma send_cer_get_conn_other n cid k : k <> cid -> get_conn (fst (send_cer n cid)) k = get_conn n k.
Proof.
  intros Hk. unfold send_cer. pose proof (own_request_get_conn_other n cid CE k Hk) as A.
  destruct (own_request n cid CE) as [n1 m]. cbn [fst] in A. rewrite <- A. apply send_message_get_conn_other, Hk.
Qed.

Lemma remove_conn_get_conn_other n cid r k : k <> cid -> get_conn (remove_conn n cid r) k = get_conn n k.
Proof.
  intros Hk. unfold remove_conn. destruct (get_conn n cid) as [c|] eqn:Hc; [|reflexivity].
  unfold get_conn. cbn [n_conns set_apps set_tables set_waiting].
  match goal with |- List.find _ (n_conns ?x) = _ =>
    assert (E : n_conns x = List.filter (fun x0 => negb (Nat.eqb (c_id x0) cid)) (n_conns n)) end.
  { destruct (find_conn_peer n c) as [p|]; [destruct (p_conn p) as [k0|]; [destruct (Nat.eqb k0 cid)|]|]; reflexivity. }
  rewrite E. apply find_filter_keep. intros x Hx. apply Nat.eqb_eq in Hx.
  destruct (Nat.eqb (c_id x) cid) eqn:E2; [apply Nat.eqb_eq in E2; congruence|reflexivity].
Qed.

(* C12: dialling a peer touches that peer's record only, leaves every existing connection
   alone (the new one is numbered n_next_cid n), and dials nobody else *)
Theorem connect_to_peer_touches n nm h res n' outs :
  cid_fresh n -> connect_to_peer n nm h res = (n', outs) ->
  (forall nm', nm' <> nm -> get_peer n' nm' = get_peer n nm') /\
  (forall k, k <> n_next_cid n -> get_conn n' k = get_conn n k) /\
  n_stopping n' = n_stopping n /\ n_now n' = n_now n /\
  (forall x, List.In (ODial x) outs -> x = nm) /\
  (forall p, get_peer n nm = Some p -> p_conn p = None -> p_has_addr p = true -> List.In (ODial nm) outs).
Proof.
  intros Hf. unfold connect_to_peer.
  destruct (get_peer n nm) as [p|] eqn:Ep;
    [|intros H; injection H as <- <-; repeat split; try reflexivity; [intros x []|intros; discriminate]].
  destruct (p_conn p) as [k0|] eqn:Ek;
    [intros H; injection H as <- <-; repeat split; try reflexivity; [intros x []|intros q E; injection E as <-; congruence]|].
  destruct (p_has_addr p) eqn:Ea; cbn [negb];
    [|intros H; injection H as <- <-; repeat split; try reflexivity; [intros x []|intros q E; injection E as <-; congruence]].
  cbv zeta.
  match goal with |- context [close_conn ?x _ _] => set (n3 := x) end.
  set (cid := n_next_cid n). set (c := new_conn cid false SConnecting nm (n_now n) h).
  set (f := fun p0 : peer => set_pconn p0 (Some cid) None (Some (n_now n)) (p_lastdisc p0)).
  assert (P3 : forall nm', nm' <> nm -> get_peer n3 nm' = get_peer n nm').
  { intros nm' Hne. unfold get_peer. cbn [n3 n_peers set_peers set_tables set_misc set_conns].
    apply find_upd_peer_other; [reflexivity|congruence]. }
  assert (C3 : forall k, k <> cid -> get_conn n3 k = get_conn n k).
  { intros k Hk. unfold get_conn. cbn [n3 n_conns set_peers set_tables set_misc set_conns].
    apply find_app_single_other. cbn [c_id new_conn]. fold cid. congruence. }
  assert (S3 : n_stopping n3 = n_stopping n) by reflexivity.
  assert (N3 : n_now n3 = n_now n) by reflexivity.
  assert (G3 : get_conn n3 cid = Some c).
  { unfold get_conn. cbn [n3 n_conns set_peers set_tables set_misc set_conns]. fold cid. fold c.
    rewrite find_app_r; [|apply fresh_find_none, Hf]. cbn [List.find]. unfold by_cid. cbn [c c_id new_conn].
    rewrite Nat.eqb_refl. reflexivity. }
  assert (Q3 : forall q, find_conn_peer n3 c = Some q -> p_name q = nm).
  { intros q. unfold find_conn_peer. cbn [c c_node_name new_conn].
    assert (E : get_peer n3 nm = Some (f p)).
    { unfold get_peer. cbn [n3 n_peers set_peers set_tables set_misc set_conns]. apply (find_upd_peer_same _ nm f p); [reflexivity|exact Ep]. }
    rewrite E. intros H. injection H as <-. cbn [f p_name set_pconn]. apply (get_peer_name _ _ _ Ep). }
  clearbody n3. destruct res.
  - match goal with |- context [send_cer ?x ?cc] => set (n4 := x) end.
    pose proof (send_cer_keeps n4 cid) as (K1 & K2 & K3). pose proof (send_cer_out n4 cid) as [m0 Ho].
    pose proof (send_cer_get_conn_other n4 cid) as K4.
    destruct (send_cer n4 cid) as [n5 o]. cbn [fst snd] in *. intros H. injection H as <- <-. subst o.
    split; [intros nm' Hne; unfold get_peer; rewrite K1; apply (P3 nm' Hne)|].
    split.
    { intros k Hk. rewrite (K4 k Hk). rewrite <- (C3 k Hk). unfold get_conn. cbn [n4 n_conns set_conns].
      apply find_upd_conn_other; [reflexivity|congruence]. }
    split; [rewrite K2; exact S3|]. split; [rewrite K3; exact N3|]. split.
    + intros x [Hx|[Hx|[]]]; [congruence|discriminate].
    + intros _ _ _ _. left. reflexivity.
  - unfold close_conn. rewrite G3. intros H. injection H as <- <-.
    pose proof (remove_conn_keeps n3 cid R_SOCKET_FAIL) as [K2 K3].
    split.
    { intros nm' Hne. rewrite <- (P3 nm' Hne). apply (remove_conn_peer_other _ _ _ c); [exact G3|].
      intros q Hq. rewrite (Q3 q Hq). congruence. }
    split; [intros k Hk; rewrite remove_conn_get_conn_other by exact Hk; apply C3, Hk|].
    split; [rewrite K2; exact S3|]. split; [rewrite K3; exact N3|]. split.
    + intros x [Hx|[Hx|[]]]; [congruence|discriminate].
    + intros _ _ _ _. left. reflexivity.
  - intros H. injection H as <- <-. split; [exact P3|]. split; [exact C3|]. split; [exact S3|]. split; [exact N3|].
    split.
    + intros x [Hx|[]]. congruence.
    + intros _ _ _ _. left. reflexivity.
Qed.

(* eligibility for a reconnect at this wake-up, evaluated in n *)
Definition elig (n : node) (nm : String.string) : bool :=
  match get_peer n nm with Some p => wants_reconnect n p && p_has_addr p | None => false end.

Lemma elig_transfer n n' nm :
  n_stopping n' = n_stopping n -> n_now n' = n_now n -> get_peer n' nm = get_peer n nm -> elig n' nm = elig n nm.
Proof.
  intros Hs Hn Hp. unfold elig. rewrite Hp. destruct (get_peer n nm) as [p|]; [|reflexivity].
  unfold wants_reconnect. rewrite Hs, Hn. reflexivity.
Qed.

Lemma reconnect_all_dials names :
  forall n ds, cid_fresh n -> List.NoDup names ->
  forall nm, List.In (ODial nm) (snd (fst (reconnect_all n names ds))) <-> List.In nm names /\ elig n nm = true.
Proof.
  induction names as [|nm0 r IH]; intros n ds Hf Hnd nm; cbn [reconnect_all].
  - cbn [fst snd List.In]. tauto.
  - inversion Hnd as [|? ? Hnot Hnd']; subst.
    assert (Skip : elig n nm0 = false ->
                   (List.In (ODial nm) (snd (fst (reconnect_all n r ds))) <-> List.In nm (nm0 :: r) /\ elig n nm = true)).
    { intros He. rewrite (IH n ds Hf Hnd' nm). cbn [List.In]. split; [intros [H1 H2]; split; [right; exact H1|exact H2]|].
      intros [[<-|H1] H2]; [congruence|split; assumption]. }
    assert (Dial : forall h res dr, elig n nm0 = true ->
              (List.In (ODial nm) (snd (fst (let '(n1, o1) := connect_to_peer n nm0 h res in
                                             let '(n2, o2, d2) := reconnect_all n1 r dr in (n2, (o1 ++ o2)%list, d2))))
               <-> List.In nm (nm0 :: r) /\ elig n nm = true)).
    { intros h res dr He.
      pose proof (connect_to_peer_frame n nm0 h res) as F.
      destruct (connect_to_peer n nm0 h res) as [n1 o1] eqn:Ec. cbn [fst] in F.
      pose proof (connect_to_peer_touches n nm0 h res n1 o1 Hf Ec) as (T1 & _ & T3 & T4 & T5 & T6).
      assert (Hf1 : cid_fresh n1) by (eapply cids_fresh; [apply F|exact Hf]).
      pose proof (IH n1 dr Hf1 Hnd' nm) as IH1. destruct (reconnect_all n1 r dr) as [[n2 o2] d2]. cbn [fst snd] in *.
      assert (Hd : List.In (ODial nm0) o1).
      { unfold elig in He. destruct (get_peer n nm0) as [p|] eqn:Ep; [|discriminate].
        apply andb_true_iff in He. destruct He as [Hw Ha]. apply wants_reconnect_spec in Hw.
        apply (T6 p); [reflexivity|apply Hw|exact Ha]. }
      split.
      - intros H. apply List.in_app_or in H. destruct H as [H|H].
        + apply T5 in H. subst nm. split; [left; reflexivity|exact He].
        + apply IH1 in H. destruct H as [H1 H2]. split; [right; exact H1|].
          assert (Hne : nm <> nm0) by (intros ->; contradiction).
          rewrite <- H2. symmetry. apply elig_transfer; [exact T3|exact T4|apply T1, Hne].
      - intros [[<-|H1] H2]; apply List.in_or_app; [left; exact Hd|right].
        apply IH1. split; [exact H1|].
        assert (Hne : nm <> nm0) by (intros ->; contradiction).
        rewrite <- H2. apply elig_transfer; [exact T3|exact T4|apply T1, Hne]. }
    unfold elig in Skip, Dial. destruct (get_peer n nm0) as [p|]; [|apply Skip; reflexivity].
    destruct (wants_reconnect n p && p_has_addr p); [|apply Skip; reflexivity].
    destruct ds as [|[h0 res] dr]; apply Dial; reflexivity.
Qed.

(* C12: at a wake-up exactly the peers that want a reconnect (in the node as it is when the
   pass starts) and have an address are dialled *)
Theorem C12_reconnect_iff n names ds n' outs ds' :
  cid_fresh n -> List.NoDup names -> reconnect_all n names ds = (n', outs, ds') ->
  forall nm, List.In (ODial nm) outs <->
             List.In nm names /\
             exists p, get_peer n nm = Some p /\ wants_reconnect n p = true /\ p_has_addr p = true.
Proof.
  intros Hf Hnd Hr nm. pose proof (reconnect_all_dials names n ds Hf Hnd nm) as H. rewrite Hr in H. cbn [fst snd] in H.
  rewrite H. unfold elig. split.
  - intros [H1 H2]. split; [exact H1|]. destruct (get_peer n nm) as [p|]; [|discriminate].
    apply andb_true_iff in H2. exists p. split; [reflexivity|exact H2].
  - intros [H1 (p & Hp & Hw & Ha)]. split; [exact H1|]. rewrite Hp, Hw, Ha. reflexivity.
Qed.

(* C09 (corollary): with unique connection ids, get_conn yields the connection the answer went to *)
Corollary C09_to_requester_conn n ds i a n' outs cid m :
  List.NoDup (List.map c_id (n_conns n)) ->
  step n ds (EAppAnswer i a) = (n', outs) -> List.In (OQueue cid m) outs -> o_req m = false ->
  m = a /\ exists c l, get_conn n cid = Some c /\ is_ready_state (c_state c) = true /\ List.In (c_host c, l) (n_peer_waiting n) /\ mem_zz (o_hbh a, o_e2e a) l = true.
Proof.
  intros Hnd Hs Hin Hq. destruct (C09_to_requester _ _ _ _ _ _ _ _ Hs Hin Hq) as (E & (c & l & Hc & Hid & Hr & Hl & Hm) & _).
  split; [exact E|]. exists c, l. subst cid. split; [apply get_conn_of_in; assumption|]. repeat split; assumption.
Qed.

(* C12 (corollary): after a DPR the connection is not offered to any application request *)
Corollary C12_dpr_not_routed n cid m c n' outs i realm l p :
  get_conn n cid = Some c -> recv_dpr n cid m = (n', outs) ->
  route_request n' i realm = Some l -> List.In p l -> p_conn p <> Some cid.
Proof.
  intros Hc Hr Hl Hp Hk. destruct (C12_dpr _ _ _ _ _ _ Hc Hr) as (_ & (c' & Hc' & _ & Hnr & _) & _).
  destruct (route_request_member _ _ _ _ _ Hl Hp) as (_ & _ & _ & _ & k & c1 & Hk1 & Hc1 & Hr1).
  rewrite Hk in Hk1. injection Hk1 as <-. rewrite Hc' in Hc1. injection Hc1 as <-. congruence.
Qed.

(* C12: the persistence flags are stable along a whole run *)
Theorem persistent_stable_run evs : forall n acc n' outs,
  List.fold_left (fun acc de => let '(n, outs) := acc in
                                let '(n', o) := step n (fst de) (snd de) in (n', (outs ++ [o])%list)) evs (n, acc) = (n', outs) ->
  pmap n' = pmap n.
Proof.
  induction evs as [|[ds e] r IH]; intros n acc n' outs H; cbn [List.fold_left fst snd] in H.
  - injection H as <- _. reflexivity.
  - destruct (step n ds e) as [n1 o1] eqn:Es. apply IH in H. rewrite H.
    destruct (step_inv _ _ _ _ _ Es) as ([E _] & _). exact E.
Qed.

Corollary persistent_stable_run' n evs : pmap (fst (run n evs)) = pmap n.
Proof. unfold run. destruct (List.fold_left _ evs (n, [])) as [n' outs] eqn:E. cbn [fst]. eapply persistent_stable_run, E. Qed.

(* the waiting lists never hold a pair twice (not needed for C09_second_fails, since pw_remove
   drops every occurrence, but it is the reason one removal is "the" removal) *)
Definition pw_lists_nodup (pw : list (String.string * list (Z * Z))) : Prop :=
  forall h l, List.In (h, l) pw -> List.NoDup l.

Lemma nodup_snoc {A} (l : list A) x : List.NoDup l -> ~ List.In x l -> List.NoDup (l ++ [x])%list.
Proof.
  induction l as [|a l IH]; intros Hnd Hx; cbn [List.app]; [constructor; [intros []|constructor]|].
  inversion Hnd as [|? ? Ha Hl]; subst. constructor.
  - intros H. apply List.in_app_or in H. destruct H as [H|[H|[]]]; [contradiction|]. apply Hx. left. symmetry. exact H.
  - apply IH; [exact Hl|]. intros H. apply Hx. right. exact H.
Qed.

Lemma nodup_filter {A} (f : A -> bool) (l : list A) : List.NoDup l -> List.NoDup (List.filter f l).
Proof.
  induction l as [|a l IH]; intros Hnd; cbn [List.filter]; [constructor|].
  inversion Hnd as [|? ? Ha Hl]; subst. destruct (f a); [|apply IH, Hl].
  constructor; [|apply IH, Hl]. intros H. apply List.filter_In in H. apply Ha, H.
Qed.

Lemma pw_add_nodup pw host k : pw_lists_nodup pw -> pw_lists_nodup (pw_add pw host k).
Proof.
  intros Hpw h l Hin. unfold pw_add in Hin.
  destruct (List.existsb (fun e => String.eqb (fst e) host) pw).
  - apply List.in_map_iff in Hin. destruct Hin as [[h1 l1] [E Hin]]. cbn [fst snd] in E.
    destruct (String.eqb h1 host); [|injection E as <- <-; eapply Hpw, Hin].
    destruct (mem_zz k l1) eqn:Em; injection E as <- <-; [eapply Hpw, Hin|].
    apply nodup_snoc; [eapply Hpw, Hin|]. intros H. apply mem_zz_In in H. congruence.
  - apply List.in_app_or in Hin. destruct Hin as [Hin|[E|[]]]; [eapply Hpw, Hin|].
    injection E as <- <-. constructor; [intros []|constructor].
Qed.

Lemma pw_remove_nodup pw host k : pw_lists_nodup pw -> pw_lists_nodup (pw_remove pw host k).
Proof.
  intros Hpw h l Hin. unfold pw_remove in Hin. apply List.in_map_iff in Hin.
  destruct Hin as [[h1 l1] [E Hin]]. cbn [fst snd] in E.
  destruct (String.eqb h1 host); injection E as <- <-; [|eapply Hpw, Hin].
  apply nodup_filter. eapply Hpw, Hin.
Qed.

(* ================================================================================== *)
(* 11. examples on a small concrete node (hypotheses are satisfiable, conclusions compute) *)
(* ================================================================================== *)
Module Examples.
Import String.
Local Open Scope string_scope.
Definition ex_cfg : cfg :=
  {| g_host := "n.local"; g_realm := "local"; g_cea := 4; g_cer := 4; g_dwa := 4; g_idle := 20; g_wakeup := 6;
     g_rsize := 10%nat; g_validate := true; g_state_id := 1 |}.
Definition ex_peer (nm : string) (pers : bool) (conn : option nat) (lastdisc : option Z) : peer :=
  {| p_name := nm; p_realm := "r"; p_has_addr := true; p_persistent := pers; p_always := false;
     p_cea := None; p_cer := None; p_dwa := None; p_idle := None; p_rwait := 30;
     p_conn := conn; p_reason := None; p_lastconn := None; p_lastdisc := lastdisc; p_reqs := 0 |}.
Definition ex_conn (id : nat) (host : string) (st : cstate) : conn :=
  {| c_id := id; c_recv := true; c_state := st; c_node_name := host; c_host := host; c_last_read := 100;
     c_last_dwr := 0; c_auth := [1]; c_acct := []; c_hbh := 7; c_sock_open := true; c_stalled := false;
     c_out := []; c_workers := true |}.
Definition ex_app : app := {| a_id := 1; a_auth := true; a_acct := false; a_ready := true; a_waiting := [] |}.
Definition ex_node : node :=
  {| n_cfg := ex_cfg; n_now := 100; n_io_deadline := 106; n_stopping := false;
     n_peers := [ex_peer "p1" true (Some 0%nat) None; ex_peer "p2" true (Some 1%nat) None;
                 ex_peer "p3" true None (Some 50); ex_peer "p4" false None (Some 50)];
     n_conns := [ex_conn 0 "p1" SReady; ex_conn 1 "p2" SReady]; n_next_cid := 2;
     n_half_ready := []; n_socket_peers := [0; 1]%nat;
     n_routes := [("r", [(RApp 0, ["p1"; "p2"])])]; n_apps := [ex_app];
     n_app_waiting := []; n_peer_waiting := [("p1", [(5, 9)])]; n_origin_waiting := []; n_sent_answers := [];
     n_e2e := 50 |}.
Definition ex_ans : omsg :=
  {| o_cmd := App 272; o_req := false; o_app := 1; o_hbh := 5; o_e2e := 9; o_result := Some 2001; o_failed := []; o_tag := 3 |}.
Definition ex_req_in : msg :=
  {| m_cmd := App 272; m_req := true; m_p := true; m_e := false; m_t := false; m_app := 1; m_hbh := 77; m_e2e := 88;
     m_origin := Present "p1"; m_drealm := Present "r"; m_result := Absent; m_missing := []; m_has_failed_avp_slot := true;
     m_auth := []; m_acct := []; m_tag := 4 |}.
Definition ex_req_out : omsg :=
  {| o_cmd := App 272; o_req := true; o_app := 0; o_hbh := 0; o_e2e := 0; o_result := None; o_failed := []; o_tag := 5 |}.
Definition ex_dpr : msg :=
  {| m_cmd := DP; m_req := true; m_p := false; m_e := false; m_t := false; m_app := 0; m_hbh := 21; m_e2e := 22;
     m_origin := Present "p1"; m_drealm := Absent; m_result := Absent; m_missing := []; m_has_failed_avp_slot := true;
     m_auth := []; m_acct := []; m_tag := 6 |}.

Definition ex_cer2 (e2e : Z) : omsg :=
  {| o_cmd := CE; o_req := true; o_app := 0; o_hbh := 1; o_e2e := e2e; o_result := None; o_failed := []; o_tag := 0 |}.

(* C09_to_requester / C09_answer_shape: the answer goes to connection 0 (host p1, ready, pair (5,9)
   waiting); the same macro step also dials p3 and queues the CER for it *)
Example ex_C09_to_requester :
  snd (step ex_node [(1, DialInProgress)] (EAppAnswer 0 ex_ans)) = [OQueue 0 ex_ans; ODial "p3"; OSend 0 ex_ans]
  /\ snd (step ex_node [] (EAppAnswer 0 ex_ans))
     = [OQueue 0 ex_ans; ODial "p3"; OQueue 2 (ex_cer2 51); OSend 0 ex_ans; OSend 2 (ex_cer2 51)]
  /\ List.length (List.filter is_answer_queue (snd (step ex_node [] (EAppAnswer 0 ex_ans)))) = 1%nat
  /\ get_conn ex_node 0 = Some (ex_conn 0 "p1" SReady)
  /\ n_peer_waiting ex_node = [("p1", [(5, 9)])].
Proof. vm_compute. repeat split. Qed.

(* C09_entry_from_delivery / C09_entry_host: the pair (77,88) appears under p1 with the delivery *)
Example ex_C09_entry_from_delivery :
  List.In (ODeliver 0 ex_req_in) (snd (step ex_node [] (ERecv 0 [ex_req_in])))
  /\ n_peer_waiting (fst (step ex_node [] (ERecv 0 [ex_req_in]))) = [("p1", [(5, 9); (77, 88)])]
  /\ snd (recv_app_request ex_node 0 ex_req_in) = [ODeliver 0 ex_req_in]
  /\ n_peer_waiting (fst (recv_app_request ex_node 0 ex_req_in)) = [("p1", [(5, 9); (77, 88)])].
Proof. vm_compute. split; [right; right; left; reflexivity|repeat split]. Qed.

(* C09_raise_leaves_no_entry: the same request with a raising handler is delivered and answered 5012; no pair stays *)
Definition ex_req_raise : msg :=
  {| m_cmd := App 272; m_req := true; m_p := true; m_e := false; m_t := false; m_app := 1; m_hbh := 77; m_e2e := 88;
     m_origin := Present "p1"; m_drealm := Present "r"; m_result := Absent; m_missing := []; m_has_failed_avp_slot := true;
     m_auth := []; m_acct := []; m_tag := TAG_HANDLER_RAISES |}.
Example ex_C09_raise_leaves_no_entry :
  handler_raises ex_req_raise = true /\ handler_raises ex_req_in = false
  /\ snd (recv_app_request ex_node 0 ex_req_raise) = [ODeliver 0 ex_req_raise; OQueue 0 (answer_of ex_req_raise (Some 5012) [])]
  /\ n_peer_waiting (fst (recv_app_request ex_node 0 ex_req_raise)) = [("p1", [(5, 9)])]
  /\ n_peer_waiting (fst (step ex_node [] (ERecv 0 [ex_req_raise]))) = [("p1", [(5, 9)])].
Proof. vm_compute. repeat split. Qed.

(* C09_gone_is_error: an answer nobody waits for *)
Example ex_C09_gone_is_error :
  (forall h l, List.In (h, l) (n_peer_waiting ex_node) -> mem_zz (o_hbh ex_req_out, o_e2e ex_req_out) l = false)
  /\ snd (step ex_node [] (EAppAnswer 0 ex_req_out)) = [ONotRoutable].
Proof. split; [|vm_compute; reflexivity]. intros h l [H|[]]. injection H as <- <-. vm_compute. reflexivity. Qed.

(* C09_second_fails / C09_second_is_error: the second submission is refused *)
Example ex_C09_second_fails :
  fst (route_answer ex_node ex_ans) = Some 0%nat
  /\ n_peer_waiting (snd (route_answer ex_node ex_ans)) = [("p1", [])]
  /\ snd (step (fst (step ex_node [] (EAppAnswer 0 ex_ans))) [] (EAppAnswer 0 ex_ans)) = [ONotRoutable].
Proof. vm_compute. repeat split. Qed.

(* the old C09_unroutable_releases_origin ("no entry with the pair is left whenever a host was
   waiting and the answer is not routable") is false now: with no connection of the waiting host
   the table is left alone, and an entry of ANOTHER connection with the same pair stays anyway *)
Definition ex_node_noconn : node :=
  set_waiting (set_conns ex_node []) [] (n_peer_waiting ex_node) [(0%nat, 5, 9, "o")] [].
Example ex_C09_unroutable_releases_origin_refuted :
  ~ (forall n m,
       fst (route_answer n m) = None ->
       List.find (fun e => mem_zz (o_hbh m, o_e2e m) (snd e)) (n_peer_waiting n) <> None ->
       forall k h e x, List.In (k, h, e, x) (n_origin_waiting (snd (route_answer n m))) ->
                       ~ (h = o_hbh m /\ e = o_e2e m)).
Proof.
  intros H. apply (H ex_node_noconn ex_ans) with (k := 0%nat) (h := 5) (e := 9) (x := "o").
  - vm_compute. reflexivity.
  - vm_compute. discriminate.
  - vm_compute. left. reflexivity.
  - split; reflexivity.
Qed.

(* C09_removed_on_close *)
Example ex_C09_removed_on_close : n_peer_waiting (remove_conn ex_node 0 R_GONE) = [].
Proof. vm_compute. reflexivity. Qed.

(* route_request_spec: both ready peers of application 0's list; unknown realm *)
Example ex_route_request_spec :
  route_request ex_node 0 (Present "r") = Some [ex_peer "p1" true (Some 0%nat) None; ex_peer "p2" true (Some 1%nat) None]
  /\ chosen_names ex_node 0 (Present "r") = Some ["p1"; "p2"]
  /\ route_request ex_node 0 (Present "nowhere") = None
  /\ route_request ex_node 0 Absent = None.
Proof. vm_compute. repeat split. Qed.

Definition ex_req_sent : omsg :=
  {| o_cmd := App 272; o_req := true; o_app := 1; o_hbh := 8; o_e2e := 51; o_result := None; o_failed := []; o_tag := 5 |}.

(* C10_eligible / C10_request_shape / C10_hbh_fresh: pick 1 of 2 -> p2 -> connection 1; hop-by-hop id 8 = seq_next 7 *)
Example ex_C10_eligible :
  snd (step ex_node [(1, DialInProgress)] (EAppRequest 0 ex_req_out (Present "r") 1 10))
  = [OQueue 1 ex_req_sent; ODial "p3"; OSend 1 ex_req_sent]
  /\ choose [ex_peer "p1" true (Some 0%nat) None; ex_peer "p2" true (Some 1%nat) None] 1 = Some (ex_peer "p2" true (Some 1%nat) None).
Proof. vm_compute. repeat split. Qed.

Example ex_C10_hbh_fresh :
  o_hbh ex_req_out = 0 /\ o_hbh ex_req_sent = seq_next (c_hbh (ex_conn 1 "p2" SReady))
  /\ option_map c_hbh (get_conn (fst (step ex_node [(1, DialInProgress)] (EAppRequest 0 ex_req_out (Present "r") 1 10))) 1) = Some 8
  /\ seq_next 4294967295 = 1.
Proof. vm_compute. repeat split. Qed.

(* C10_none_is_error *)
Example ex_C10_none_is_error :
  route_request ex_node 0 (Present "nowhere") = None
  /\ snd (step ex_node [] (EAppRequest 0 ex_req_out (Present "nowhere") 1 10)) = [ONotRoutable].
Proof. vm_compute. repeat split. Qed.

Definition ex_node_sent : node := fst (step ex_node [(1, DialInProgress)] (EAppRequest 0 ex_req_out (Present "r") 1 10)).
Definition ex_ans_in : msg :=
  {| m_cmd := App 272; m_req := false; m_p := true; m_e := false; m_t := false; m_app := 1; m_hbh := 8; m_e2e := 51;
     m_origin := Present "p2"; m_drealm := Absent; m_result := Present 2001; m_missing := []; m_has_failed_avp_slot := false;
     m_auth := []; m_acct := []; m_tag := 9 |}.

(* C10_correlation / C10_duplicate_ignored: the answer goes to the blocked caller of application 0; its copy is ignored *)
Example ex_C10_correlation :
  aw_lookup ex_node_sent ex_ans_in = Some 0%nat
  /\ snd (recv_app_answer ex_node_sent ex_ans_in) = [OAnswerTo 0 ex_ans_in]
  /\ snd (recv_app_answer (fst (recv_app_answer ex_node_sent ex_ans_in)) ex_ans_in) = []
  /\ snd (recv_app_answer ex_node ex_ans_in) = [].
Proof. vm_compute. repeat split. Qed.

(* C12_dpr *)
Example ex_C12_dpr :
  snd (recv_dpr ex_node 0 ex_dpr) = [OQueue 0 (answer_of ex_dpr (Some 2001) [])]
  /\ option_map c_state (get_conn (fst (recv_dpr ex_node 0 ex_dpr)) 0) = Some SDisconnecting
  /\ option_map p_reason (get_peer (fst (recv_dpr ex_node 0 ex_dpr)) "p1") = Some (Some R_DPR)
  /\ route_request (fst (recv_dpr ex_node 0 ex_dpr)) 0 (Present "r") = Some [ex_peer "p2" true (Some 1%nat) None].
Proof. vm_compute. repeat split. Qed.

(* wants_reconnect_spec *)
Example ex_wants_reconnect_spec :
  wants_reconnect ex_node (ex_peer "p3" true None (Some 50)) = true
  /\ wants_reconnect ex_node (ex_peer "p3" true None (Some 90)) = false
  /\ wants_reconnect ex_node (ex_peer "p4" false None (Some 50)) = false
  /\ wants_reconnect ex_node (ex_peer "p1" true (Some 0%nat) (Some 50)) = false.
Proof. vm_compute. repeat split. Qed.

(* C12_reconnect_iff / C12_never_nonpersistent / C12_dial_needs_no_connection / persistent_stable *)
Example ex_C12_reconnect_iff :
  snd (fst (reconnect_all ex_node ["p1"; "p2"; "p3"; "p4"] [(1, DialInProgress)])) = [ODial "p3"]
  /\ elig ex_node "p3" = true /\ elig ex_node "p1" = false /\ elig ex_node "p4" = false.
Proof. vm_compute. repeat split. Qed.

Example ex_C12_never_nonpersistent :
  snd (step ex_node [(1, DialInProgress); (1, DialInProgress); (1, DialInProgress)] EStart) = [ODial "p3"]
  /\ snd (step ex_node [(1, DialInProgress)] (ETick 10)) = [ODial "p3"]
  /\ pmap (fst (step ex_node [(1, DialRefused)] (ETick 10))) = pmap ex_node.
Proof. vm_compute. repeat split. Qed.

Example ex_C12_dial_needs_no_connection : connect_to_peer ex_node "p1" 0 DialOk = (ex_node, []).
Proof. vm_compute. reflexivity. Qed.

Example ex_cid_fresh : cid_fresh ex_node.
Proof. intros c [<-|[<-|[]]]; vm_compute; lia. Qed.
End Examples.

(* ================================================================================== *)
(* 12. assumptions                                                                    *)
(* ================================================================================== *)
Print Assumptions C09_answer_shape.
Print Assumptions C09_to_requester.
Print Assumptions C09_to_requester_conn.
Print Assumptions C09_entry_from_delivery.
Print Assumptions C09_entry_host.
Print Assumptions C09_raise_leaves_no_entry.
Print Assumptions pw_has_remove_add.
Print Assumptions C09_gone_is_error.
Print Assumptions C09_second_fails.
Print Assumptions C09_second_is_error.
Print Assumptions C09_removed_on_close.
Print Assumptions C09_unroutable_releases_origin.
Print Assumptions C09_unroutable_no_conn_keeps_origin.
Print Assumptions Examples.ex_C09_unroutable_releases_origin_refuted.
Print Assumptions pw_add_nodup.
Print Assumptions pw_remove_nodup.
Print Assumptions route_request_spec.
Print Assumptions route_request_member.
Print Assumptions C10_request_shape.
Print Assumptions C10_eligible.
Print Assumptions C10_none_is_error.
Print Assumptions C10_hbh_fresh.
Print Assumptions seq_next_is_next.
Print Assumptions seq_next_neq.
Print Assumptions C10_correlation.
Print Assumptions C10_duplicate_ignored.
Print Assumptions C12_dpr.
Print Assumptions C12_dpr_not_routed.
Print Assumptions wants_reconnect_spec.
Print Assumptions connect_to_peer_touches.
Print Assumptions C12_reconnect_iff.
Print Assumptions step_inv.
Print Assumptions C12_never_nonpersistent.
Print Assumptions persistent_stable.
Print Assumptions persistent_stable_run'.
Print Assumptions C12_dial_needs_no_connection.
Print Assumptions cid_fresh_step.
