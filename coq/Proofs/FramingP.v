(* C05: the stream reassembly loop of a peer connection (Model/Framing.v).
   - rloop_progress / rloop_suffix: the repaired loop never runs out of fuel, whatever the buffer holds;
   - feed_never_spins, feed_trichotomy: after any input the reader waits (short buffer) or has closed;
   - C05_chunking: chunking invariance -- exactly the decodable frames, once, in stream order;
   - C05_skip_undecodable: an undecodable frame does not affect the others;
   - rloop_old_spins_refuted, feed_old_cut_dependent_refuted: the two defects of the loop before the repair. *)
From DV Require Import Prelude.Base Proofs.BaseP Model.Wire Model.Framing Proofs.WireP Proofs.CostP.

(* ====================================================================== *)
(* list / header helpers                                                   *)
(* ====================================================================== *)
Lemma app_eq_app_le {A} (c : list A) : forall a b d,
  a ++ b = c ++ d -> (List.length c <= List.length a)%nat -> exists m, a = c ++ m /\ d = m ++ b.
Proof.
  induction c as [|x c IH]; intros a b d H Hlen.
  - exists a. split; [reflexivity|]. cbn [app] in H. symmetry; exact H.
  - destruct a as [|y a]; [cbn [List.length] in Hlen; lia|].
    cbn [app] in H. inversion H as [[Hxy Hrest]]; subst.
    cbn [List.length] in Hlen.
    destruct (IH a b d Hrest) as (m & -> & ->); [lia|].
    exists m. split; reflexivity.
Qed.

Lemma blen_zero_nil (b : bytes) : blen b = 0 -> b = [].
Proof. destruct b as [|x b]; [reflexivity|]. rewrite blen_cons. pose proof (blen_nonneg b). lia. Qed.

Lemma btake_app_exact (f m : bytes) : btake (f ++ m) (blen f) = f.
Proof. unfold btake, blen. rewrite Nat2Z.id. apply firstn_app_exact. reflexivity. Qed.

Lemma bdrop_app_exact (f m : bytes) : bdrop (f ++ m) (blen f) = m.
Proof. unfold bdrop, blen. rewrite Nat2Z.id. apply skipn_app_exact. reflexivity. Qed.

Lemma unpack_uint_app bs x r rest :
  unpack_uint bs = Ok (x, r) -> unpack_uint (bs ++ rest) = Ok (x, r ++ rest).
Proof.
  intros H. apply unpack_uint_inv in H as (a & b & c & d & -> & ->).
  cbn [app]. apply unpack_uint_cons4.
Qed.

(* the header decoder only looks at the first 20 bytes: bytes that follow do not change the header *)
Lemma dec_hdr_app bs h r rest : dec_hdr bs = Ok (h, r) -> dec_hdr (bs ++ rest) = Ok (h, r ++ rest).
Proof.
  unfold dec_hdr.
  destruct (unpack_uint bs) as [[vl r1]|e] eqn:E1; cbn [bind]; [|discriminate].
  rewrite (unpack_uint_app _ _ _ rest E1); cbn [bind].
  destruct (unpack_uint r1) as [[fc r2]|e] eqn:E2; cbn [bind]; [|discriminate].
  rewrite (unpack_uint_app _ _ _ rest E2); cbn [bind].
  destruct (unpack_uint r2) as [[app r3]|e] eqn:E3; cbn [bind]; [|discriminate].
  rewrite (unpack_uint_app _ _ _ rest E3); cbn [bind].
  destruct (unpack_uint r3) as [[hbh r4]|e] eqn:E4; cbn [bind]; [|discriminate].
  rewrite (unpack_uint_app _ _ _ rest E4); cbn [bind].
  destruct (unpack_uint r4) as [[e2e r5]|e] eqn:E5; cbn [bind]; [|discriminate].
  rewrite (unpack_uint_app _ _ _ rest E5); cbn [bind].
  intros H. inversion H; subst. reflexivity.
Qed.

Lemma dec_hdr_ok_len bs h r : dec_hdr bs = Ok (h, r) -> 20 <= blen bs.
Proof.
  intros H. apply dec_hdr_suffix in H as (pre & -> & Hp). rewrite blen_app.
  pose proof (blen_nonneg r). lia.
Qed.

Lemma dec_hdr_ge20 bs : 20 <= blen bs -> exists h r, dec_hdr bs = Ok (h, r).
Proof.
  intros H.
  do 20 (destruct bs as [|? bs]; [unfold blen in H; cbn [List.length] in H; lia|]).
  unfold dec_hdr. rewrite !unpack_uint_cons4. cbn [bind].
  rewrite !unpack_uint_cons4. cbn [bind].
  rewrite !unpack_uint_cons4. cbn [bind].
  rewrite !unpack_uint_cons4. cbn [bind].
  rewrite !unpack_uint_cons4. cbn [bind].
  eexists _, _. reflexivity.
Qed.

Lemma dec_hdr_err_len bs e : dec_hdr bs = Err e -> blen bs < 20.
Proof.
  intros H. destruct (Z.lt_ge_cases (blen bs) 20) as [Hlt|Hge]; [exact Hlt|].
  destruct (dec_hdr_ge20 bs Hge) as (h & r & E). rewrite E in H. discriminate.
Qed.

(* ... and conversely the header of a buffer with >= 20 bytes is the header of any extension of it *)
Lemma dec_hdr_of_app buf rest h y :
  20 <= blen buf -> dec_hdr (buf ++ rest) = Ok (h, y) -> exists x, dec_hdr buf = Ok (h, x).
Proof.
  intros H20 H. destruct (dec_hdr_ge20 buf H20) as (h' & x & E).
  pose proof (dec_hdr_app _ _ _ rest E) as E'. rewrite E' in H. inversion H; subst.
  exists x. exact E.
Qed.

(* ====================================================================== *)
Section FramingP.
Variable decodable : bytes -> bool.

(* a frame whose header length field equals its size (>= 20); the header is what dec_hdr
   reads from its first 20 bytes *)
Definition wf_frame (f : bytes) : Prop :=
  20 <= blen f /\ exists h r, dec_hdr f = Ok (h, r) /\ h_length h = blen f.

(* what must be delivered for a list of well-formed frames *)
Definition expected (frames : list bytes) : list bytes := List.filter decodable frames.

Lemma expected_nil : expected [] = [].
Proof. reflexivity. Qed.

Lemma expected_cons f l : expected (f :: l) = expected [f] ++ expected l.
Proof. unfold expected. cbn [filter]. destruct (decodable f); reflexivity. Qed.

Lemma expected_app a b : expected (a ++ b) = expected a ++ expected b.
Proof. unfold expected. apply filter_app. Qed.

(* ---------------------------------------------------------------------- *)
(* one iteration of the repaired loop, with the two "consume L bytes" branches merged *)
Definition rcont (f : nat) (buf' : bytes) (acc' : list bytes) : bytes * list bytes * rstatus :=
  if partial_header buf' then (buf', acc', Waiting) else rloop decodable f buf' acc'.

Lemma rloop_step f buf acc :
  rloop decodable (S f) buf acc =
  if blen buf =? 0 then (buf, acc, Waiting)
  else match dec_hdr buf with
       | Err _ => (buf, acc, Closed)
       | Ok (h, _) =>
           if blen buf <? h_length h then (buf, acc, Waiting)
           else if 20 <=? h_length h then
                  rcont f (bdrop buf (h_length h))
                        (if decodable (btake buf (h_length h)) then acc ++ [btake buf (h_length h)] else acc)
                else (buf, acc, Closed)
       end.
Proof.
  cbn [rloop]. destruct (blen buf =? 0); [reflexivity|].
  destruct (dec_hdr buf) as [[h x]|e]; [|reflexivity].
  destruct (blen buf <? h_length h); [reflexivity|].
  unfold frame_ok, rcont.
  destruct (20 <=? h_length h); cbn [andb]; [|reflexivity].
  destruct (decodable (btake buf (h_length h))); reflexivity.
Qed.

(* ---------------------------------------------------------------------- *)
(* 1. progress, for every buffer                                           *)
(* ---------------------------------------------------------------------- *)
Lemma bdrop_shorter (buf : bytes) L f :
  (List.length buf < S f)%nat -> (blen buf =? 0) = false -> (20 <=? L) = true ->
  (List.length (bdrop buf L) < f)%nat.
Proof.
  intros Hlen E0 E20. unfold bdrop. rewrite skipn_length. unfold blen in E0. lia.
Qed.

(* with fuel > |buf| the loop never runs out of fuel, and when it returns Waiting the buffer
   is shorter than a header or shorter than the length its header announces *)
Lemma rloop_inv : forall fuel buf acc, (List.length buf < fuel)%nat ->
  forall buf' acc' st, rloop decodable fuel buf acc = (buf', acc', st) ->
  st <> Spin /\
  (st = Waiting -> blen buf' < 20 \/ exists h x, dec_hdr buf' = Ok (h, x) /\ blen buf' < h_length h).
Proof.
  induction fuel as [|f IH]; intros buf acc Hlen buf' acc' st H; [lia|].
  rewrite rloop_step in H.
  destruct (blen buf =? 0) eqn:E0.
  { inversion H; subst. split; [discriminate|]. intros _. left. lia. }
  destruct (dec_hdr buf) as [[h x]|e] eqn:Eh.
  2:{ inversion H; subst. split; discriminate. }
  destruct (blen buf <? h_length h) eqn:El.
  { inversion H; subst. split; [discriminate|]. intros _. right. exists h, x. split; [exact Eh|lia]. }
  destruct (20 <=? h_length h) eqn:E20.
  2:{ inversion H; subst. split; discriminate. }
  unfold rcont in H.
  destruct (partial_header (bdrop buf (h_length h))) eqn:Ep.
  { inversion H; subst. split; [discriminate|]. intros _. left. unfold partial_header in Ep. lia. }
  eapply IH; [|exact H]. apply bdrop_shorter; assumption.
Qed.

Theorem rloop_progress : forall buf acc,
  let '(buf', acc', st) := rloop decodable (S (List.length buf)) buf acc in st <> Spin.
Proof.
  intros buf acc. destruct (rloop decodable (S (List.length buf)) buf acc) as [[b a] s] eqn:E.
  eapply rloop_inv in E; [apply E|lia].
Qed.

(* the returned buffer is a suffix of the input buffer; the accumulator only grows at its end
   (any fuel) *)
Theorem rloop_suffix : forall fuel buf acc buf' acc' st,
  rloop decodable fuel buf acc = (buf', acc', st) ->
  (exists pre, buf = pre ++ buf') /\ (exists d, acc' = acc ++ d).
Proof.
  induction fuel as [|f IH]; intros buf acc buf' acc' st H.
  { cbn [rloop] in H. inversion H; subst. split; [exists []; reflexivity|exists []; rewrite app_nil_r; reflexivity]. }
  assert (Hid : forall (b : bytes) (a : list bytes),
            (exists pre, b = pre ++ b) /\ (exists d, a = a ++ d)).
  { intros b a. split; [exists []; reflexivity|exists []; rewrite app_nil_r; reflexivity]. }
  rewrite rloop_step in H.
  destruct (blen buf =? 0); [inversion H; subst; apply Hid|].
  destruct (dec_hdr buf) as [[h x]|e]; [|inversion H; subst; apply Hid].
  destruct (blen buf <? h_length h); [inversion H; subst; apply Hid|].
  destruct (20 <=? h_length h); [|inversion H; subst; apply Hid].
  unfold rcont in H.
  assert (Hsplit : buf = btake buf (h_length h) ++ bdrop buf (h_length h)).
  { unfold btake, bdrop. symmetry. apply firstn_skipn. }
  set (acc1 := if decodable (btake buf (h_length h)) then acc ++ [btake buf (h_length h)] else acc) in H.
  assert (Hacc1 : exists d1, acc1 = acc ++ d1).
  { unfold acc1. destruct (decodable (btake buf (h_length h)));
      [eexists; reflexivity|exists []; rewrite app_nil_r; reflexivity]. }
  destruct Hacc1 as [d1 Hacc1].
  destruct (partial_header (bdrop buf (h_length h))).
  - inversion H; subst buf' acc' st. split; [exists (btake buf (h_length h)); exact Hsplit|].
    exists d1. exact Hacc1.
  - apply IH in H as [[pre Hp] [d Hd]]. split.
    + exists (btake buf (h_length h) ++ pre). rewrite <- app_assoc, <- Hp. exact Hsplit.
    + exists (d1 ++ d). rewrite Hd, Hacc1, app_assoc. reflexivity.
Qed.

(* ---------------------------------------------------------------------- *)
(* 2. the reader never spins                                               *)
(* ---------------------------------------------------------------------- *)
Theorem feed_never_spins : forall r chunk, r_spin r = false -> r_spin (feed decodable r chunk) = false.
Proof.
  intros r chunk Hs. unfold feed, feed_with.
  destruct (r_closed r || r_spin r); [exact Hs|].
  cbv zeta.
  destruct (blen (r_buf r ++ chunk) <? 20); [reflexivity|].
  pose proof (rloop_progress (r_buf r ++ chunk) (r_delivered r)) as Hp.
  destruct (rloop decodable (S (List.length (r_buf r ++ chunk))) (r_buf r ++ chunk) (r_delivered r))
    as [[b a] s].
  cbn [r_spin]. destruct s; [reflexivity|reflexivity|exfalso; apply Hp; reflexivity].
Qed.

Lemma feed_all_cons r c cs : feed_all decodable r (c :: cs) = feed_all decodable (feed decodable r c) cs.
Proof. reflexivity. Qed.

Lemma feed_all_nil r : feed_all decodable r [] = r.
Proof. reflexivity. Qed.

Lemma feed_all_never_spins_from : forall chunks r, r_spin r = false -> r_spin (feed_all decodable r chunks) = false.
Proof.
  induction chunks as [|c cs IH]; intros r Hs; [exact Hs|].
  rewrite feed_all_cons. apply IH. apply feed_never_spins. exact Hs.
Qed.

Theorem feed_all_never_spins : forall chunks, r_spin (feed_all decodable reader0 chunks) = false.
Proof. intros chunks. apply feed_all_never_spins_from. reflexivity. Qed.

(* ---------------------------------------------------------------------- *)
(* 3. waiting with a short buffer, or closed                               *)
(* ---------------------------------------------------------------------- *)
Definition settled (r : reader) : Prop :=
  r_closed r = true \/
  (r_spin r = false /\
   (blen (r_buf r) < 20 \/ exists h x, dec_hdr (r_buf r) = Ok (h, x) /\ blen (r_buf r) < h_length h)).

Lemma feed_settled r chunk : settled r -> settled (feed decodable r chunk).
Proof.
  intros Hr. unfold feed, feed_with.
  destruct (r_closed r || r_spin r) eqn:Ecs; [exact Hr|].
  cbv zeta.
  destruct (blen (r_buf r ++ chunk) <? 20) eqn:E20.
  { right. cbn [r_spin r_buf]. split; [reflexivity|]. left. lia. }
  destruct (rloop decodable (S (List.length (r_buf r ++ chunk))) (r_buf r ++ chunk) (r_delivered r))
    as [[b a] s] eqn:E.
  apply rloop_inv in E; [|lia]. destruct E as [Hns Hw].
  destruct s.
  - right. cbn [r_spin r_buf rstatus_eqb]. split; [reflexivity|]. apply Hw. reflexivity.
  - left. reflexivity.
  - exfalso. apply Hns. reflexivity.
Qed.

Lemma feed_all_settled : forall chunks r, settled r -> settled (feed_all decodable r chunks).
Proof.
  induction chunks as [|c cs IH]; intros r Hr; [exact Hr|].
  rewrite feed_all_cons. apply IH. apply feed_settled. exact Hr.
Qed.

Theorem feed_trichotomy : forall chunks,
  let r := feed_all decodable reader0 chunks in
  r_closed r = true \/
  (r_spin r = false /\
   (blen (r_buf r) < 20 \/ exists h x, dec_hdr (r_buf r) = Ok (h, x) /\ blen (r_buf r) < h_length h)).
Proof.
  intros chunks. apply (feed_all_settled chunks reader0).
  right. split; [reflexivity|]. left. cbn [r_buf reader0]. rewrite blen_nil. lia.
Qed.

(* ---------------------------------------------------------------------- *)
(* 4. chunking invariance                                                  *)
(* ---------------------------------------------------------------------- *)
(* the buffer holds a proper prefix of the next frame (nothing, when no frame is left) *)
Definition stable (buf : bytes) (todo : list bytes) : Prop :=
  match todo with [] => buf = [] | f :: _ => blen buf < blen f end.

(* the loop run on a buffer that is a prefix of a stream of well-formed frames (empty or holding
   at least a header): it consumes the maximal list of complete leading frames, delivers the
   decodable ones in order, and stops waiting with a proper prefix of the next frame *)
Lemma rloop_frames : forall fuel buf acc todo rest,
  Forall wf_frame todo -> buf ++ rest = concat todo -> partial_header buf = false ->
  (List.length buf < fuel)%nat ->
  exists done todo' buf',
    todo = done ++ todo' /\
    rloop decodable fuel buf acc = (buf', acc ++ expected done, Waiting) /\
    buf' ++ rest = concat todo' /\ stable buf' todo'.
Proof.
  induction fuel as [|f IH]; intros buf acc todo rest Hwf Hcat Hph Hlen; [lia|].
  rewrite rloop_step.
  destruct (blen buf =? 0) eqn:E0.
  { assert (Hb : buf = []) by (apply blen_zero_nil; lia). subst buf.
    exists [], todo, []. split; [reflexivity|]. split; [rewrite expected_nil, app_nil_r; reflexivity|].
    split; [exact Hcat|].
    destruct todo as [|fr todo1]; [reflexivity|].
    inversion Hwf as [|? ? Hfr Hwf1]; subst. destruct Hfr as [Hf20 _].
    cbn [stable]. rewrite blen_nil. lia. }
  assert (H20 : 20 <= blen buf) by (unfold partial_header in Hph; pose proof (blen_nonneg buf); lia).
  destruct todo as [|fr todo1].
  { cbn [concat] in Hcat. apply app_eq_nil in Hcat as [Hb _]. subst buf. rewrite blen_nil in H20. lia. }
  inversion Hwf as [|? ? Hfr Hwf1]; subst.
  destruct Hfr as (Hf20 & h & r0 & Hdh & HL).
  cbn [concat] in Hcat.
  assert (Hdb : exists x, dec_hdr buf = Ok (h, x)).
  { eapply dec_hdr_of_app; [exact H20|]. rewrite Hcat. apply dec_hdr_app. exact Hdh. }
  destruct Hdb as [x Hdb]. rewrite Hdb, HL.
  destruct (blen buf <? blen fr) eqn:El.
  { exists [], (fr :: todo1), buf. split; [reflexivity|].
    split; [rewrite expected_nil, app_nil_r; reflexivity|].
    split; [exact Hcat|]. cbn [stable]. lia. }
  destruct (20 <=? blen fr) eqn:E20; [|lia].
  destruct (app_eq_app_le fr buf rest (concat todo1) Hcat) as (m & Hbuf & Hm);
    [unfold blen in El; lia|].
  subst buf. rewrite btake_app_exact, bdrop_app_exact.
  assert (Hacc1 : (if decodable fr then acc ++ [fr] else acc) = acc ++ expected [fr]).
  { unfold expected. cbn [filter]. destruct (decodable fr); [reflexivity|rewrite app_nil_r; reflexivity]. }
  rewrite Hacc1. unfold rcont.
  destruct (partial_header m) eqn:Ep.
  { exists [fr], todo1, m. split; [reflexivity|]. split; [reflexivity|].
    split; [symmetry; exact Hm|].
    destruct todo1 as [|f2 todo2].
    - cbn [concat] in Hm. symmetry in Hm. apply app_eq_nil in Hm as [Hm0 _]. subst m.
      unfold partial_header in Ep. rewrite blen_nil in Ep. lia.
    - inversion Hwf1 as [|? ? Hf2 _]; subst. destruct Hf2 as [Hf220 _].
      cbn [stable]. unfold partial_header in Ep. lia. }
  destruct (IH m (acc ++ expected [fr]) todo1 rest Hwf1 (eq_sym Hm) Ep)
    as (done1 & todo' & buf' & Htodo & Hr & Hc & Hs).
  { rewrite app_length in Hlen. unfold blen in Hf20. lia. }
  subst todo1.
  exists (fr :: done1), todo', buf'. split; [reflexivity|].
  split; [|split; [exact Hc|exact Hs]].
  rewrite Hr. rewrite (expected_cons fr done1), app_assoc. reflexivity.
Qed.

Lemma feed_open r c : r_closed r = false -> r_spin r = false ->
  feed decodable r c =
  if blen (r_buf r ++ c) <? 20
  then {| r_buf := r_buf r ++ c; r_closed := false; r_delivered := r_delivered r; r_spin := false |}
  else let '(buf', acc, st) := rloop decodable (S (List.length (r_buf r ++ c))) (r_buf r ++ c) (r_delivered r) in
       {| r_buf := buf'; r_closed := rstatus_eqb st Closed; r_delivered := acc; r_spin := rstatus_eqb st Spin |}.
Proof. intros Hc Hs. unfold feed, feed_with. rewrite Hc, Hs. reflexivity. Qed.

(* the reader invariant, for any way of reaching the current state: `chunks` followed by the
   not-yet-received bytes `rest` complete the buffer to the frames `todo`.  After the reads the
   reader has handled a list `done` of complete leading frames and buffers a proper prefix of the
   next one *)
Lemma feed_all_frames : forall chunks r todo rest,
  Forall wf_frame todo -> r_closed r = false -> r_spin r = false ->
  r_buf r ++ concat chunks ++ rest = concat todo -> stable (r_buf r) todo ->
  let r' := feed_all decodable r chunks in
  exists done todo',
    todo = done ++ todo' /\
    r_delivered r' = r_delivered r ++ expected done /\
    r_buf r' ++ rest = concat todo' /\ stable (r_buf r') todo' /\
    r_closed r' = false /\ r_spin r' = false.
Proof.
  induction chunks as [|c cs IH]; intros r todo rest Hwf Hc Hs Hcat Hst.
  - cbn zeta. rewrite feed_all_nil. cbn [concat app] in Hcat.
    exists [], todo. split; [reflexivity|]. split; [rewrite expected_nil, app_nil_r; reflexivity|].
    split; [exact Hcat|]. split; [exact Hst|]. split; assumption.
  - cbn zeta. rewrite feed_all_cons.
    cbn [concat] in Hcat. rewrite <- app_assoc in Hcat. rewrite app_assoc in Hcat.
    rewrite (feed_open r c Hc Hs).
    destruct (blen (r_buf r ++ c) <? 20) eqn:E20.
    + (* still shorter than a header: the loop does not run *)
      apply (IH {| r_buf := r_buf r ++ c; r_closed := false; r_delivered := r_delivered r; r_spin := false |}
                todo rest); [exact Hwf|reflexivity|reflexivity|exact Hcat|].
      cbn [r_buf]. destruct todo as [|fr todo1].
      * cbn [concat] in Hcat. apply app_eq_nil in Hcat as [Hb _]. exact Hb.
      * inversion Hwf as [|? ? Hfr _]; subst. destruct Hfr as [Hf20 _]. cbn [stable]. lia.
    + destruct (rloop_frames (S (List.length (r_buf r ++ c))) (r_buf r ++ c) (r_delivered r) todo
                  (concat cs ++ rest) Hwf Hcat) as (done & todo1 & buf' & Htodo & Hr & Hcat' & Hst').
      { unfold partial_header. lia. }
      { lia. }
      rewrite Hr. cbn [rstatus_eqb]. subst todo.
      apply Forall_app in Hwf as [_ Hwf'].
      destruct (IH {| r_buf := buf'; r_closed := false; r_delivered := r_delivered r ++ expected done; r_spin := false |}
                   todo1 rest Hwf' eq_refl eq_refl Hcat' Hst')
        as (done2 & todo2 & Htodo1 & Hd & Hb & Hst2 & Hc' & Hs').
      cbn [r_delivered] in Hd. subst todo1.
      exists (done ++ done2), todo2. split; [rewrite app_assoc; reflexivity|].
      split; [rewrite Hd, expected_app, app_assoc; reflexivity|].
      split; [exact Hb|]. split; [exact Hst2|]. split; [exact Hc'|exact Hs'].
Qed.

(* the reader state as a function of the bytes received so far, however they were cut into reads:
   when the reads make up a prefix of the stream (`rest` still to come), the reader has delivered
   expected done for a list `done` of complete leading frames, and buffers a proper prefix of the
   next frame (nothing when no frame is left); `done` is the maximal such list because the buffer
   is shorter than the next frame *)
Theorem C05_chunking_prefix : forall frames chunks rest,
  Forall wf_frame frames -> List.concat chunks ++ rest = List.concat frames ->
  let r := feed_all decodable reader0 chunks in
  exists done todo,
    frames = done ++ todo /\ r_delivered r = expected done /\
    r_buf r ++ rest = List.concat todo /\
    match todo with [] => r_buf r = [] | f :: _ => blen (r_buf r) < blen f end /\
    r_closed r = false /\ r_spin r = false.
Proof.
  intros frames chunks rest Hwf Hcat.
  apply (feed_all_frames chunks reader0 frames rest Hwf eq_refl eq_refl Hcat).
  cbn [r_buf reader0]. destruct frames as [|fr fs]; [reflexivity|].
  inversion Hwf as [|? ? Hfr _]; subst. destruct Hfr as [Hf20 _]. cbn [stable]. rewrite blen_nil. lia.
Qed.

(* for any stream of well-formed frames and ANY way of cutting it into network reads (empty
   reads, cuts inside a header, reads spanning several frames): exactly the decodable frames are
   delivered, once each, in stream order; nothing is left over and the connection stays open *)
Theorem C05_chunking : forall frames chunks,
  Forall wf_frame frames -> List.concat chunks = List.concat frames ->
  let r := feed_all decodable reader0 chunks in
  r_delivered r = expected frames /\ r_buf r = [] /\ r_closed r = false /\ r_spin r = false.
Proof.
  intros frames chunks Hwf Hcat. cbn zeta.
  destruct (C05_chunking_prefix frames chunks [] Hwf) as (done & todo & Hfr & Hd & Hb & Hst & Hc & Hs).
  { rewrite app_nil_r. exact Hcat. }
  cbn zeta in Hd, Hb, Hst, Hc, Hs. rewrite app_nil_r in Hb.
  destruct todo as [|fr todo1].
  - rewrite app_nil_r in Hfr. subst done. repeat split; assumption.
  - exfalso. cbn [concat] in Hb. rewrite Hb, blen_app in Hst.
    pose proof (blen_nonneg (concat todo1)). lia.
Qed.

(* ---------------------------------------------------------------------- *)
(* 5. an undecodable frame is skipped without affecting the others         *)
(* ---------------------------------------------------------------------- *)
Theorem C05_skip_undecodable : forall fs1 bad fs2 chunks,
  Forall wf_frame (fs1 ++ bad :: fs2) -> decodable bad = false ->
  List.concat chunks = List.concat (fs1 ++ bad :: fs2) ->
  let r := feed_all decodable reader0 chunks in
  r_delivered r = expected (fs1 ++ fs2) /\ r_buf r = [] /\ r_closed r = false /\ r_spin r = false.
Proof.
  intros fs1 bad fs2 chunks Hwf Hbad Hcat.
  destruct (C05_chunking _ _ Hwf Hcat) as (Hd & Hb & Hc & Hs).
  cbn zeta. split; [|split; [exact Hb|split; [exact Hc|exact Hs]]].
  rewrite Hd, !expected_app, (expected_cons bad fs2).
  unfold expected at 2. cbn [filter]. rewrite Hbad. reflexivity.
Qed.

End FramingP.

(* ====================================================================== *)
(* 6. the loop before the repair: the two defects                          *)
(* ====================================================================== *)
(* (a) a header whose 3-byte length field is 0: the old loop "discards" 0 bytes for ever *)
Theorem rloop_old_spins_refuted :
  exists buf, let '(_, _, st) := rloop_old (fun _ => true) (S (List.length buf)) buf [] in st = Spin.
Proof.
  exists [1;0;0;0; 0;0;0;0; 0;0;0;0; 0;0;0;0; 0;0;0;0]. vm_compute. reflexivity.
Qed.

(* the repaired loop closes the connection on the same input *)
Example rloop_len0_closes :
  rloop (fun _ => true) 21 [1;0;0;0; 0;0;0;0; 0;0;0;0; 0;0;0;0; 0;0;0;0] [] =
  ([1;0;0;0; 0;0;0;0; 0;0;0;0; 0;0;0;0; 0;0;0;0], [], Closed).
Proof. vm_compute. reflexivity. Qed.

Definition ex_bad : bytes := [1;0;0;24; 128;0;1;1; 0;0;0;0; 0;0;0;1; 0;0;0;2; 9;9;9;9].
Definition ex_good : bytes := [1;0;0;20; 128;0;1;24; 0;0;0;0; 0;0;0;3; 0;0;0;4].
Definition ex_dec : bytes -> bool := fun f => blen f =? 20.

Lemma ex_bad_wf : wf_frame ex_bad.
Proof.
  split; [apply Z.leb_le; vm_compute; reflexivity|].
  eexists _, _. split; vm_compute; reflexivity.
Qed.

Lemma ex_good_wf : wf_frame ex_good.
Proof.
  split; [apply Z.leb_le; vm_compute; reflexivity|].
  eexists _, _. split; vm_compute; reflexivity.
Qed.

(* (b) the old discard path skipped the partial-header check: whether the frame behind an
   undecodable one is delivered depended on where the network cut the stream.  Cut after
   30 bytes (undecodable frame + 6 bytes of the next): connection closed, nothing delivered;
   cut after 24 bytes: the good frame is delivered and the connection stays open. *)
Theorem feed_old_cut_dependent_refuted :
  exists dec bad good c1 c2,
    wf_frame bad /\ wf_frame good /\ dec bad = false /\ dec good = true /\
    let s := bad ++ good in
    let ra := feed_all_old dec reader0 [firstn c1 s; skipn c1 s] in
    let rb := feed_all_old dec reader0 [firstn c2 s; skipn c2 s] in
    r_delivered ra <> r_delivered rb /\ r_closed ra <> r_closed rb.
Proof.
  exists ex_dec, ex_bad, ex_good, 30%nat, 24%nat.
  split; [exact ex_bad_wf|]. split; [exact ex_good_wf|].
  split; [vm_compute; reflexivity|]. split; [vm_compute; reflexivity|].
  vm_compute. split; discriminate.
Qed.

Example feed_old_cut_values :
  let s := ex_bad ++ ex_good in
  let ra := feed_all_old ex_dec reader0 [firstn 30 s; skipn 30 s] in
  let rb := feed_all_old ex_dec reader0 [firstn 24 s; skipn 24 s] in
  (r_delivered ra, r_closed ra) = ([], true) /\ (r_delivered rb, r_closed rb) = ([ex_good], false).
Proof. vm_compute. split; reflexivity. Qed.

(* the repaired reader on the same two cuts: same delivery, connection open *)
Example feed_cut_values :
  let s := ex_bad ++ ex_good in
  let ra := feed_all ex_dec reader0 [firstn 30 s; skipn 30 s] in
  let rb := feed_all ex_dec reader0 [firstn 24 s; skipn 24 s] in
  (r_delivered ra, r_closed ra) = ([ex_good], false) /\ (r_delivered rb, r_closed rb) = ([ex_good], false).
Proof. vm_compute. split; reflexivity. Qed.

(* ====================================================================== *)
(* 7. non-vacuity of C05_chunking                                          *)
(* ====================================================================== *)
(* two well-formed frames (24 and 20 bytes); three reads: 7 bytes (inside the first header),
   25 bytes (end of frame 1 and 8 bytes into the header of frame 2), the remaining 12 *)
Definition ex_chunks : list bytes :=
  let s := ex_bad ++ ex_good in [firstn 7 s; firstn 25 (skipn 7 s); skipn 32 s].

Example C05_chunking_nonvacuous :
  Forall wf_frame [ex_bad; ex_good] /\
  List.concat ex_chunks = List.concat [ex_bad; ex_good] /\
  (let r := feed_all (fun _ => true) reader0 ex_chunks in
   r_delivered r = [ex_bad; ex_good] /\ r_buf r = [] /\ r_closed r = false /\ r_spin r = false) /\
  (let r := feed_all ex_dec reader0 ex_chunks in
   r_delivered r = [ex_good] /\ r_buf r = [] /\ r_closed r = false /\ r_spin r = false).
Proof.
  split; [constructor; [exact ex_bad_wf|constructor; [exact ex_good_wf|constructor]]|].
  split; [vm_compute; reflexivity|].
  split; vm_compute; repeat split; reflexivity.
Qed.

(* the theorem instantiated on the example agrees with the computation *)
Example C05_chunking_instance :
  r_delivered (feed_all ex_dec reader0 ex_chunks) = expected ex_dec [ex_bad; ex_good].
Proof.
  apply (C05_chunking ex_dec [ex_bad; ex_good] ex_chunks).
  - constructor; [exact ex_bad_wf|constructor; [exact ex_good_wf|constructor]].
  - vm_compute. reflexivity.
Qed.

(* ====================================================================== *)
Print Assumptions rloop_progress.
Print Assumptions rloop_suffix.
Print Assumptions feed_never_spins.
Print Assumptions feed_all_never_spins.
Print Assumptions feed_trichotomy.
Print Assumptions C05_chunking.
Print Assumptions C05_chunking_prefix.
Print Assumptions C05_skip_undecodable.
Print Assumptions rloop_old_spins_refuted.
Print Assumptions feed_old_cut_dependent_refuted.
Print Assumptions C05_chunking_nonvacuous.
Print Assumptions C05_chunking_instance.
