(* Model of diameter.node.application.ThreadingApplication (C14): the receive queue, the bounded
   thread-slot queue, handler threads, the response queue and the two consumer threads, as a
   small-step transition system (one step = one queue operation of one thread), plus a
   deterministic "run to quiescence" used by the correspondence.  As repaired: handlers always
   report completion; consumers survive send failures. *)
From DV Require Import Prelude.Base.

Inductive houtcome : Set := HAnswer | HNone | HRaise.

Record tapp : Type := {
  t_max : nat;                     (* max_threads; 0 = unbounded *)
  t_recvq : list Z;                (* request ids waiting in _recv_msg_queue *)
  t_held : option Z;               (* the receive consumer holds this request, waiting for a slot *)
  t_slots : nat;                   (* items in _thread_slots *)
  t_running : list Z;              (* handler threads alive (request ids) *)
  t_respq : list (Z * option Z);   (* _resp_msg_queue: (request id, result code of the answer; None = no answer) *)
  t_recv_alive : bool; t_resp_alive : bool
}.

Inductive tout : Set :=
| TAnswer (id : Z) (code : Z)      (* send_answer succeeded: result code 2001 / 5012 / 3004 *)
| TUnroutable (id : Z).            (* send_answer raised NotRoutable: logged, nothing sent *)

Definition has_slot (a : tapp) : bool := Nat.eqb (t_max a) 0 || Nat.ltb (t_slots a) (t_max a).

(* environment-chosen facts enter through the step labels *)
Inductive tstep : Type :=
| SArrive (id : Z)                         (* receive_request: put on the receive queue *)
| STake                                    (* receive consumer: get from the receive queue *)
| SSlot                                    (* receive consumer: slot obtained, handler thread started *)
| SBusy (routable : bool)                  (* receive consumer: 5 s without a free slot -> TOO_BUSY answer *)
| SFinish (id : Z) (o : houtcome)          (* a handler thread ends and reports *)
| SResp (routable : bool).                 (* response consumer: get, return the slot, send the answer *)

Definition set_app (a : tapp) (rq : list Z) (h : option Z) (s : nat) (run : list Z) (rs : list (Z * option Z)) : tapp :=
  {| t_max := t_max a; t_recvq := rq; t_held := h; t_slots := s; t_running := run; t_respq := rs;
     t_recv_alive := t_recv_alive a; t_resp_alive := t_resp_alive a |}.

Fixpoint remove1 (x : Z) (l : list Z) : list Z :=
  match l with [] => [] | y :: r => if x =? y then r else y :: remove1 x r end.

(* None = the step is not enabled *)
Definition tstep_fn (a : tapp) (s : tstep) : option (tapp * list tout) :=
  match s with
  | SArrive id => Some (set_app a (t_recvq a ++ [id]) (t_held a) (t_slots a) (t_running a) (t_respq a), [])
  | STake =>
      match t_held a, t_recvq a with
      | None, id :: r => if t_recv_alive a then Some (set_app a r (Some id) (t_slots a) (t_running a) (t_respq a), []) else None
      | _, _ => None
      end
  | SSlot =>
      match t_held a with
      | Some id => if has_slot a
                   then Some (set_app a (t_recvq a) None (S (t_slots a)) (t_running a ++ [id]) (t_respq a), [])
                   else None
      | None => None
      end
  | SBusy routable =>
      match t_held a with
      | Some id => if has_slot a then None
                   else Some (set_app a (t_recvq a) None (t_slots a) (t_running a) (t_respq a),
                              [if routable then TAnswer id 3004 else TUnroutable id])
      | None => None
      end
  | SFinish id o =>
      if List.existsb (Z.eqb id) (t_running a)
      then Some (set_app a (t_recvq a) (t_held a) (t_slots a) (remove1 id (t_running a))
                         (t_respq a ++ [(id, match o with HNone => None | HAnswer => Some 2001 | HRaise => Some 5012 end)]), [])
      else None
  | SResp routable =>
      match t_respq a with
      | (id, code) :: r =>
          if t_resp_alive a
          then Some (set_app a (t_recvq a) (t_held a) (Nat.pred (t_slots a)) (t_running a) r,
                     match code with
                     | Some c => [if routable then TAnswer id c else TUnroutable id]
                     | None => []
                     end)
          else None
      | [] => None
      end
  end.

Definition tapp0 (max : nat) : tapp :=
  {| t_max := max; t_recvq := []; t_held := None; t_slots := 0; t_running := []; t_respq := [];
     t_recv_alive := true; t_resp_alive := true |}.

Fixpoint trun (a : tapp) (ss : list tstep) : option (tapp * list tout) :=
  match ss with
  | [] => Some (a, [])
  | s :: r => match tstep_fn a s with
              | None => None
              | Some (a1, o1) => match trun a1 r with
                                 | None => None
                                 | Some (a2, o2) => Some (a2, o1 ++ o2)
                                 end
              end
  end.

(* ---- deterministic quiescence for the correspondence ------------------------------------ *)
(* `finish id` says whether (and how) the handler of request id ends without outside help;
   `routable id` whether its answer can still be routed.  Consumers run until blocked. *)
Fixpoint quiesce (fuel : nat) (finish : Z -> option houtcome) (routable : Z -> bool) (a : tapp)
  : tapp * list tout :=
  match fuel with
  | O => (a, [])
  | S f =>
      let try (s : tstep) (k : unit -> tapp * list tout) :=
        match tstep_fn a s with
        | Some (a1, o1) => let '(a2, o2) := quiesce f finish routable a1 in (a2, o1 ++ o2)
        | None => k tt
        end in
      (* response consumer first, then handlers that end by themselves, then the receive consumer *)
      try (SResp (match t_respq a with (id, _) :: _ => routable id | [] => true end)) (fun _ =>
      match List.find (fun id => match finish id with Some _ => true | None => false end) (t_running a) with
      | Some id => try (SFinish id (match finish id with Some o => o | None => HNone end)) (fun _ => (a, []))
      | None =>
          try SSlot (fun _ => try STake (fun _ => (a, [])))
      end)
  end.
