"""C03 — typed command/grouped attributes map 1:1 onto dictionary AVPs and round-trip."""
from __future__ import annotations

import random

import implobs as O
import tables
import vlib
from props import c01

FILES = ["Link/LinkDict.v", "Link/LinkDefs.v", "Link/LinkDecl.v", "Props/C03.v"]
PRE = ("From DV Require Import Prelude.Base Model.Wire Model.Types Model.Obs Model.Defs Model.DefsObs "
       "Gen.GenDict Gen.GenConst Gen.GenDefs.\nFrom Coq Require Import String.\n"
       "Definition E : env := {| e_rows := dict_rows; e_time := time_k; e_classes := def_classes |}.\n")


KNOWN_BAD = {("CreditControlRequest", "access_network_charging_identifier_gx")}


class Ctx:
    def __init__(self, rng):
        self.rng = rng
        self.rows = O.dict_rows()
        self.ty = {(c, v): (t, m) for c, v, t, m, _, _ in self.rows}
        self.rows_by_ty = {}
        for c, v, t, m, _, _ in self.rows:
            self.rows_by_ty.setdefault(t, []).append((c, v))
        self.defs = {}
        self.cls = {}
        for cls, is_msg in tables.def_classes():
            self.cls[cls.__name__] = (cls, is_msg)
        for name, is_msg, has_defs, extra, defs, init in tables.def_rows():
            self.defs[name] = dict(is_msg=is_msg, has_defs=has_defs, extra=extra, defs=defs,
                                   init={a: i for a, i in init})


# value spec: ('val', ty, canon, py) | ('vals', ty, [(canon, py)]) | ('obj', cls, asg) | ('objs', cls, [asg])
def make_value(cx, d, depth):
    attr, code, vendor, req, mand, tclass = d
    is_list = cx.cur_init.get(attr) == "InitList"
    n = cx.rng.randrange(0, 4) if is_list else 1
    if tclass:
        if depth <= 0:
            return None
        if is_list:
            return ("objs", tclass, [make_assignment(cx, tclass, depth - 1, "random") for _ in range(n)])
        return ("obj", tclass, make_assignment(cx, tclass, depth - 1, "random"))
    te = cx.ty.get((code, vendor))
    if te is None:
        tn = "TUns32"          # no dictionary entry: any value will do, the encode must fail or be wrong
    else:
        tn = te[0]
    if is_list:
        return ("vals", tn, [c01.gen_value(tn, cx.rng, 1, cx.rows_by_ty) for _ in range(n)])
    canon, py = c01.gen_value(tn, cx.rng, 1, cx.rows_by_ty)
    return ("val", tn, canon, py)


def make_assignment(cx, cname, depth, mode, only=None):
    info = cx.defs[cname]
    saved = getattr(cx, "cur_init", None)
    cx.cur_init = info["init"]
    asg = {}
    attrs = list(dict.fromkeys(d[0] for d in info["defs"]))
    first_def = {}
    for d in info["defs"]:
        first_def.setdefault(d[0], d)
    for a in attrs:
        d = first_def[a]
        if mode == "none":
            take = False
        elif mode == "all":
            take = True
        elif mode == "only":
            take = (a == only)
        else:
            take = cx.rng.random() < (0.5 if len(attrs) < 12 else 0.2)
        if take:
            cx.cur_init = info["init"]
            v = make_value(cx, d, depth)
            if v is not None:
                asg[a] = v
    extras = []
    if info["extra"] and mode in ("all", "random") and cx.rng.random() < 0.5:
        a = O.A.Avp(99999990 + cx.rng.randrange(5), 0, bytes(cx.rng.getrandbits(8) for _ in range(cx.rng.randrange(0, 6))), 0)
        extras.append(a)
    if info["extra"] and info["defs"] and mode in ("all", "random", "only") and cx.rng.random() < 0.35:
        # an UNDECLARED AVP that shares its code with a declared attribute but carries another vendor id
        get_avp_dictionary_entry = O.dict_entry
        d = cx.rng.choice(info["defs"])
        for v2 in cx.rng.sample([9999999, 10415, 0, 5535], 4):
            if v2 != d[2] and get_avp_dictionary_entry(d[1], v2) is None:
                pl = bytes(cx.rng.getrandbits(8) for _ in range(cx.rng.choice([0, 4, 7])))
                extras.append(O.A.Avp(d[1], v2, pl, 0x80 if v2 else 0))
                break
    cx.cur_init = saved
    return {"cls": cname, "attrs": asg, "extras": extras}


def py_object(cx, asg):
    cls, is_msg = cx.cls[asg["cls"]]
    o = cls()
    for a, v in asg["attrs"].items():
        if v[0] == "val":
            setattr(o, a, v[3])
        elif v[0] == "vals":
            setattr(o, a, [x[1] for x in v[2]])
        elif v[0] == "obj":
            setattr(o, a, py_object(cx, v[2]))
        else:
            setattr(o, a, [py_object(cx, x) for x in v[2]])
    for e in asg["extras"]:
        if is_msg:
            o.append_avp(e)
        else:
            o.additional_avps.append(e)
    return o


def coq_aval(cx, v):
    if v[0] == "val":
        return f"(AVal {O.coq_value(v[1], v[2])})"
    if v[0] == "vals":
        return "(AVals [" + "; ".join(O.coq_value(v[1], c) for c, _ in v[2]) + "])"
    if v[0] == "obj":
        return f"(AObj {coq_obj(cx, v[2])})"
    return "(AObjs [" + "; ".join(coq_obj(cx, x) for x in v[2]) + "])"


def coq_obj(cx, asg, with_init=True):
    """the object as it is just before encoding: fresh-instance attributes, overridden by the assignment"""
    info = cx.defs[asg["cls"]]
    fields = []
    first_def = {}
    for d in info["defs"]:
        first_def.setdefault(d[0], d)
    for a in dict.fromkeys(d[0] for d in info["defs"]):
        if a in asg["attrs"]:
            fields.append(f"({vlib.coq_string(a)}, {coq_aval(cx, asg['attrs'][a])})")
        elif with_init and a in info["init"]:
            i = info["init"][a]
            tc = first_def[a][5]
            if i == "InitList":
                fields.append(f"({vlib.coq_string(a)}, {'AObjs []' if tc else 'AVals []'})")
            elif i == "InitClass":
                fields.append(f"({vlib.coq_string(a)}, AClass {vlib.coq_string(tc)})")
            else:
                fields.append(f"({vlib.coq_string(a)}, AVal (VInt {i[9:-1]}))")
    ex = "; ".join(O.coq_avp(e.code, e.flags, e.vendor_id, bytes(e.payload)) for e in asg["extras"])
    return f"(Obj {vlib.coq_string(asg['cls'])} [{'; '.join(fields)}] [{ex}])"


def ref_avps(cx, asg):
    """The property's reading: one AVP per set attribute (one per list element), in definition order of
    first mention, with the dictionary's code/vendor/M (unless overridden), then the extras."""
    info = cx.defs[asg["cls"]]
    out = []
    first_def = {}
    for d in info["defs"]:
        first_def.setdefault(d[0], d)
    eff = dict(asg["attrs"])
    for a, i in info["init"].items():
        if a not in eff and i.startswith("(InitInt"):
            te = cx.ty.get((first_def[a][1], first_def[a][2]))
            eff[a] = ("val", te[0] if te else "TUns32", int(i[9:-1]), int(i[9:-1]))
    for a in dict.fromkeys(d[0] for d in info["defs"]):
        if a not in eff:
            continue
        attr, code, vendor, req, mand, tclass = first_def[a]
        te = cx.ty.get((code, vendor))
        dflt = te[1] if te else None
        m = {0: dflt, 1: False, 2: True}[mand]
        flags = (0x80 if vendor else 0) | (0x40 if m else 0)
        v = eff[a]
        if v[0] == "val":
            out.append((code, flags, vendor, O.ref_data(v[1], v[2])))
        elif v[0] == "vals":
            for c, _ in v[2]:
                out.append((code, flags, vendor, O.ref_data(v[1], c)))
        elif v[0] == "obj":
            out.append((code, flags, vendor, b"".join(O.ref_avp(*x) for x in ref_avps(cx, v[2]))))
        else:
            for x in v[2]:
                out.append((code, flags, vendor, b"".join(O.ref_avp(*y) for y in ref_avps(cx, x))))
    for e in asg["extras"]:
        out.append((e.code, e.flags, e.vendor_id, bytes(e.payload)))
    return out


def canon_decoded(cx, o, cname):
    """normal form of a decoded python object as a Coq obj term + a comparable python structure"""
    info = cx.defs[cname]
    first_def = {}
    for d in info["defs"]:
        first_def.setdefault(d[0], d)
    fields, plain = [], {}
    for a in dict.fromkeys(d[0] for d in info["defs"]):
        attr, code, vendor, req, mand, tclass = first_def[a]
        v = getattr(o, a, None)
        if v is None:
            continue
        te = cx.ty.get((code, vendor))
        tn = te[0] if te else "TUntyped"
        if tclass:
            if isinstance(v, list):
                if not v:
                    fields.append(f"({vlib.coq_string(a)}, AVals [])")
                    plain[a] = []
                else:
                    subs = [canon_decoded(cx, x, tclass) for x in v]
                    fields.append(f"({vlib.coq_string(a)}, AObjs [{'; '.join(s[0] for s in subs)}])")
                    plain[a] = [s[1] for s in subs]
            elif isinstance(v, type):
                fields.append(f"({vlib.coq_string(a)}, AClass {vlib.coq_string(tclass)})")
                plain[a] = "<class>"
            else:
                s = canon_decoded(cx, v, tclass)
                fields.append(f"({vlib.coq_string(a)}, AObj {s[0]})")
                plain[a] = s[1]
        else:
            def cv(x):
                if tn == "TAddress":
                    fam, text = x
                    return ("addr", fam, O.addr_raw(fam, text))
                if tn == "TTime":
                    return ("unix", O.unix_of(x))
                if tn == "TFloat64":
                    return ("bits", O.bits64(x))
                if tn == "TFloat32":
                    return ("bits", O.bits32(x))
                if tn == "TGrouped":
                    return [(k.code, k.flags, k.vendor_id, bytes(k.payload)) for k in x]
                return x
            if isinstance(v, list) and tn != "TGrouped":
                cs = [cv(x) for x in v]
                fields.append(f"({vlib.coq_string(a)}, AVals [{'; '.join(O.coq_value(tn, c) for c in cs)}])")
                plain[a] = cs
            else:
                c = cv(v)
                fields.append(f"({vlib.coq_string(a)}, AVal {O.coq_value(tn, c)})")
                plain[a] = c
    ex = getattr(o, "_additional_avps", None)
    if ex is None:
        ex = getattr(o, "additional_avps", [])
    extxt = "; ".join(O.coq_avp(e.code, e.flags, e.vendor_id, bytes(e.payload)) for e in ex)
    plain["__extra__"] = [(e.code, e.flags, e.vendor_id, bytes(e.payload)) for e in ex]
    return f"(Obj {vlib.coq_string(cname)} [{'; '.join(fields)}] [{extxt}])", plain


def plain_of_assignment(cx, asg):
    info = cx.defs[asg["cls"]]
    plain = {}
    first_def = {}
    for d in info["defs"]:
        first_def.setdefault(d[0], d)
    for a in dict.fromkeys(d[0] for d in info["defs"]):
        if a in asg["attrs"]:
            v = asg["attrs"][a]
            if v[0] == "val":
                plain[a] = v[2]
            elif v[0] == "vals":
                plain[a] = [c for c, _ in v[2]]
            elif v[0] == "obj":
                plain[a] = plain_of_assignment(cx, v[2])
            else:
                plain[a] = [plain_of_assignment(cx, x) for x in v[2]]
        elif a in info["init"]:
            i = info["init"][a]
            if i == "InitList":
                plain[a] = []
            elif i == "InitClass":
                plain[a] = "<class>"
            else:
                plain[a] = int(i[9:-1])
    plain["__extra__"] = [(e.code, e.flags, e.vendor_id, bytes(e.payload)) for e in asg["extras"]]
    return plain


def summarize(asg):
    return {"class": asg["cls"], "attributes": sorted(asg["attrs"]), "extras": len(asg["extras"])}


def check(run):
    from diameter.message import Message, MessageHeader
    from diameter.message.avp.generator import generate_avps_from_defs
    from diameter.message.commands._attributes import assign_attr_from_defs
    thorough = run.tier == "thorough"
    rng = random.Random(run.seed)
    cx = Ctx(rng)
    run.rule = ("every typed message class and grouped container x {no attribute, each single attribute (every definition), "
                "random subsets, all attributes} with type-directed values, lists of 0..3, nesting <= 4, undeclared extras: "
                "encoded, compared with one-AVP-per-attribute reference and with the Coq model (gen_obj); decoded and compared "
                "with what was set and with the model (assign); re-encoded; non-trivial = distinct (class, attribute set, values)")
    run.obligations(FILES)
    gen_cases, gen_meta = [], []
    asn_cases, asn_meta = [], []

    # "each declared attribute denotes exactly one dictionary AVP": what a class declares to its users are its annotated
    # attributes; each must have a definition under that very name (else setting it encodes nothing and a received AVP
    # appears under another name), and every definition must be declared.  Exhaustive over every class.
    for cls, _is_msg in tables.def_classes():
        declared = tables.declared_attrs(cls)
        defined = [d.attr_name for d in cls.avp_def]
        run.count(1, [("declared", cls.__name__)])
        for a in declared:
            if a not in defined:
                near = [x for x in defined if x not in declared]
                run.violation("declared-attribute-defined", {"class": cls.__name__, "attribute": a, "history": "set the declared attribute, encode"},
                              {"definitions_under_undeclared_names": near}, "a definition named like the declared attribute",
                              what=f"{cls.__name__}.{a} is declared (annotated) but has no AVP definition: setting it encodes no AVP")
        for a in defined:
            if a not in declared:
                run.violation("declared-attribute-defined", {"class": cls.__name__, "attribute": a, "history": "decode a message carrying the AVP"},
                              "defined but not declared", "every definition is a declared attribute",
                              what=f"{cls.__name__} defines an AVP under the undeclared attribute name {a!r}")

    # "each declared attribute denotes exactly one dictionary AVP (a grouped one whenever the attribute has a container
    # class)": the container class must be THAT AVP's container.  Independent knowledge used: the dictionary name of the
    # AVP and the container's class name agree up to case and punctuation.  The deviations present in the library are
    # pinned here with their reason; anything else is reported.
    import re as _re
    _entry = O.dict_entry

    def _norm(x):
        return _re.sub(r"[^a-z0-9]", "", x.lower())
    REUSED = {("GrantedServiceUnit", "Requested-Service-Unit"),   # same ABNF, one class serves both (RFC 8506 8.18 / 8.17)
              ("IsupCause", "ISUP-Release-Cause")}                # code 3416 carries both names (older 3GPP releases)
    for cname, info in sorted(cx.defs.items()):
        for d in info["defs"]:
            attr, code, vendor, _req, _m, tc = d
            if not tc:
                continue
            ent = _entry(code, vendor)
            run.count(1, [("container-of", cname, attr)])
            if ent is None:
                continue        # reported by the table obligations
            if _norm(tc) != _norm(ent["name"]) and (tc, ent["name"]) not in REUSED:
                run.violation("container-is-the-avps", {"class": cname, "attribute": attr, "avp": [code, vendor, ent["name"]],
                                                        "container_class": tc}, tc, ent["name"],
                              what=f"{cname}.{attr} pairs the container class {tc} with the AVP {ent['name']} ({code}/{vendor}): "
                                   f"the attribute does not denote its own grouped AVP")

    def one(cname, mode, only=None, depth=2):
        info = cx.defs[cname]
        cls, is_msg = cx.cls[cname]
        asg = make_assignment(cx, cname, depth, mode, only)
        case = {"op": "encode", "mode": mode if only is None else f"only:{only}", **summarize(asg)}
        run.count(1, [(cname, mode, only, repr(sorted(asg['attrs'].items(), key=lambda kv: kv[0]))[:300])])
        try:
            o = py_object(cx, asg)
            if is_msg:
                wire = o.as_bytes()
                got = O.ref_parse_avps(wire[20:])
            else:
                avs = generate_avps_from_defs(o)
                got = [(a.code, a.flags, a.vendor_id, bytes(a.payload)) for a in avs]
                wire = None
            impl = ("ok", got)
        except Exception as e:   # noqa
            impl = ("err", O.err_kind(e))
        # oracle: one AVP per set attribute, dictionary code/vendor/M, extras unchanged
        try:
            ref = ref_avps(cx, asg)
        except Exception as e:   # noqa
            ref = None
        if impl[0] == "err":
            run.violation("encode-raises", case, impl[1],
                          what=f"{cname}: setting {sorted(asg['attrs'])} to valid values cannot be encoded")
        elif ref is not None and impl[1] != ref:
            kc = {}
            for a in impl[1]:
                kc[(a[0], a[2])] = kc.get((a[0], a[2]), 0) + 1
            rc = {}
            for a in ref:
                rc[(a[0], a[2])] = rc.get((a[0], a[2]), 0) + 1
            diff = {f"{k[0]}/{k[1]}": (kc.get(k, 0), rc.get(k, 0)) for k in set(kc) | set(rc) if kc.get(k, 0) != rc.get(k, 0)}
            run.violation("one-avp-per-attribute", case, {"avp_count_by_key (got, expected)": diff} if diff else "same keys, different flags/payload/order",
                          what=f"{cname}: AVPs produced for {sorted(asg['attrs'])[:4]} are not exactly one per set attribute with the dictionary's code/vendor/M")
        exp = ("(Ok [" + "; ".join(O.coq_avp(*a) for a in impl[1]) + "])") if impl[0] == "ok" else f"(Err {O.coq_err(impl[1])})"
        if (cname, ) + tuple() and any((cname, a) in KNOWN_BAD for a in asg["attrs"]):
            return     # recorded known finding: reported by the oracle above, not part of the model's claim
        gen_cases.append(f"({coq_obj(cx, asg)}, {exp})")
        gen_meta.append(case)
        if impl[0] != "ok":
            return
        # decode
        case_d = {"op": "decode", **summarize(asg)}
        try:
            if is_msg:
                dm = Message.from_bytes(wire)
                if type(dm) is not cls:
                    return
            else:
                dm = cls()
                assign_attr_from_defs(dm, [O.A.Avp.from_bytes(O.ref_avp(*a)) for a in got])
            dterm, dplain = canon_decoded(cx, dm, cname)
            dec = ("ok", dterm)
        except Exception as e:   # noqa
            dec = ("err", O.err_kind(e))
            dplain = None
        run.count(1, [("dec", cname, mode, only)])
        if dec[0] == "err":
            run.violation("decode-raises", case_d, dec[1])
        else:
            want = plain_of_assignment(cx, asg)
            if ref is not None and impl[1] == ref and dplain != want:
                bad = [k for k in set(dplain) | set(want) if dplain.get(k) != want.get(k)]
                run.violation("attributes-restored", case_d, {"differing": bad[:6]},
                              what=f"{cname}: decoding does not restore the attribute values that were set ({bad[:3]})")
            if is_msg:
                try:
                    re = dm.as_bytes()
                except Exception as e:   # noqa
                    re = None
                if re != wire:
                    run.violation("encode-decode-encode", case_d, "differs",
                                  what=f"{cname}: encode-decode-encode differs from encode")
        avps_txt = "[" + "; ".join(O.coq_avp(*a) for a in got) + "]"
        dexp = f"(Ok {dec[1]})" if dec[0] == "ok" else f"(Err {O.coq_err(dec[1])})"
        asn_cases.append(f"({vlib.coq_string(cname)}, {avps_txt}, {dexp})")
        asn_meta.append(case_d)

    names = sorted(cx.defs)
    for cname in names:
        info = cx.defs[cname]
        one(cname, "none")
        for a in dict.fromkeys(d[0] for d in info["defs"]):
            one(cname, "only", a, depth=(1 if rng.random() < 0.8 else 2) if not thorough else rng.choice([2, 4]))
        one(cname, "random", depth=rng.choice([1, 2]))
        one(cname, "all", depth=1 if len(info["defs"]) < 40 else 0)
        if thorough:
            for _ in range(6):
                one(cname, "random", depth=rng.choice([1, 2, 3, 4]))
    run.sample(gen_meta[1] if len(gen_meta) > 1 else None)
    run.sample(asn_meta[len(asn_meta) // 2] if asn_meta else None)

    # ---- histories: an object that has been encoded / read once is changed and encoded again ------------------------
    for cname in names:
        cls, is_msg = cx.cls[cname]
        if not is_msg:
            continue
        asg1 = make_assignment(cx, cname, 1, "random")
        asg2 = make_assignment(cx, cname, 1, "random")
        merged = {"cls": cname, "attrs": dict(asg1["attrs"]), "extras": list(asg1["extras"]) + list(asg2["extras"])}
        merged["attrs"].update(asg2["attrs"])
        try:
            o = py_object(cx, asg1)
            _ = o.as_bytes()
            _ = o.avps
            for a, v in asg2["attrs"].items():            # ... then more attributes are set on the SAME object
                tmp = py_object(cx, {"cls": cname, "attrs": {a: v}, "extras": []})
                setattr(o, a, getattr(tmp, a))
            for e in asg2["extras"]:
                o.append_avp(e)
            again = O.ref_parse_avps(o.as_bytes()[20:])
            fresh = O.ref_parse_avps(py_object(cx, merged).as_bytes()[20:])
        except Exception as e:   # noqa
            continue            # values the class cannot encode are reported by the main loop
        run.count(1, [("re-encode", cname, repr(sorted(merged["attrs"]))[:200])])
        if again != fresh:
            run.violation("encode-after-change", {"class": cname, "first": sorted(asg1["attrs"]), "then": sorted(asg2["attrs"])},
                          len(again), len(fresh),
                          what=f"{cname}: attributes set after the message had been encoded once are not reflected by the next encoding")

    # ---- commands without a typed implementation -----------------------------------------
    und_cases, und_meta = [], []
    n_und = 400 if thorough else 80
    for i in range(n_und):
        nof32 = {t: v for t, v in cx.rows_by_ty.items() if t != "TFloat32"}
        objs, canon = __import__("props.c02", fromlist=["gen_avps"]).gen_avps(rng, nof32, rng.choice([1, 3, 6]), rng.choice([0, 1, 2]))
        if not canon:
            continue
        m = Message(MessageHeader(1, 0, 0x80, 8388000 + i, 0, 1, 2), list(objs))
        wire = m.as_bytes()
        case = {"op": "undefined-command", "wire": wire.hex()[:300]}
        try:
            um = Message.from_bytes(wire)
        except Exception as e:   # noqa
            run.violation("undefined-decode-raises", case, O.err_kind(e))
            continue
        run.count(1, [("undef", wire[:60])])
        hdr_ok = isinstance(um.header, MessageHeader)
        if not hdr_ok:
            run.violation("undefined-attrs", case, "message header replaced by an AVP attribute")
            continue
        # oracle: names and multiplicities
        want = {}
        for (c, f, v, p) in canon:
            e = O.dict_entry(c, v)
            nm = (e["name"] if e else "Unknown").replace("-", "_").lower()
            want[nm] = want.get(nm, 0) + 1
        for nm, k in want.items():
            val = getattr(um, nm, None)
            n_got = len(val) if isinstance(val, list) and k > 1 else (1 if val is not None or hasattr(um, nm) else 0)
            if (k > 1 and not isinstance(val, list)) or n_got != k:
                if nm in dir(Message):
                    run.violation("undefined-attrs", case, {"attr": nm, "expected": k},
                                  what=f"AVP attribute name '{nm}' collides with a Message member")
                else:
                    run.violation("undefined-attrs", case, {"attr": nm, "expected": k, "got": n_got})

        def utext(obj_attrs):
            parts = []
            for nm, val in obj_attrs:
                parts.append(f"({vlib.coq_string(nm)}, {uval(val)})")
            return "[" + "; ".join(parts) + "]"

        def uval(val):
            from diameter.message._base import UndefinedGroupedAvp
            if isinstance(val, UndefinedGroupedAvp):
                return "(UObj " + utext(list(vars(val).items())) + ")"
            if isinstance(val, list) and val and not isinstance(val[0], O.A.Avp):
                return "(UList [" + "; ".join(uval(x) for x in val) + "])"
            return "(UVal " + render_scalar(val) + ")"

        def render_scalar(val):
            import datetime
            if isinstance(val, bytes):
                return O.coq_value("TOctet", val)
            if isinstance(val, str):
                return O.coq_value("TUtf8", val)
            if isinstance(val, bool):
                raise ValueError
            if isinstance(val, int):
                return O.coq_value("TInt64", val)
            if isinstance(val, float):
                return O.coq_value("TFloat64", ("bits", O.bits64(val))) if O.bits64(val) is not None else "(VFloat 0)"
            if isinstance(val, datetime.datetime):
                return O.coq_value("TTime", ("unix", O.unix_of(val)))
            if isinstance(val, tuple):
                return O.coq_value("TAddress", ("addr", val[0], O.addr_raw(val[0], val[1])))
            raise ValueError(type(val))
        try:
            attrs = [(k, v) for k, v in vars(um).items() if k not in ("header", "_avps", "_Message__find_cache")]
            if any(isinstance(v, float) and ((v != v) or O.bits32(v) is None and False) for _, v in attrs):
                continue
            txt = utext(attrs)
        except ValueError:
            continue
        has_f32 = any(O.tyname_of(a) == "TFloat32" for a in objs)
        if has_f32:
            continue   # a Float32 value is rendered as a double here; skip (covered by C01)
        und_cases.append(f"([{'; '.join(O.coq_avp(*a) for a in canon)}], {txt})")
        und_meta.append(case)

    ok_gen = ("Definition ok (c : obj * result (list avp)) : bool := let '(o, exp) := c in\n"
              "  res_eqb (list_eqb avp_eqb) (obs_gen E o) exp.\n")
    ok_asn = ("Definition ok (c : string * list avp * result obj) : bool := let '(cn, l, exp) := c in\n"
              "  res_eqb (obj_eqb 12) (obs_assign E cn l) exp.\n")
    ok_und = ("Definition ok (c : list avp * list (string * uval)) : bool := let '(l, exp) := c in\n"
              "  match undef_attrs dict_rows time_k 12 l with\n"
              "  | Ok r => list_eqb (fun p q => String.eqb (fst p) (fst q) && uval_eqb 12 (snd p) (snd q)) r exp\n"
              "  | Err _ => false end.\n")
    import time
    timing = {}
    for texts, meta, okd, tag, chunk in ((gen_cases, gen_meta, ok_gen, "gen", 150), (asn_cases, asn_meta, ok_asn, "asn", 150),
                                         (und_cases, und_meta, ok_und, "und", 100)):
        t0 = time.time()
        mism, errs = vlib.eval_mismatches(run.workdir, PRE, okd, texts, chunk=chunk, tag=tag)
        timing[tag] = [len(texts), round(time.time() - t0, 1)]
        for i in mism:
            run.mismatch(f"model vs implementation ({tag})", meta[i], texts[i][-400:])
        for e in errs:
            run.mismatch("coq evaluation", {}, e)
    run.extra["coq_eval_seconds"] = timing
    return run.finish(known_matcher=known)


def known(v, k):
    if k["id"] == "C03-gx-grouped-without-container":
        c = v["case"]
        return (c.get("class") == "CreditControlRequest"
                and "access_network_charging_identifier_gx" in c.get("attributes", [])
                and v["clause"] in ("encode-raises", "one-avp-per-attribute", "attributes-restored",
                                    "decode-raises", "encode-decode-encode"))
    return False


def replay(r):
    print("replay: re-run ./check C03 (cases are regenerated deterministically from the seed)")
    return False
