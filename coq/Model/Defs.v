(* Model of the typed-attribute layer (C03, C08):
     generate_avps_from_defs  (avp/generator.py)        attributes -> AVPs
     assign_attr_from_defs    (commands/_attributes.py) AVPs -> attributes
     validate_message_avps    (node/_helpers.py)
     UndefinedMessage._assign_attr_values (_base.py)
   over the class tables regenerated into Gen/GenDefs.v.  Names are strings,
   so this file imports String; list functions are written qualified. *)
From DV Require Import Prelude.Base Model.Wire Model.Types.
From Coq Require Import String Ascii.

(* ---- class tables -------------------------------------------------------- *)
Inductive init : Type := InitList | InitInt (z : Z) | InitClass.
(* attr, code, vendor, is_required, is_mandatory override (0 None, 1 False, 2 True), container class ("" none) *)
Definition defrow : Type := (string * Z * Z * bool * Z * string)%type.
Definition f_attr (d : defrow) : string := let '(a, _, _, _, _, _) := d in a.
Definition f_code (d : defrow) : Z := let '(_, c, _, _, _, _) := d in c.
Definition f_vendor (d : defrow) : Z := let '(_, _, v, _, _, _) := d in v.
Definition f_req (d : defrow) : bool := let '(_, _, _, r, _, _) := d in r.
Definition f_mand (d : defrow) : Z := let '(_, _, _, _, m, _) := d in m.
Definition f_tclass (d : defrow) : string := let '(_, _, _, _, _, t) := d in t.

Record clsdef : Type := {
  d_name : string;
  d_is_msg : bool;         (* typed message class (else: grouped container dataclass) *)
  d_has_defs : bool;       (* has an avp_def attribute at all *)
  d_extra : bool;          (* has an additional_avps / _additional_avps slot *)
  d_defs : list defrow;
  d_init : list (string * init)   (* attributes a fresh instance has set (other than None) *)
}.

Definition cdef_lookup (cs : list clsdef) (n : string) : option clsdef :=
  find (fun c => String.eqb (d_name c) n) cs.

(* ---- python objects -------------------------------------------------------- *)
Inductive aval : Type :=
| ANone                         (* attribute unset / None *)
| AVal (v : value)
| AVals (l : list value)
| AObj (o : obj)
| AObjs (l : list obj)
| AClass (cls : string)         (* the attribute holds a class object (InitClass defaults) *)
with obj : Type :=
| Obj (cls : string) (fields : list (string * aval)) (extra : list avp).

Definition obj_cls (o : obj) : string := match o with Obj c _ _ => c end.
Definition obj_fields (o : obj) : list (string * aval) := match o with Obj _ f _ => f end.
Definition obj_extra (o : obj) : list avp := match o with Obj _ _ e => e end.

Fixpoint assoc {A} (n : string) (l : list (string * A)) : option A :=
  match l with
  | [] => None
  | (k, v) :: r => if String.eqb k n then Some v else assoc n r
  end.
Fixpoint assoc_set {A} (n : string) (v : A) (l : list (string * A)) : list (string * A) :=
  match l with
  | [] => [(n, v)]
  | (k, x) :: r => if String.eqb k n then (k, v) :: r else (k, x) :: assoc_set n v r
  end.

Definition mand_opt (m : Z) : option bool := if m =? 0 then None else Some (m =? 2).

Record env : Type := { e_rows : list drow; e_time : time_consts; e_classes : list clsdef }.

(* a fresh instance of a class: cls() *)
Definition init_aval (d : option defrow) (i : init) : aval :=
  match i with
  | InitList => match d with
                | Some dd => if String.eqb (f_tclass dd) "" then AVals [] else AObjs []
                | None => AVals []
                end
  | InitInt z => AVal (VInt z)
  | InitClass => match d with Some dd => AClass (f_tclass dd) | None => ANone end
  end.
Definition fresh (cs : list clsdef) (cls : string) : obj :=
  match cdef_lookup cs cls with
  | None => Obj cls [] []
  | Some c =>
      Obj cls (List.map (fun ai => (fst ai,
                  init_aval (find (fun d => String.eqb (f_attr d) (fst ai)) (d_defs c)) (snd ai))) (d_init c)) []
  end.

(* ---- attributes -> AVPs ------------------------------------------------------ *)
(* Avp.new(code, vendor, value=v, is_mandatory=m); any error from the value setter is AvpEncodeError *)
Definition new_for (e : env) (d : defrow) (v : option value) : result avp :=
  avp_new (e_rows e) (e_time e) (f_code d) (f_vendor d) v (mand_opt (f_mand d)) None.

(* grouped AVP for a container: Avp.new(code, vendor, is_mandatory=m); avp.value = sub_avps.
   The value setter that runs is the one of the DICTIONARY type of (code, vendor). *)
Definition grouped_for (e : env) (d : defrow) (sub : list avp) : result avp :=
  let! a := new_for e d None in
  match lookup (e_rows e) (f_code d) (f_vendor d) with
  | Some r => match row_ty r with
              | TGrouped => match enc_avps sub with
                            | Ok p => Ok (set_payload a p)
                            | Err _ => Err AvpEncodeError
                            end
              | TUntyped => Err TypeError      (* payload := a python list; as_packed then fails *)
              | _ => Err AvpEncodeError        (* a typed setter rejects the list *)
              end
  | None => Err ValueError
  end.

Fixpoint map_result {A B} (f : A -> result B) (l : list A) : result (list B) :=
  match l with
  | [] => Ok []
  | x :: r => let! y := f x in let! ys := map_result f r in Ok (y :: ys)
  end.

(* generate_avps_from_defs.  Recursion goes over the object's own fields first (each field
   yields a function from a definition to the AVPs it produces for it); the result is then
   ordered by the class's definition tuple.  `fuel` bounds InitClass-style class objects only. *)
Fixpoint gen_obj (e : env) (o : obj) : result (list avp) :=
  match o with
  | Obj cls fields extra =>
      match cdef_lookup (e_classes e) cls with
      | None => Ok []                       (* no avp_def attribute *)
      | Some c =>
          if negb (d_has_defs c) then Ok [] else
          let per :=
            (fix go (fs : list (string * aval)) : list (string * (defrow -> result (list avp))) :=
               match fs with
               | [] => []
               | (n, av) :: r =>
                   (n, fun d =>
                         match av with
                         | ANone => Ok []
                         | AVal v =>
                             if String.eqb (f_tclass d) "" then let! a := new_for e d (Some v) in Ok [a]
                             else Err AttributeError   (* a scalar where a container object is expected *)
                         | AVals l =>
                             if String.eqb (f_tclass d) "" then map_result (fun v => new_for e d (Some v)) l
                             else Err AttributeError
                         | AObj o' =>
                             let! sub := gen_obj e o' in
                             if String.eqb (f_tclass d) "" then Err AvpEncodeError
                             else let! a := grouped_for e d sub in Ok [a]
                         | AObjs l =>
                             (fix gos (l : list obj) : result (list avp) :=
                                match l with
                                | [] => Ok []
                                | o' :: r' =>
                                    let! sub := gen_obj e o' in
                                    let! a := (if String.eqb (f_tclass d) "" then Err AvpEncodeError
                                               else grouped_for e d sub) in
                                    let! rest := gos r' in Ok (a :: rest)
                                end) l
                         | AClass k =>
                             (* generate_avps_from_defs(<class object>): every field default is None *)
                             if String.eqb (f_tclass d) "" then Err AvpEncodeError
                             else let! a := grouped_for e d [] in Ok [a]
                         end) :: go r
               end) fields in
          let! ordered :=
            (fix ord (ds : list defrow) : result (list avp) :=
               match ds with
               | [] => Ok []
               | d :: r =>
                   let! here := (match assoc (f_attr d) per with Some f => f d | None => Ok [] end) in
                   let! more := ord r in Ok (here ++ more)%list
               end) (d_defs c) in
          Ok (if d_is_msg c then ordered ++ extra else if d_extra c then ordered ++ extra else ordered)%list
      end
  end.

(* ---- AVPs -> attributes ---------------------------------------------------------- *)
(* needed = {key: def}: the LAST definition with a given (code, vendor) wins *)
Definition def_for_key (ds : list defrow) (code vendor : Z) : option defrow :=
  find (fun d => (f_code d =? code) && (f_vendor d =? vendor)) (List.rev ds).

Definition is_list (a : option aval) : bool :=
  match a with Some (AVals _) | Some (AObjs _) => true | _ => false end.

Definition set_field (o : obj) (n : string) (v : aval) : obj :=
  match o with Obj c f e => Obj c (assoc_set n v f) e end.
Definition add_extra (o : obj) (a : avp) : obj :=
  match o with Obj c f e => Obj c f (e ++ [a])%list end.

Fixpoint assign (e : env) (fuel : nat) (o : obj) (avps : list avp) : result obj :=
  match fuel with
  | O => Err OutOfFuel
  | S f =>
      match cdef_lookup (e_classes e) (obj_cls o) with
      | None => Err AttributeError          (* obj.avp_def does not exist *)
      | Some c =>
          if negb (d_has_defs c) then Err AttributeError else
          (fix go (o : obj) (l : list avp) : result obj :=
             match l with
             | [] => Ok o
             | a :: r =>
                 let! o' :=
                   match def_for_key (d_defs c) (a_code a) (a_vendor a) with
                   | Some d =>
                       let cur := assoc (f_attr d) (obj_fields o) in
                       if String.eqb (f_tclass d) "" then
                         (* scalar: undecodable value becomes None *)
                         let v := match dec_val (e_time e) (type_of (dict_of (e_rows e)) a) (a_payload a) with
                                  | Ok x => Some x
                                  | Err _ => None
                                  end in
                         match cur with
                         | Some (AVals l0) =>
                             match v with
                             | Some x => Ok (set_field o (f_attr d) (AVals (l0 ++ [x])%list))
                             | None => Err OutOfFuel      (* a None inside a list: outside the model *)
                             end
                         | Some (AObjs _) => Err OutOfFuel   (* value appended to a list of objects: outside the model *)
                         | _ => Ok (set_field o (f_attr d) (match v with Some x => AVal x | None => ANone end))
                         end
                       else
                         (* container: type_class() then recursive assignment from avp.value *)
                         match type_of (dict_of (e_rows e)) a with
                         | TGrouped =>
                             let! kids := group_kids (a_payload a) in
                             let! sub := assign e f (fresh (e_classes e) (f_tclass d)) kids in
                             match cur with
                             | Some (AObjs l0) => Ok (set_field o (f_attr d) (AObjs (l0 ++ [sub])%list))
                             | Some (AVals []) => Ok (set_field o (f_attr d) (AObjs [sub]))
                             | Some (AVals _) => Err OutOfFuel
                             | _ => Ok (set_field o (f_attr d) (AObj sub))
                             end
                         | _ => Err TypeError     (* iterating a non-list avp.value *)
                         end
                   | None => Ok (if d_extra c then add_extra o a else o)
                   end in
                 go o' r
             end) o avps
      end
  end.

(* ---- validate_message_avps ------------------------------------------------------------ *)
(* required definitions whose attribute is None, in definition order *)
Definition missing_required (cs : list clsdef) (o : obj) : list defrow :=
  match cdef_lookup cs (obj_cls o) with
  | None => []
  | Some c =>
      List.filter (fun d => f_req d &&
                     match assoc (f_attr d) (obj_fields o) with
                     | None | Some ANone => true
                     | _ => false
                     end) (d_defs c)
  end.

(* ---- table well-formedness (C03 "every attribute denotes exactly one dictionary AVP") -------- *)
Fixpoint str_nodup (l : list string) : bool :=
  match l with
  | [] => true
  | x :: r => negb (List.existsb (String.eqb x) r) && str_nodup r
  end.
Fixpoint key_nodup (l : list (Z * Z)) : bool :=
  match l with
  | [] => true
  | (c, v) :: r => negb (List.existsb (fun k => (fst k =? c) && (snd k =? v)) r) && key_nodup r
  end.

Definition def_ok (rows : list drow) (cs : list clsdef) (d : defrow) : bool :=
  match lookup rows (f_code d) (f_vendor d) with
  | None => false                                    (* no dictionary entry *)
  | Some r =>
      if String.eqb (f_tclass d) "" then negb (ty_eqb (row_ty r) TGrouped)     (* grouped iff container *)
      else ty_eqb (row_ty r) TGrouped &&
           match cdef_lookup cs (f_tclass d) with Some k => negb (d_is_msg k) | None => false end
  end.

Definition init_ok (i : string * init) : bool :=
  match snd i with InitClass => false | _ => true end.

Definition class_ok (rows : list drow) (cs : list clsdef) (c : clsdef) : bool :=
  List.forallb (def_ok rows cs) (d_defs c)
  && str_nodup (List.map f_attr (d_defs c))
  && key_nodup (List.map (fun d => (f_code d, f_vendor d)) (d_defs c))
  && List.forallb init_ok (d_init c).

(* ---- UndefinedMessage._assign_attr_values ------------------------------------------------- *)
(* attr name: avp.name.replace("-", "_").lower(); names are ASCII in the dictionary *)
Definition lower_us (c : ascii) : ascii :=
  let n := nat_of_ascii c in
  if Nat.eqb n 45 then ascii_of_nat 95
  else if Nat.leb 65 n && Nat.leb n 90 then ascii_of_nat (n + 32) else c.
Fixpoint attr_name (s : string) : string :=
  match s with
  | EmptyString => EmptyString
  | String c r => String (lower_us c) (attr_name r)
  end.
Definition avp_attr_name (rows : list drow) (a : avp) : string :=
  match lookup rows (a_code a) (a_vendor a) with
  | Some r => attr_name (row_name r)
  | None => "unknown"
  end.

(* generic attribute tree: a value, a nested object, or a list of those (repeated AVPs) *)
Inductive uval : Type :=
| UVal (v : value)
| UObj (fields : list (string * uval))
| UList (l : list uval).

Definition uadd (fields : list (string * uval)) (n : string) (v : uval) : list (string * uval) :=
  match assoc n fields with
  | None => (fields ++ [(n, v)])%list
  | Some (UList l) => assoc_set n (UList (l ++ [v])%list) fields
  | Some x => assoc_set n (UList [x; v]) fields
  end.

Fixpoint undef_attrs (rows : list drow) (k : time_consts) (fuel : nat) (avps : list avp)
  : result (list (string * uval)) :=
  match fuel with
  | O => Err OutOfFuel
  | S f =>
      (fix go (acc : list (string * uval)) (l : list avp) : result (list (string * uval)) :=
         match l with
         | [] => Ok acc
         | a :: r =>
             let! v :=
               (match type_of (dict_of rows) a with
                | TGrouped =>
                    let! kids := group_kids (a_payload a) in
                    let! sub := undef_attrs rows k f kids in Ok (UObj sub)
                | t => let! x := dec_val k t (a_payload a) in Ok (UVal x)
                end) in
             go (uadd acc (avp_attr_name rows a) v) r
         end) [] avps
  end.
