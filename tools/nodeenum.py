"""Systematic (bounded-exhaustive) scenario enumeration for the node layer: every sequence up to a depth over a small
alphabet of abstract actions, resolved adaptively against the running implementation.  Complements the random histories
of nodegen: the property quantifiers speak of 'all event sequences up to depth k', and directed short sequences reach the
narrow windows (a DWA after a DPR, a stop while a DWA is outstanding, a CER on a dialled connection...) that random
histories of the same length hit rarely."""
from __future__ import annotations

import itertools
import random

import nodesim as NS

HOSTS = ["cli0.example.net", "cli1.example.net", "cli2.example.net"]


def base_cfg(variant=0):
    c = NS.default_cfg()
    c.update(cea=3, cer=3, dwa=3, idle=5, wakeup=1, rsize=2, variant=variant)
    c["apps"] = [dict(id=4, auth=True, acct=False)]
    c["peers"] = [dict(name=HOSTS[0], realm="example.net", addr=False, persistent=False, always=False,
                       cea=None, cer=None, dwa=None, idle=None, rwait=30, apps=[0], default=False),
                  dict(name=HOSTS[1], realm="example.net", addr=True, persistent=True, always=False,
                       cea=None, cer=None, dwa=None, idle=None, rwait=30, apps=[0], default=False)]
    if variant == 1:      # per-peer timers that differ (a lot) from the node's, accounting application
        c["apps"] = [dict(id=3, auth=False, acct=True)]
        c["idle"] = 30
        c["ips"] = 3
        for p in c["peers"]:
            p.update(cea=2, cer=6, dwa=2, idle=4)
    if variant == 2:      # the local name loses elections; two applications with the same id on different peers
        c["host"] = "aaa.example.net"
        c["apps"] = [dict(id=4, auth=True, acct=False), dict(id=4, auth=True, acct=False)]
        c["peers"][0]["apps"] = [0]
        c["peers"][1]["apps"] = [1]
        c["peers"].append(dict(name=HOSTS[2], realm="example.net", addr=False, persistent=False, always=False,
                               cea=None, cer=None, dwa=None, idle=None, rwait=30, apps=[], default=False))
    if variant == 4:      # cli0 is a DEFAULT peer of the realm but not configured for the application (cli1 is)
        c["peers"][0].update(apps=[], default=True)
        c["peers"][1].update(persistent=False, addr=False)
    if variant == 10:     # one application that is both an authentication and an accounting application
        c["apps"] = [dict(id=4, auth=True, acct=True)]
    if variant == 9:      # the peers are configured with capital letters in their names
        c["upper_uri"] = True
    if variant == 8:      # the persistent peer's reconnect deadline falls a few seconds after every failure
        c["peers"][1]["rwait"] = 5
    if variant == 6:      # realm names with capital letters, used as configured by everybody
        c["realm"] = "Example.NET"
        for p in c["peers"]:
            p["realm"] = "Example.NET"
    if variant == 7:      # the only way out is a DEFAULT peer that lives in ANOTHER realm than the node; the application has no peers
        c["peers"][0].update(apps=[], default=True, realm="visited.example.org")
        c["peers"][1].update(apps=[], persistent=False, addr=False)
    if variant == 5:      # a node without any application
        c["apps"] = []
        for p in c["peers"]:
            p["apps"] = []
    if variant == 3:      # one application whose peers live in different realms
        c["peers"][0]["realm"] = "other.example.org"      # cli0 (the focus connection's peer)
        c["peers"][1]["realm"] = "example.net"
        c["peers"][1].update(persistent=False, addr=False)
        c["peers"].append(dict(name=HOSTS[2], realm="third.example.org", addr=False, persistent=False, always=False,
                               cea=None, cer=None, dwa=None, idle=None, rwait=30, apps=[], default=False))
    return c


class Ctx:
    """one running scenario"""
    def __init__(self, cfg):
        self.cfg = cfg
        self.r = NS.Run(cfg, seed=1)
        self.events, self.obs = [], []
        self.hb = 3000
        self.focus = None          # cid the single-connection actions apply to
        self.conn = {}             # label -> cid
        self.delivered = []        # (app, hbh, e2e, wire, cid) not yet answered
        self.answered = []         # wires of answered requests
        self.last_req = {}         # cid -> wire of the last request sent on it
        self.outstanding = []      # (cid, hbh, e2e) requests the node sent
        self.stopped = False
        import nodegen
        self.g = nodegen.Gen(random.Random(0), cfg, {})

    def ids(self):
        self.hb += 1
        return self.hb, self.hb + 700000

    def do(self, ev):
        if "dials" not in ev:
            ev["dials"] = [(7000 + len(self.events), "DialOk")] * 2
        o = self.r.apply(ev)
        self.events.append(ev)
        self.obs.append(o)
        if ev["ev"] == "recv":
            for (app, h, e) in o["delivered"]:
                w = next((f for f in ev["frames"] if int.from_bytes(f[12:16], "big") == h and int.from_bytes(f[16:20], "big") == e), None)
                if w is not None:
                    self.delivered.append((app, h, e, w, ev["cid"]))
        for cid, ms in o["sends"].items():
            for x in ms:
                if x["req"] and x["cmd"].startswith("App"):
                    self.outstanding.append((cid, x["hbh"], x["e2e"]))
        return o

    def snap(self):
        return self.obs[-1]["snap"] if self.obs else {"conns": [], "peers": []}

    def alive(self, cid):
        return cid is not None and cid < len(self.r.remotes) and not self.r.remotes[cid].closed_by_node

    def host_of(self, cid):
        c = next((x for x in self.snap()["conns"] if x[0] == cid), None)
        return (c[4] or c[3]) if c and (c[4] or c[3]) else HOSTS[0]

    def recv(self, cid, spec):
        if not self.alive(cid) or (getattr(self, "pending_frag", None) and self.pending_frag[0] == cid):
            return None
        if spec.get("kind") == "req" and "drealm" not in spec:
            spec = dict(spec, drealm=self.cfg["realm"])      # addressed to the node's own realm, spelt as configured
        if "hbh" not in spec:
            h, e = self.ids()
            spec = dict(spec, hbh=h, e2e=e)
        fr = NS.build_message(spec)
        if spec["kind"] == "req":
            self.last_req[cid] = fr
        return self.do(dict(ev="recv", cid=cid, frames=[fr]))


def act(cx, tok):
    """perform one abstract action; returns False if it does not apply in the current state"""
    if cx.stopped and not cx.snap()["conns"]:
        cx.stop_immediate = True      # nothing is left to wait for: stop() goes on to completion by itself
    if getattr(cx, "stop_immediate", False):
        return False         # the I/O thread has its stop flag: nothing further is processed
    f = cx.focus
    app_ids = [a["id"] for a in cx.cfg["apps"]]
    auth = [a["id"] for a in cx.cfg["apps"] if a["auth"]]
    acct = [a["id"] for a in cx.cfg["apps"] if a["acct"]]
    if tok == "bg_cer":          # capabilities exchange of the background connection (another known peer)
        bg = cx.conn.get("bg")
        if bg is None or not cx.alive(bg) or cx.conn.get("bg_cer_done"):
            return False
        cx.conn["bg_cer_done"] = True
        return cx.recv(bg, dict(kind="cer", host=HOSTS[1], auth=auth, acct=acct)) is not None
    if tok.startswith("cer_"):
        kind = tok[4:]
        host = {"known": HOSTS[0], "known1": HOSTS[1], "unknown": "evil.example.org"}.get(kind, HOSTS[0])
        a, c = auth, acct
        if kind == "nocommon":
            a, c = [999], []
        elif kind == "relay":
            a, c = [0xffffffff], []
        elif kind == "swapped":        # the node's ids advertised under the other kind
            a, c = acct, auth
        elif kind == "acctonly":       # the node's accounting ids as Acct-Application-Id, nothing as Auth-Application-Id
            a, c = [], acct
        elif kind == "relayacct":      # nothing in common, relay id only among the accounting ids
            a, c = [999], [0xffffffff]
        return cx.recv(f, dict(kind="cer", host=host, auth=a, acct=c, vsai=kind == "vsai")) is not None
    if tok.startswith("cea_"):
        kind = tok[4:]
        c = next((x for x in cx.snap()["conns"] if x[0] == f), None)
        name = (c[3] if c else "") or HOSTS[1]
        spec = dict(kind="cea", host=name, result=2001, auth=auth, acct=acct)
        if kind == "3010":
            spec["result"] = 3010
        elif kind == "2002":
            spec["result"] = 2002       # a success-class code that is not 2001
        elif kind == "nohost":
            spec["host"] = None
        elif kind == "foreign":
            spec["host"] = HOSTS[0] if name != HOSTS[0] else HOSTS[1]
        elif kind == "upper":          # the dialled peer's name in another letter case
            spec["host"] = name.upper()
        return cx.recv(f, spec) is not None
    if tok in ("dwr", "dwa", "dpr", "dpa"):
        return cx.recv(f, dict(kind=tok, host=cx.host_of(f))) is not None
    if tok == "dwr_osid":        # a watchdog request that carries the PEER's Origin-State-Id
        return cx.recv(f, dict(kind="dwr", host=cx.host_of(f), osid=1234567)) is not None
    if tok == "dwa_err":         # the peer answers the watchdog with a failure result: still an answer
        return cx.recv(f, dict(kind="dwa", host=cx.host_of(f), result=3004)) is not None
    if tok == "dpr_same_e2e":    # a DPR (no T flag) whose end-to-end id equals that of an answered request
        if not cx.answered:
            return False
        from diameter.message import Message
        return cx.recv(f, dict(kind="dpr", host=cx.host_of(f), hbh=cx.ids()[0],
                               e2e=Message.from_bytes(cx.answered[-1]).header.end_to_end_identifier)) is not None
    if tok == "dpa_err":         # the peer answers the DPR with a failure result
        return cx.recv(f, dict(kind="dpa", host=cx.host_of(f), result=5012)) is not None
    if tok == "dwr0":
        return cx.recv(f, dict(kind="dwr", host=cx.host_of(f), hbh=0, e2e=cx.ids()[1])) is not None
    if tok in ("req", "req0", "req_bad", "req_app", "req_realm", "req_unk", "req_raise", "req_unk_app", "req_unk2", "req_unk2t", "req_unk2s", "req_app0", "req_t", "req_third", "req_realm_app", "req_badrealm",
               "req_acr", "req_same_e2e", "req_unk_nohost"):
        spec = dict(kind="req", host=cx.host_of(f), app=app_ids[0] if app_ids else 4)
        if tok == "req0":
            spec.update(hbh=0, e2e=cx.ids()[1])
        elif tok == "req_bad":
            spec["no_type"] = True
        elif tok == "req_app":
            spec["app"] = 777
        elif tok == "req_realm":
            spec["drealm"] = "nowhere.example.com"
        elif tok == "req_unk":
            spec["code"] = 8388000
        elif tok == "req_raise":
            spec["raises"] = True
        elif tok == "req_unk_nohost":  # a command without a python class (no AVP is required of it) that carries NO Origin-Host
            spec["code"] = 8388000
            spec["host"] = None
        elif tok in ("req_unk2", "req_unk2t"):   # the same with TWO Origin-Host AVPs (and the T flag)
            spec["code"] = 8388000
            spec["app"] = 777
            spec["host2"] = "other.example.net"
            spec["t"] = tok == "req_unk2t"
        elif tok == "req_unk2s":       # a command without a python class, with TWO Session-Id AVPs
            spec["code"] = 8388000
            spec["app"] = 777
            spec["sessions"] = ["s;1", "s;2"]
        elif tok == "req_realm_app":   # a realm the node does not serve AND an application nobody registered: the realm decides (3003)
            spec["drealm"] = "nowhere.example.com"
            spec["app"] = 777
        elif tok == "req_badrealm":    # a Destination-Realm that is not text at all
            spec["drealm_raw"] = b"\xff\xfe\xfd"
        elif tok == "req_acr":         # an Accounting-Request bearing the application's id
            spec["code"] = 271
        elif tok == "req_same_e2e":    # a NEW request (no T flag) that reuses the end-to-end id of an answered one
            if not cx.answered:
                return False
            from diameter.message import Message
            spec["e2e"] = Message.from_bytes(cx.answered[-1]).header.end_to_end_identifier
            spec["hbh"] = cx.ids()[0]
        elif tok == "req_app0":        # application id 0 in the header, the application's id in the AVP only
            spec["hdr_app"] = 0
        elif tok == "req_t":           # a first-seen request that bears the T flag
            spec["t"] = True
        elif tok == "req_third":       # a realm in which only a peer without application / default role is known
            spec["drealm"] = "third.example.org"
        elif tok == "req_unk_app":     # a command without a python class for an application nobody registered
            spec["code"] = 8388000
            spec["app"] = 777
        return cx.recv(f, spec) is not None
    if tok in ("ra", "rb"):      # a request from origin host A (the peer) / B (another host behind it), answered by the application
        spec = dict(kind="req", host=cx.host_of(f) if tok == "ra" else "behind-relay.example.net", app=app_ids[0] if app_ids else 4)
        if cx.recv(f, spec) is None:
            return False
        if cx.delivered:
            app, h, e, w, _cid = cx.delivered.pop(0)
            if tok == "ra":
                cx.answered.append(w)
            cx.do(dict(ev="app_answer", app=app, msg=cx.g.make_answer(w)))
        return True
    if tok in ("req_twin", "retx_bg"):
        # req_twin: on the BACKGROUND connection (another peer, another origin host) a request with the SAME hop-by-hop and
        # end-to-end identifiers as the last request of the focus connection -- hop-by-hop identifiers are unique per
        # connection only;  retx_bg: the T-flagged repeat of that twin
        from diameter.message import Message
        bg = cx.conn.get("bg")
        if bg is None or not cx.alive(bg) or f not in cx.last_req:
            return False
        q = Message.from_bytes(cx.last_req[f])
        spec = dict(kind="req", host=cx.host_of(bg), app=app_ids[0] if app_ids else 4,
                    hbh=q.header.hop_by_hop_identifier, e2e=q.header.end_to_end_identifier, t=tok == "retx_bg")
        if tok == "retx_bg":
            spec["hbh"] = cx.ids()[0]
        return cx.recv(bg, spec) is not None
    if tok == "req_other":       # Destination-Realm of the other configured realm
        return cx.recv(f, dict(kind="req", host=cx.host_of(f), app=app_ids[0] if app_ids else 4, drealm="other.example.org")) is not None
    if tok in ("frag", "frag_rest"):
        # a read that carries only part of a frame (traffic, but no message yet) / the rest of it
        if not cx.alive(f):
            return False
        if tok == "frag":
            if getattr(cx, "pending_frag", None):
                return False
            h, e = cx.ids()
            fr = NS.build_message(dict(kind="dwr", host=cx.host_of(f), hbh=h, e2e=e))
            cx.pending_frag = (f, fr)
            cx.do(dict(ev="recv", cid=f, frames=[], raw=fr[:11]))
            return True
        if not getattr(cx, "pending_frag", None) or cx.pending_frag[0] != f:
            return False
        _f, fr = cx.pending_frag
        cx.pending_frag = None
        cx.do(dict(ev="recv", cid=f, frames=[fr], raw=fr[11:]))
        return True
    if tok == "req_plus_part":   # one read: a whole request followed by the first 24 bytes of the next frame; then the rest
        if not cx.alive(f) or getattr(cx, "pending_frag", None):
            return False
        h1, e1 = cx.ids()
        h2, e2 = cx.ids()
        f1 = NS.build_message(dict(kind="dwr", host=cx.host_of(f), hbh=h1, e2e=e1))
        f2 = NS.build_message(dict(kind="dwr", host=cx.host_of(f), hbh=h2, e2e=e2))
        cx.do(dict(ev="recv", cid=f, frames=[f1], raw=f1 + f2[:24]))
        cx.do(dict(ev="recv", cid=f, frames=[f2], raw=f2[24:]))
        return True
    if tok in ("retx_pending", "retx_old"):
        # T-flagged repeat of a request that is delivered but NOT yet answered / of the OLDEST answered request
        from diameter.message import Message
        if not cx.alive(f):
            return False
        if tok == "retx_pending":
            if not cx.delivered:
                return False
            w = cx.delivered[-1][3]
        else:
            if len(cx.answered) < 2:
                return False
            w = cx.answered[0]
        m = Message.from_bytes(w)
        m.header.is_retransmit = True
        m.header.hop_by_hop_identifier = cx.ids()[0]
        cx.do(dict(ev="recv", cid=f, frames=[m.as_bytes()]))
        return True
    if tok == "retx":          # T-flagged repeat of the last answered request, new hop-by-hop id
        if not cx.answered or not cx.alive(f):
            return False
        from diameter.message import Message
        m = Message.from_bytes(cx.answered[-1])
        m.header.is_retransmit = True
        m.header.hop_by_hop_identifier = cx.ids()[0]
        cx.do(dict(ev="recv", cid=f, frames=[m.as_bytes()]))
        return True
    if tok in ("ans", "ans_exp"):
        if not cx.delivered:
            return False
        app, h, e, w, _cid = cx.delivered.pop(0)
        cx.answered.append(w)
        cx.do(dict(ev="app_answer", app=app, msg=cx.g.make_answer(w, experimental=tok == "ans_exp")))
        return True
    if tok == "ans_err":         # the application turns the request down: 3004 with the E bit
        if not cx.delivered:
            return False
        app, h, e, w, _cid = cx.delivered.pop(0)
        cx.answered.append(w)
        a = cx.g.make_answer(w)
        a.result_code = 3004
        a.header.is_error = True
        cx.do(dict(ev="app_answer", app=app, msg=a))
        return True
    if tok in ("stray", "stray_dwa_t"):   # an answer nobody waits for / a T-flagged DWA with the e2e id of an answered request
        if not cx.alive(f):
            return False
        if tok == "stray":
            h, e = cx.ids()
            cx.do(dict(ev="recv", cid=f, frames=[NS.build_message(dict(kind="ans", hbh=h, e2e=e, host=cx.host_of(f)))]))
            return True
        if not cx.answered:
            return False
        from diameter.message import Message
        q = Message.from_bytes(cx.answered[-1])
        fr = bytearray(NS.build_message(dict(kind="dwa", hbh=cx.ids()[0], e2e=q.header.end_to_end_identifier, host=cx.host_of(f))))
        fr[4] |= 0x10
        cx.do(dict(ev="recv", cid=f, frames=[bytes(fr)]))
        return True
    if tok == "stray_t":         # an ANSWER bearing the T flag and the end-to-end id of an answered request
        if not cx.answered or not cx.alive(f):
            return False
        from diameter.message import Message
        q = Message.from_bytes(cx.answered[-1])
        fr = bytearray(NS.build_message(dict(kind="ans", hbh=cx.ids()[0], e2e=q.header.end_to_end_identifier, host=cx.host_of(f))))
        fr[4] |= 0x10
        cx.do(dict(ev="recv", cid=f, frames=[bytes(fr)]))
        return True
    if tok == "ans_again":
        if not cx.answered:
            return False
        cx.do(dict(ev="app_answer", app=0, msg=cx.g.make_answer(cx.answered[-1])))
        return True
    if tok in ("t1", "t3", "tbig", "tdwa", "t30", "t1200"):
        dt = {"t1": 1, "t3": 3, "tbig": 6, "tdwa": 4, "t30": 31, "t1200": 1200}[tok]
        cx.do(dict(ev="tick", dt=dt, dials=[(7100 + len(cx.events), "DialOk")] * (dt + 2)))
        return True
    if tok == "close":
        if not cx.alive(f):
            return False
        cx.do(dict(ev="close", cid=f))
        return True
    if tok in ("stall", "unstall"):
        if not cx.alive(f) or (tok == "stall") == (f in cx.r.stalled):
            return False
        cx.do(dict(ev="stall", cid=f, on=tok == "stall"))
        return True
    if tok in ("stop", "stopf"):
        if cx.stopped:
            return False
        cx.stopped = True
        o = cx.do(dict(ev="stop", force=tok == "stopf", timeout=20))
        cx.stop_immediate = tok == "stopf" or not o["snap"]["conns"]
        return True
    if tok in ("appreq", "appreq1", "appreq_v"):
        if cx.stopped or (tok == "appreq1" and len(cx.cfg["apps"]) < 2) or not cx.cfg["apps"]:
            return False
        from diameter.message.commands import CreditControlRequest
        m = CreditControlRequest()
        m.session_id = "enum;%d" % len(cx.events)
        m.origin_host = cx.cfg["host"].encode()
        m.origin_realm = cx.cfg["realm"].encode()
        # appreq_v: addressed to the realm of the first configured peer (which may differ from the node's)
        m.destination_realm = (cx.cfg["peers"][0]["realm"] if tok == "appreq_v" else cx.cfg["realm"]).encode()
        m.service_context_id = "ctx"
        m.cc_request_type = 1
        m.cc_request_number = 0
        cx.do(dict(ev="app_request", app=1 if tok == "appreq1" else 0, msg=m, pick=0, timeout=30))
        return True
    if tok == "ansreq":
        if not cx.outstanding:
            return False
        cid, h, e = cx.outstanding.pop(0)
        if not cx.alive(cid):
            return False
        cx.do(dict(ev="recv", cid=cid, frames=[NS.build_message(dict(kind="ans", hbh=h, e2e=e, host=cx.host_of(cid)))]))
        return True
    if tok in ("accept", "accept_bg") and (not cx.r.sim.listeners or getattr(cx.r.sim.listeners[0], "closed", False)):
        return False
    if tok == "accept":
        # variant 0: the connection's hop-by-hop generator is about to wrap (0xffffffff is followed by 1, never by 0)
        h0 = 0xfffffffe if cx.cfg.get("variant") == 0 else (5000 if cx.cfg.get("variant") == 2 else 5000 + 17 * len(cx.r.remotes))
        cx.do(dict(ev="accept", hbh0=h0))
        cx.focus = len(cx.r.remotes) - 1
        return True
    if tok == "accept_bg":       # a further connection that does not take the focus
        # (variant 2: its hop-by-hop generator starts where the first connection's did: equal ids on two connections)
        cx.do(dict(ev="accept", hbh0=5000 if cx.cfg.get("variant") == 2 else 5000 + 17 * len(cx.r.remotes)))
        cx.conn["bg"] = len(cx.r.remotes) - 1
        return True
    if tok == "swap":            # move the focus to the other connection
        other = cx.conn.get("bg")
        if other is None:
            return False
        cx.conn["bg"], cx.focus = cx.focus, other
        return True
    raise ValueError(tok)


THEMES = {
    # theme: (config variants, setup tokens, alphabet)
    "handshake_in": ((0, 1, 2, 5, 9, 10), ["accept"],
                     ["cer_known", "cer_vsai", "cer_acctonly", "cer_unknown", "cer_nocommon", "cer_relay", "cer_relayacct", "cer_swapped", "cea_ok", "dwr", "dpr", "req", "ans",
                      "tdwa", "close", "accept_bg", "swap"]),
    "handshake_out": ((0, 1, 2, 9), [],
                      ["cea_ok", "cea_upper", "cea_2002", "cea_3010", "cea_nohost", "cea_foreign", "cer_known1", "cer_known", "dwr", "dwa", "dpr", "req",
                       "tdwa", "t1", "close", "appreq"]),
    "ready": ((0, 1, 2), ["accept", "cer_known"],
              ["dwr", "dwr0", "dwa", "dpr", "dpa", "req", "req0", "req_raise", "req_bad", "req_app", "req_realm", "req_unk", "req_unk2", "req_unk2t", "req_unk2s", "retx", "ans", "ans_exp",
               "ans_again", "t1", "tbig", "tdwa", "stall", "unstall", "stop", "stopf", "close", "appreq", "ansreq", "cea_ok",
               "cer_known", "accept_bg", "swap"]),
}


# phased themes: a list of phases, each ("fixed", [tokens]) or ("any", alphabet, max length); every combination is run
PHASED = {
    "shutdown": ((0, 1, 8), ["accept", "cer_known"],
                 [("any", ["dwr", "req", "tbig", "stall", "accept_bg"], 2), ("fixed", ["stop"]),
                  ("any", ["dpa", "dpa_err", "tbig", "bg_cer", "unstall", "dwr"], 2)]),
    "shutdown_deep": ((0, 1, 8), ["accept", "cer_known"],
                      [("any", ["dwr", "req", "tbig", "stall", "appreq", "accept_bg"], 2), ("fixed", ["stop"]),
                       ("any", ["dpa", "dwr", "req", "t1", "tbig", "unstall", "accept_bg", "close", "ans", "bg_cer"], 2)]),
    "disconnect": ((0, 1, 2), ["accept", "cer_known"],
                   [("any", ["tbig", "dpr", "dwa", "dwr", "req", "t1", "close"], 3)]),
    # a request is answered, then the peer reuses its end-to-end id on a fresh request / on its DPR (no T flag: not a retransmission)
    "reused_e2e": ((0, 1), ["accept", "cer_known", "req", "ans"],
                   [("any", ["dpr_same_e2e", "req_same_e2e", "dwr", "ans", "t1", "retx"], 3)]),
    "disconnect_deep": ((0, 1, 2), ["accept", "cer_known"],
                        [("any", ["tbig", "dpr", "dwa", "dwr", "req", "ans", "t1", "close", "appreq", "cea_ok"], 4)]),
    "watchdog": ((0, 1), ["accept", "cer_known"],
                 [("any", ["tbig", "tdwa", "t1", "t3", "dwa", "dwa_err", "dwr", "dwr_osid", "req", "dpr", "stall", "unstall", "appreq"], 3)]),
    # the capabilities exchange completes only after a timer pass has already looked at the connection
    "late_cer": ((1, 0), ["accept", "t1", "cer_known"],
                 [("any", ["tbig", "tdwa", "t1", "t3", "dwa", "dwr"], 3)]),
    # a peer that comes back long after its last message (per-peer statistics windows have expired)
    "comeback": ((0, 4), ["accept", "cer_known"],
                 [("any", ["req", "ans"], 2), ("fixed", ["close", "t1200", "accept", "cer_known"]), ("any", ["req", "dwr", "ans"], 2)]),
    "default_peer": ((4, 7), ["accept", "cer_known", "accept_bg", "bg_cer"],
                     [("any", ["req", "swap", "ans", "appreq", "appreq_v", "req_app", "dwr"], 3)]),
    "partial_reads": ((0, 2), ["accept", "cer_known"],
                      [("any", ["req_plus_part", "frag", "frag_rest", "req", "ans", "dwr", "t1"], 3)]),
    "answers": ((0, 2), ["accept", "cer_known"],
                [("any", ["req", "req0", "req_t", "req_app0", "req_raise", "req_unk_app", "req_unk2", "req_unk2t", "req_unk2s", "ans", "ans_exp", "ans_err", "stray_t", "ans_again", "close", "dpr", "accept_bg", "swap", "cer_known", "retx"], 3)]),
    "retransmit": ((0, 2), ["accept", "cer_known"],
                   [("any", ["req", "ans", "ans_exp", "req_same_e2e", "retx", "retx_pending", "retx_old", "req_unk", "req_realm", "req_app", "t1"], 4)]),
    # a request of origin A answered, then up to 3 answered requests of A / B (window size 2: eviction), then the T-flagged repeat
    "retransmit_two_origins": ((0,), ["accept", "cer_known"],
                               [("fixed", ["ra"]), ("any", ["ra", "rb", "t1"], 3), ("fixed", ["retx"]), ("any", ["retx", "rb"], 1)]),
    "two_peers": ((2, 0), ["accept", "cer_known", "accept_bg", "bg_cer"],
                  [("any", ["tbig", "tdwa", "t1", "dwa", "close", "swap", "dpr", "req", "ans", "appreq", "appreq1", "ansreq", "stall",
                            "unstall"], 3)]),
    "realms": ((3, 6), ["accept", "cer_known", "accept_bg", "bg_cer"],
               [("any", ["req", "req_other", "req_third", "req_realm_app", "req_badrealm", "req_acr", "swap", "ans", "appreq", "req_app", "req_app0", "close", "dpr", "tbig"], 3)]),
    # the node itself keeps sending (requests, late answers) while the peer says nothing: only what is RECEIVED counts
    # as activity for the watchdog
    "busy_sender": ((0, 1), ["accept", "cer_known", "req"],
                    [("any", ["appreq", "t3", "tdwa", "dwa", "ans"], 4)]),
    # the peer asks to disconnect, keeps the old connection open and comes back on a new one
    "reconnect_after_dpr": ((0, 2), ["accept", "cer_known"],
                            [("fixed", ["dpr", "accept_bg", "swap", "cer_known"]), ("any", ["swap", "close", "req", "t1", "tbig", "ans", "dwr"], 3)]),
    # a request is pending when a second connection presents the same peer's name and is refused / elected
    "refused_twin": ((0, 2), ["accept", "cer_known"],
                     [("fixed", ["req", "accept_bg", "swap"]), ("any", ["cer_known", "cer_nocommon", "swap", "ans", "close", "t1"], 4)]),
    # after a request was answered the peer sends nothing but ANSWERS (stray ones, T-flagged ones repeating the answered
    # end-to-end id): none of them may draw an answer
    "answers_only": ((0, 2), ["accept", "cer_known"],
                     [("fixed", ["req", "ans"]), ("any", ["stray_t", "stray_dwa_t", "stray", "dwa", "dpa"], 3)]),
    # two peers whose requests bear the SAME hop-by-hop and end-to-end identifiers (unique per connection only), pending at
    # the same time, answered in either order, then repeated with the T flag
    "twin_ids": ((0, 2), ["accept", "cer_known", "accept_bg", "bg_cer"],
                 [("fixed", ["req", "req_twin"]), ("any", ["ans", "retx", "retx_bg", "swap", "req", "close"], 4)]),
    # the dialled peer answers with a CEA that names ANOTHER configured peer; then that other peer really connects, sends a
    # request, and the application answers it
    "foreign_cea": ((0, 2), [],
                    [("fixed", ["cea_foreign", "accept_bg", "swap", "cer_known", "req"]), ("any", ["ans", "swap", "close", "t1", "req"], 3)]),
    # a request that names no origin is pending when its connection is lost; the peer comes back and the application
    # answers late: nothing may be written on the new connection
    "nohost_reconnect": ((0, 2), ["accept", "cer_known"],
                         [("any", ["req", "req_unk_nohost"], 1), ("fixed", ["req_unk_nohost", "close", "accept", "cer_known"]),
                          ("any", ["ans", "ans_again", "req", "req_unk_nohost", "t1", "close"], 3)]),
    "fragments": ((0, 1), ["accept", "cer_known"],
                  [("any", ["frag", "frag_rest", "t1", "tdwa", "tbig", "dwr"], 4)]),
}


# themes whose sequences up to this length are all run (longer ones are sampled)
KEEP_LEN = {"busy_sender": 3}


def phased_sequences(theme):
    _v, _setup, phases = PHASED[theme]
    options = []
    for ph in phases:
        if ph[0] == "fixed":
            options.append([tuple(ph[1])])
        else:
            _k, alpha, mx = ph
            options.append([seq for d in range(mx + 1) for seq in itertools.product(alpha, repeat=d)])
    for combo in itertools.product(*options):
        yield tuple(t for part in combo for t in part)


def enumerate_phased(theme, limit=None, seed=0):
    variants, _setup, _ph = PHASED[theme]
    THEMES[theme] = (variants, _setup, [])
    if limit == 0:
        return
    seqs = list(phased_sequences(theme))
    if limit is not None and len(seqs) > limit:
        seqs.sort(key=len)
        shortest = len(seqs[0])
        full = KEEP_LEN.get(theme, shortest + 2)
        keep = [q for q in seqs if len(q) <= full][:limit]
        rest = [q for q in seqs if len(q) > full]
        seqs = keep + random.Random(seed).sample(rest, max(0, min(len(rest), limit - len(keep))))
    seen = set()
    for k, seq in enumerate(seqs):
        for v in (variants if len(seq) <= 2 else (variants[k % len(variants)],)):
            cfg, events, obs, applied = run_sequence(theme, v, seq)
            if (v, applied) in seen:
                continue
            seen.add((v, applied))
            yield (f"{theme}/v{v}/" + ",".join(applied), cfg, events, obs)


def run_sequence(theme, variant, seq):
    variants, setup, _alpha = THEMES[theme]
    cfg = base_cfg(variant)
    cx = Ctx(cfg)
    try:
        if theme in ("handshake_out", "foreign_cea"):
            cx.do(dict(ev="start", dials=[(4242, "DialOk")]))
            cx.focus = 0
        else:
            cx.do(dict(ev="start", dials=[(4242, "DialRefused")]))
        for t in setup:
            act(cx, t)
        applied = []
        for t in seq:
            if act(cx, t):
                applied.append(t)
        if cx.stopped:
            cx.do(dict(ev="stop_finish", dials=[]))
    finally:
        cx.r.shutdown()
    return cfg, cx.events, cx.obs, tuple(applied)


def enumerate_theme(theme, depth, extra_random=0, max_len=6, seed=0, tokens=None):
    """yields (name, cfg, events, obs): every sequence of length <= depth, then `extra_random` longer random ones"""
    variants, _setup, alpha = THEMES[theme]
    if tokens:
        alpha = [a for a in alpha if a in tokens]
    seen = set()
    rng = random.Random(seed)

    def one(variant, seq):
        cfg, events, obs, applied = run_sequence(theme, variant, seq)
        key = (variant, applied)
        if key in seen:
            return None
        seen.add(key)
        return (f"{theme}/v{variant}/" + ",".join(applied), cfg, events, obs)
    for d in range(1, depth + 1):
        for seq in itertools.product(alpha, repeat=d):
            # the configuration variants alternate instead of multiplying the count
            v = variants[(hash(seq) if False else sum(map(len, seq)) + d) % len(variants)]
            x = one(v, seq)
            if x:
                yield x
    for _ in range(extra_random):
        seq = [rng.choice(alpha) for _ in range(rng.randrange(depth + 1, max_len + 1))]
        x = one(rng.choice(variants), seq)
        if x:
            yield x
