(* Observation functions evaluated by the correspondence (cases_*.v) and the
   boolean equalities they need.  Definitions only. *)
From DV Require Import Prelude.Base Model.Wire Model.Types.

Definition avp_eqb (a b : avp) : bool :=
  (a_code a =? a_code b) && (a_flags a =? a_flags b) && (a_vendor a =? a_vendor b)
  && bytes_eqb (a_payload a) (a_payload b).

Definition value_eqb (a b : value) : bool :=
  match a, b with
  | VBytes x, VBytes y => bytes_eqb x y
  | VText x, VText y => list_eqb Z.eqb x y
  | VInt x, VInt y => x =? y
  | VFloat x, VFloat y => x =? y
  | VTime x, VTime y => x =? y
  | VAddr f x, VAddr g y => (f =? g) && bytes_eqb x y
  | VAvps x, VAvps y => list_eqb avp_eqb x y
  | _, _ => false
  end.

Definition res_eqb {A} (eqb : A -> A -> bool) (a b : result A) : bool :=
  match a, b with
  | Ok x, Ok y => eqb x y
  | Err e, Err f => err_eqb e f
  | _, _ => false
  end.

Definition hdr_eqb (a b : hdr) : bool :=
  (h_version a =? h_version b) && (h_length a =? h_length b) && (h_flags a =? h_flags b)
  && (h_code a =? h_code b) && (h_app a =? h_app b) && (h_hbh a =? h_hbh b) && (h_e2e a =? h_e2e b).

(* Avp.new(...).as_bytes() *)
Definition obs_new (rows : list drow) (k : time_consts) (code vendor : Z) (v : option value)
           (mand priv : option bool) : result bytes :=
  let! a := avp_new rows k code vendor v mand priv in enc_avp a.

(* Avp.from_bytes(bs): class, fields, .value, .as_bytes(); ConversionError is
   re-raised as AvpDecodeError by from_bytes *)
Definition obs_dec (rows : list drow) (k : time_consts) (bs : bytes)
  : result (ty * avp * result value * result bytes) :=
  match dec_avp bs with
  | Err ConversionError => Err AvpDecodeError
  | Err e => Err e
  | Ok (a, _) => let t := type_of (dict_of rows) a in
                 Ok (t, a, dec_val k t (a_payload a), enc_avp a)
  end.

Definition obs_dec_eqb (x y : result (ty * avp * result value * result bytes)) : bool :=
  res_eqb (fun p q => let '(t1, a1, v1, b1) := p in let '(t2, a2, v2, b2) := q in
             ty_eqb t1 t2 && avp_eqb a1 a2 && res_eqb value_eqb v1 v2 && res_eqb bytes_eqb b1 b2) x y.

(* direct setter on a typed AVP object: payload or the error raised *)
Definition obs_set (k : time_consts) (t : ty) (v : value) : result bytes := enc_val k t v.
