(* C17 as a HISTORY property of the node model (Model/Node.v).

   The window of answered end-to-end identifiers that the node keeps per origin host
   (n_sent_answers) is compared with a ghost history computed from what the node RECEIVES
   (the frames that pass the connection's gate) and what it QUEUES (OQueue outputs carrying answers).

   Attribution of an answer to an origin host.  The ghost keeps a table of PENDING requests, keyed like the node's
   origin table (hop-by-hop identifiers are unique per connection only):
   (connection id, hop-by-hop id, end-to-end id) -> origin host:
     - when a request with a declared Origin-Host attribute is received on connection cid (it passes the gate of an
       existing connection), its key (cid, pair) is bound to its origin (an absent value counts as the origin
       "<none>", as in the implementation); an older pending request with the SAME key (same connection, same pair)
       is FORGOTTEN (the later request takes the key over: this is what _receive_message does, so no distinctness
       hypothesis on the pairs of unanswered requests is needed; under that hypothesis nothing is ever forgotten);
       a pending request with the same pair on ANOTHER connection stays
       (C17_history_example_same_pair_two_connections);
     - when an answer is queued on connection cid (OQueue cid a, o_req a = false), it is attributed to the origin
       bound to (cid, o_hbh a, o_e2e a) in the table, the end-to-end id is appended to that origin's history and
       exactly that binding is dropped; an answer whose key is not pending is attributed to nobody.
     - when connections are closed (remove_peer_connection), the requests they had delivered to an application
       and that are still unanswered will never be answered: the node pops the host's entry of the per-host
       table n_peer_waiting and forgets, in the origin table, the entries OF THE CLOSING CONNECTION whose pair was
       listed there.  The ghost does the same (ghost_drop / `closing`): it reads the connections that were
       closed, in order, off the OClose outputs (`closes`), and the host identities (c_host, `host_of`) and the
       per-host table off the node state at the beginning of the phase.  The order matters: connections may carry
       the same host identity (all connections carry "" before their capabilities exchange), and the first of them
       to be removed takes the host's list with it (`closing` pops the host's entry as the node does).  Without
       this drop a stale binding could attribute a later answer that reuses the key to an origin for which the
       node records nothing (C17_history_example_close).  `keeps n cl n'` / keeps_spec: every node function only
       removes the connections its OClose outputs name, in that order (kc).  A connection accepted while the node
       is stopping is refused with an OClose for an identifier that never was a connection: nothing happens.
     - a request that will never be answered is FORGOTTEN (Node.drop_origin; ghost_unbind removes the binding
       of its key, like the filter of record_answer):
         * an unexpected CER: a capabilities-exchange request that reaches _receive_message on a connection whose
           state is not CONNECTED (`cer_unexpected`, read off the node state at that frame) is either answered with
           an error (5005 / 5012) or ignored; after the outputs of its frame (the error answer, if any, is
           attributed first) its key (cid, pair) is unbound (C17_history_example_cer_ignored);
         * an application's answer that is not routable (fst (route_answer n m) = None, trace entry
           [ONotRoutable]) although a host was waiting for it in the per-host table and a connection c carries that
           host's identity (`waits` = Some (c_id c)): the connection is no longer ready; the key (c_id c, pair) is
           unbound (C17_history_example_answer_not_routable).  When no connection carries the host's identity
           nothing is unbound: the entries of a connection left with it (NodeC: C09_unroutable_releases_origin /
           C09_unroutable_no_conn_keeps_origin).
   `answered n0 evs o` is the list of end-to-end ids attributed to o, oldest first.  The ghost never looks
   at n_origin_waiting or n_sent_answers: that its table coincides with n_origin_waiting is part of the
   invariant (C17_history_pending).  Of the node's state it reads which frames pass the gate
   (`received`), frame by frame (a network read may hold several frames, and the gate of the second
   depends on what the first did): ghost_frames; there also whether the frame's connection is awaiting a CER
   (c_state); the host identities of the connections and the per-host table n_peer_waiting at the beginning of every
   phase in which connections may be closed; whether the node is stopping when a connection is accepted; and, for an
   application's answer, whether Node.route_answer finds a connection for it.  Order within one event:
     network read    drop (the I/O thread finishes its iteration: n -> read_state), then per frame
                     [bind the request; drop (CER election, CEA/DPA handling close connections before anything
                     is queued); see the outputs; unbind an unexpected CER], then drop (flush + I/O iteration
                     afterwards, from the state after the last frame);
     answer of an application   routable: see the outputs, then drop from the state in which the answer has been
                     queued (Node.route_answer and Node.send_message have taken the pair out of the per-host
                     table; the I/O thread runs after the answer is queued); not routable: unbind the key if a
                     host was waiting for it and has a connection, else nothing;
     any other event see the outputs (the trace entry; no answer among them), then drop.
   recv_trace_answers / answered_from_trace tie the frame-by-frame outputs back to the trace.

   Results.
     trace_run                         the trace agrees with `run`
     C17_history_window (_gen)         window of o = last g_rsize elements of `answered n0 evs o`
     C17_history_pending               the ghost's pending table = n_origin_waiting
     C17_history_duplicate_rejected    T flag + end-to-end id in that tail => exactly one 5012 answer, no delivery
     C17_history_no_false_duplicate    no T flag, or id not in that tail => outputs of the routing function
                                       for the unflagged request (C08_route_refines)
     C17_history_flag_irrelevant       same premise, any command: the T flag changes nothing at all
     answered_from_trace               every element of the history is an answer queued in the trace
   Hypotheses.  wf_init n0 (only "n_origin_waiting and n_sent_answers start empty" is used for the window,
   see _gen; reachability gives the distinct origins of the table).  For the two step theorems the
   connection must exist when the bytes arrive (get_conn n cid) and be READY in the state in which the
   reader thread sees the frame (`read_state n ds cid`, NodeD): the I/O thread finishes its iteration first
   and may in that iteration close the connection on a watchdog timeout.  "Well-formed" (validation off or
   no missing AVP) is needed for the rejection and for flag_irrelevant, not for no_false_duplicate (the
   routing function covers the 5005 case).  No hypothesis on the distinctness of pairs (see above;
   ghost_request_fresh, C17_history_example_pair_reuse). *)
(* (Before the origin table was keyed by connection the pending table was list (Z * Z * string), keyed by the pair
   alone; ghost_request / ghost_answer / ghost_unbind took no connection id, and ghost_drop dropped the pairs of
   the hosts that had left the per-host table between two states (`gone_between`), whichever connection had
   received them.) *)
From DV Require Import Prelude.Base Model.Node Proofs.NodeB Proofs.NodeC Proofs.NodeD.
From Coq Require Import String.

(* ====================================================================== *)
(* 0. the trace of a run                                                   *)
(* ====================================================================== *)
Fixpoint trace (n : node) (evs : list (dials * event)) : list (event * list output) :=
  match evs with
  | [] => []
  | de :: r => (snd de, snd (step n (fst de) (snd de))) :: trace (fst (step n (fst de) (snd de))) r
  end.

Lemma run_fold evs : forall n acc,
  List.fold_left (fun acc de => let '(n, outs) := acc in
                                let '(n', o) := step n (fst de) (snd de) in (n', (outs ++ [o])%list)) evs (n, acc)
  = (fst (run n evs), (acc ++ List.map snd (trace n evs))%list).
Proof.
  induction evs as [|de r IH]; intros n acc.
  - cbn. rewrite List.app_nil_r. reflexivity.
  - rewrite run_cons. cbn [List.fold_left trace List.map snd].
    destruct (step n (fst de) (snd de)) as [n' o]. cbn [fst snd]. rewrite IH.
    rewrite <- List.app_assoc. reflexivity.
Qed.

(* the trace lists the events of the run, each with the outputs `run` reports for it *)
Theorem trace_run n evs :
  List.map snd (trace n evs) = snd (run n evs) /\ List.map fst (trace n evs) = List.map snd evs.
Proof.
  split.
  - unfold run at 1. rewrite run_fold. reflexivity.
  - revert n. induction evs as [|de r IH]; intros n; [reflexivity|].
    cbn [trace List.map fst]. rewrite IH. reflexivity.
Qed.

(* ====================================================================== *)
(* 1. what every function leaves alone, and what closing a connection drops *)
(* ====================================================================== *)
(* the per-host table of delivered, unanswered requests; what a closing connection takes with it *)
(* `keeps n cl n'`: between n and n' the connections cl were removed, one after the other; each removal takes the
   entry of the connection's host out of the per-host table and, out of the origin table, the entries OF THAT
   CONNECTION whose pair was listed there; windows and configuration stay (same4 / drop1).  Two connections may
   carry the same host identity: the first one removed takes the host's list, so the ORDER of the removals
   matters; it is read off the OClose outputs (`closes`).  keeps_spec: the net effect on the origin table is
   `closing`, computed from the host identities and the per-host table before, and the removals in order. *)
Definition pw_t : Type := list (string * list (Z * Z)).
Definition ow_t : Type := list (nat * Z * Z * string).
Definition look (pw : pw_t) (host : string) : list (Z * Z) :=
  match List.find (fun e => String.eqb (fst e) host) pw with Some e => snd e | None => [] end.
Definition pw_pop (pw : pw_t) (host : string) : pw_t :=
  List.filter (fun e => negb (String.eqb (fst e) host)) pw.
(* connection cid is removed while `gone` is waiting under its host *)
Definition ow_close (cid : nat) (gone : list (Z * Z)) (ow : ow_t) : ow_t :=
  List.filter (fun x => let '(k, h, e, _) := x in negb (Nat.eqb k cid && mem_zz (h, e) gone)) ow.
(* the host identity of connection k ("" before the capabilities exchange, and for no connection) *)
Definition hst (l : list conn) (k : nat) : string := match hostl l k with Some h => h | None => ""%string end.
Definition host_of (n : node) (k : nat) : string := hst (n_conns n) k.
(* the connections closed, in order *)
Definition closes (outs : list output) : list nat :=
  List.flat_map (fun o => match o with OClose c _ => [c] | _ => [] end) outs.
Fixpoint closing (hf : nat -> string) (pw : pw_t) (cl : list nat) (ow : ow_t) : ow_t :=
  match cl with
  | [] => ow
  | cid :: r => closing (fun k => if Nat.eqb k cid then ""%string else hf k) (pw_pop pw (hf cid)) r
                        (ow_close cid (look pw (hf cid)) ow)
  end.

Definition same4 (n n' : node) : Prop :=
  n_peer_waiting n' = n_peer_waiting n /\ n_origin_waiting n' = n_origin_waiting n
  /\ n_sent_answers n' = n_sent_answers n /\ n_cfg n' = n_cfg n
  /\ forall k, host_of n' k = host_of n k.
Definition drop1 (cid : nat) (n n' : node) : Prop :=
  n_peer_waiting n' = pw_pop (n_peer_waiting n) (host_of n cid)
  /\ n_origin_waiting n' = ow_close cid (look (n_peer_waiting n) (host_of n cid)) (n_origin_waiting n)
  /\ n_sent_answers n' = n_sent_answers n /\ n_cfg n' = n_cfg n
  /\ forall k, host_of n' k = if Nat.eqb k cid then ""%string else host_of n k.
Inductive keeps : node -> list nat -> node -> Prop :=
| k_same n n' : same4 n n' -> keeps n [] n'
| k_drop cid n n1 cl n' : drop1 cid n n1 -> keeps n1 cl n' -> keeps n (cid :: cl) n'.

Lemma same4_refl n : same4 n n.
Proof. repeat split. Qed.
Lemma same4_trans a b c : same4 a b -> same4 b c -> same4 a c.
Proof.
  intros (A1 & A2 & A3 & A4 & A5) (B1 & B2 & B3 & B4 & B5). repeat split; try congruence.
Qed.
Lemma keeps_refl n : keeps n [] n.
Proof. apply k_same, same4_refl. Qed.
Lemma same4_keeps a b cl c : same4 a b -> keeps b cl c -> keeps a cl c.
Proof.
  intros S K. revert a S. induction K as [b c S2|cid b b1 cl c (D1 & D2 & D3 & D4 & D5) K IH]; intros a S.
  - apply k_same. eapply same4_trans; eassumption.
  - destruct S as (A1 & A2 & A3 & A4 & A5). apply (k_drop cid a b1 cl c); [|exact K].
    rewrite A5, A1, A2 in *. repeat split; try congruence. intros k. rewrite D5, A5. reflexivity.
Qed.
Lemma keeps_trans a c1 b c2 c : keeps a c1 b -> keeps b c2 c -> keeps a (c1 ++ c2) c.
Proof.
  intros K1 K2. induction K1 as [a b S|cid a a1 cl b D K IH]; [eapply same4_keeps; eassumption|].
  cbn [List.app]. eapply k_drop; [exact D|]. apply IH. exact K2.
Qed.

Lemma closes_app a b : closes (a ++ b) = (closes a ++ closes b)%list.
Proof. apply List.flat_map_app. Qed.

(* a node function result: the connections its outputs report as closed were removed, in that order *)
Definition kc (n : node) (r : node * list output) : Prop := keeps n (closes (snd r)) (fst r).
Lemma kc_nil n : kc n (n, []).
Proof. apply keeps_refl. Qed.
Lemma kc_same n n' o : same4 n n' -> closes o = [] -> kc n (n', o).
Proof. intros S E. unfold kc. cbn [fst snd]. rewrite E. apply k_same, S. Qed.
Lemma kc_app n n1 o1 n2 o2 : kc n (n1, o1) -> kc n1 (n2, o2) -> kc n (n2, (o1 ++ o2)%list).
Proof. unfold kc. cbn [fst snd]. rewrite closes_app. apply keeps_trans. Qed.
Lemma kc_pre n n0 r : same4 n n0 -> kc n0 r -> kc n r.
Proof. intros S K. eapply same4_keeps; eassumption. Qed.
Lemma kc_post n n1 o n2 : kc n (n1, o) -> same4 n1 n2 -> kc n (n2, o).
Proof.
  intros K S. pose proof (kc_app n n1 o n2 [] K (kc_same n1 n2 [] S eq_refl)) as H.
  rewrite List.app_nil_r in H. exact H.
Qed.
Lemma kc_cons n n' x o : closes [x] = [] -> kc n (n', o) -> kc n (n', x :: o).
Proof. intros E K. apply (kc_app n n [x] n' o); [apply kc_same; [apply same4_refl|exact E]|exact K]. Qed.

(* host identities: untouched by updates that keep identity, by new connections, by other removals *)
Lemma hst_upd l cid f k : keeps_id f -> (forall c, c_host (f c) = c_host c) -> hst (upd_conn l cid f) k = hst l k.
Proof. intros H1 H2. unfold hst. rewrite hostl_upd by assumption. reflexivity. Qed.
Lemma hst_new l x k : c_host x = ""%string -> hst (l ++ [x]) k = hst l k.
Proof.
  intros Hx. unfold hst, hostl. induction l as [|a l IH]; cbn [List.app List.find].
  - destruct (Nat.eqb (c_id x) k); cbn; [exact Hx|reflexivity].
  - destruct (Nat.eqb (c_id a) k); [reflexivity|exact IH].
Qed.
Ltac hs :=
  intro; unfold host_of;
  cbn [fst snd n_conns n_peers set_conns set_peers set_apps set_tables set_waiting set_time set_misc];
  repeat first [reflexivity | rewrite hst_upd by fr_fn | rewrite hst_new by reflexivity].
Ltac s4 := solve [split; [reflexivity|split; [reflexivity|split; [reflexivity|split; [reflexivity|hs]]]]].
Ltac kp := solve [apply kc_same; [s4|reflexivity]].

Lemma remove_conn_k n cid r c : get_conn n cid = Some c -> drop1 cid n (remove_conn n cid r).
Proof.
  intros Hc. assert (Hh : host_of n cid = c_host c).
  { unfold host_of, hst. fold (hostof n cid). rewrite (hostof_get _ _ _ Hc). reflexivity. }
  unfold drop1. rewrite Hh, (rc_pw _ _ r _ Hc), (rc_ow _ _ r _ Hc), (rc_sa _ _ r _ Hc), (rc_cfg _ _ r _ Hc).
  repeat split. intros k. unfold host_of, hst. rewrite (rc_conns _ _ r _ Hc).
  destruct (Nat.eqb k cid) eqn:E.
  - apply Nat.eqb_eq in E. subst k. rewrite hostl_filter_self. reflexivity.
  - apply Nat.eqb_neq in E. rewrite hostl_filter by exact E. reflexivity.
Qed.

Lemma closing_ext cl : forall hf hf' pw ow, (forall k, hf k = hf' k) -> closing hf pw cl ow = closing hf' pw cl ow.
Proof.
  induction cl as [|cid r IH]; intros hf hf' pw ow H; [reflexivity|]. cbn [closing]. rewrite (H cid).
  apply IH. intros k. rewrite (H k). reflexivity.
Qed.

Lemma keeps_spec n cl n' : keeps n cl n' ->
  n_sent_answers n' = n_sent_answers n /\ n_cfg n' = n_cfg n
  /\ n_origin_waiting n' = closing (host_of n) (n_peer_waiting n) cl (n_origin_waiting n).
Proof.
  induction 1 as [n n' (S1 & S2 & S3 & S4 & S5)|cid n n1 cl n' (D1 & D2 & D3 & D4 & D5) K (I1 & I2 & I3)].
  - repeat split; assumption.
  - split; [congruence|]. split; [congruence|]. cbn [closing]. rewrite I3, D1, D2. apply closing_ext. exact D5.
Qed.

Lemma close_conn_k n cid r : kc n (close_conn n cid r).
Proof.
  unfold close_conn. destruct (get_conn n cid) as [c|] eqn:Hc; [|apply kc_nil].
  unfold kc. cbn [fst snd closes List.flat_map List.app].
  eapply k_drop; [apply (remove_conn_k n cid r c Hc)|apply keeps_refl].
Qed.

Lemma close_all_k cids : forall n r, kc n (close_all n cids r).
Proof.
  induction cids as [|k l IH]; intros n r; [apply kc_nil|]. cbn [close_all].
  pose proof (close_conn_k n k r) as H1. destruct (close_conn n k r) as [n1 o1].
  pose proof (IH n1 r) as H2. destruct (close_all n1 l r) as [n2 o2].
  eapply kc_app; eassumption.
Qed.

Lemma send_req_k n cid m : o_req m = true -> kc n (send_message n cid m).
Proof. intros H. unfold send_message, queue_out. rewrite H. kp. Qed.

Lemma own_request_k n cid c : same4 n (fst (own_request n cid c)).
Proof. unfold own_request. destruct (get_conn n cid); cbn [fst]; s4. Qed.

Lemma send_cer_k n cid : kc n (send_cer n cid).
Proof.
  unfold send_cer. pose proof (own_request_k n cid CE) as K. pose proof (own_request_req n cid CE) as H.
  destruct (own_request n cid CE) as [n1 m]. cbn [fst snd] in *.
  eapply kc_pre; [exact K|apply send_req_k; exact H].
Qed.
Lemma send_dwr_k n cid : kc n (send_dwr n cid).
Proof.
  unfold send_dwr. pose proof (own_request_k n cid DW) as K. pose proof (own_request_req n cid DW) as H.
  destruct (own_request n cid DW) as [n1 m]. cbn [fst snd] in *.
  pose proof (send_req_k n1 cid m H) as K2. destruct (send_message n1 cid m) as [n2 o].
  eapply kc_pre; [exact K|]. eapply kc_post; [exact K2|s4].
Qed.
Lemma send_dpr_k n cid : kc n (send_dpr n cid).
Proof.
  unfold send_dpr. pose proof (own_request_k n cid DP) as K. pose proof (own_request_req n cid DP) as H.
  destruct (own_request n cid DP) as [n1 m]. cbn [fst snd] in *. cbv zeta.
  eapply kc_pre; [exact K|]. eapply kc_pre; [|apply send_req_k; exact H]. s4.
Qed.

Lemma check_timers_k n cid : kc n (check_timers n cid).
Proof.
  unfold check_timers. destruct (n_stopping n); [apply kc_nil|].
  destruct (get_conn n cid) as [c|]; [|apply kc_nil]. cbv zeta.
  destruct (c_state c); try apply kc_nil;
    match goal with |- context [if ?b then _ else _] => destruct b end;
    first [apply kc_nil | apply close_conn_k | apply send_dwr_k].
Qed.

Lemma timers_all_k cids : forall n, kc n (timers_all n cids).
Proof.
  induction cids as [|cid r IH]; intros n; [apply kc_nil|]. cbn [timers_all].
  pose proof (check_timers_k n cid) as H1. destruct (check_timers n cid) as [n1 o1].
  pose proof (IH n1) as H2. destruct (timers_all n1 r) as [n2 o2].
  eapply kc_app; eassumption.
Qed.

Lemma connect_to_peer_k n name h res : kc n (connect_to_peer n name h res).
Proof.
  unfold connect_to_peer. destruct (get_peer n name) as [p|]; [|apply kc_nil].
  destruct (p_conn p); [apply kc_nil|].
  destruct (negb (p_has_addr p)); [apply kc_nil|]. cbv zeta.
  destruct res.
  - match goal with |- context [send_cer ?a ?b] =>
      pose proof (send_cer_k a b) as Hc; destruct (send_cer a b) as [n5 o] end.
    apply kc_cons; [reflexivity|]. eapply kc_pre; [|exact Hc]. s4.
  - match goal with |- context [close_conn ?a ?b ?c] =>
      pose proof (close_conn_k a b c) as Hc; destruct (close_conn a b c) as [n4 o] end.
    apply kc_cons; [reflexivity|]. eapply kc_pre; [|exact Hc]. s4.
  - kp.
Qed.

Lemma reconnect_all_k names : forall n ds, kc n (fst (reconnect_all n names ds)).
Proof.
  induction names as [|nm r IH]; intros n ds; [apply kc_nil|]. cbn [reconnect_all].
  destruct (get_peer n nm) as [p|]; [|apply IH].
  destruct (wants_reconnect n p && p_has_addr p); [|apply IH].
  destruct ds as [|[h0 res] dr].
  - pose proof (connect_to_peer_k n nm 0 DialOk) as H1. destruct (connect_to_peer n nm 0 DialOk) as [n1 o1].
    pose proof (IH n1 []) as H2. destruct (reconnect_all n1 r []) as [[n2 o2] d2].
    cbn [fst] in *. eapply kc_app; eassumption.
  - pose proof (connect_to_peer_k n nm h0 res) as H1. destruct (connect_to_peer n nm h0 res) as [n1 o1].
    pose proof (IH n1 dr) as H2. destruct (reconnect_all n1 r dr) as [[n2 o2] d2].
    cbn [fst] in *. eapply kc_app; eassumption.
Qed.

Lemma io_iteration_k n ds : kc n (fst (io_iteration n ds)).
Proof.
  unfold io_iteration.
  pose proof (timers_all_k (List.map c_id (n_conns n)) n) as H1.
  destruct (timers_all n (List.map c_id (n_conns n))) as [n1 o1].
  pose proof (reconnect_all_k (List.map p_name (n_peers n1)) n1 ds) as H2.
  destruct (reconnect_all n1 (List.map p_name (n_peers n1)) ds) as [[n2 o2] ds'].
  cbn [fst] in *. eapply kc_post; [eapply kc_app; eassumption|s4].
Qed.

Lemma closes_sends cid l : closes (List.map (OSend cid) l) = [].
Proof. induction l as [|x l IH]; [reflexivity|exact IH]. Qed.

Lemma flush_one_k n cid : kc n (flush_one n cid).
Proof.
  unfold flush_one. destruct (get_conn n cid) as [c|]; [|apply kc_nil].
  destruct (c_stalled c || negb (c_sock_open c)); [apply kc_nil|]. cbv zeta.
  destruct (c_out c) as [|x l]; [kp|].
  destruct (cstate_eqb (c_state c) SClosing); [|apply kc_same; [s4|apply closes_sends]].
  match goal with |- context [close_conn ?a ?b ?c] =>
    pose proof (close_conn_k a b c) as Hc; destruct (close_conn a b c) as [n'' oc] end.
  eapply (kc_app n); [|exact Hc]. apply kc_same; [s4|apply closes_sends].
Qed.

Lemma flush_conns_k cids : forall n, kc n (flush_conns n cids).
Proof.
  induction cids as [|cid r IH]; intros n; [apply kc_nil|].
  rewrite flush_conns_cons.
  pose proof (flush_one_k n cid) as H1. destruct (flush_one n cid) as [n1 o1].
  pose proof (IH n1) as H2. destruct (flush_conns n1 r) as [n2 o2].
  eapply kc_app; eassumption.
Qed.
Lemma flush_k n : kc n (flush n).
Proof. apply flush_conns_k. Qed.

Lemma settle_k n ds : kc n (fst (settle n ds)).
Proof.
  unfold settle.
  pose proof (flush_k n) as H1. destruct (flush n) as [n1 o1].
  pose proof (io_iteration_k n1 ds) as H2. destruct (io_iteration n1 ds) as [[n2 o2] ds'].
  pose proof (flush_k n2) as H3. destruct (flush n2) as [n3 o3].
  cbn [fst] in *. eapply kc_app; [exact H1|]. eapply kc_app; eassumption.
Qed.
Lemma settle'_k n ds : kc n (settle' n ds).
Proof.
  unfold settle'. pose proof (settle_k n ds) as H. destruct (settle n ds) as [[n1 o1] d]. exact H.
Qed.

Lemma k_then_settle (r : node * list output) n ds :
  kc n r ->
  kc n (let '(n1, o1) := r in let '(n2, o2) := settle' n1 ds in (n2, (o1 ++ o2)%list)).
Proof.
  destruct r as [n1 o1]. intros H1. pose proof (settle'_k n1 ds) as H2.
  destruct (settle' n1 ds) as [n2 o2]. eapply kc_app; eassumption.
Qed.

Lemma settle_app_k n ds : kc n (fst (settle_app n ds)).
Proof.
  unfold settle_app.
  pose proof (io_iteration_k n ds) as H2. destruct (io_iteration n ds) as [[n2 o2] ds'].
  pose proof (flush_k n2) as H3. destruct (flush n2) as [n3 o3].
  cbn [fst] in *. eapply kc_app; eassumption.
Qed.
Lemma settle_app'_k n ds : kc n (settle_app' n ds).
Proof.
  unfold settle_app'. pose proof (settle_app_k n ds) as H. destruct (settle_app n ds) as [[n1 o1] d]. exact H.
Qed.

Lemma k_then_settle_app (r : node * list output) n ds :
  kc n r ->
  kc n (let '(n1, o1) := r in let '(n2, o2) := settle_app' n1 ds in (n2, (o1 ++ o2)%list)).
Proof.
  destruct r as [n1 o1]. intros H1. pose proof (settle_app'_k n1 ds) as H2.
  destruct (settle_app' n1 ds) as [n2 o2]. eapply kc_app; eassumption.
Qed.

Lemma wake_k target fuel : forall n0 n ds acc, kc n0 (n, acc) -> kc n0 (wake target fuel n ds acc).
Proof.
  induction fuel as [|f IH]; intros n0 n ds acc K; cbn [wake].
  - eapply kc_post; [exact K|]. unfold expire. s4.
  - destruct (n_io_deadline n <=? target); [|eapply kc_post; [exact K|]; unfold expire; s4].
    cbv zeta.
    match goal with |- context [settle ?a ?b] =>
      pose proof (settle_k a b) as H2; destruct (settle a b) as [[n2 o2] ds2] end.
    cbn [fst] in H2. apply IH. eapply kc_app; [exact K|]. eapply kc_pre; [|exact H2]. s4.
Qed.

Lemma stop_go_k cids : forall n0 n acc, kc n0 (n, acc) -> kc n0 (stop_go cids n acc).
Proof.
  induction cids as [|c r IH]; intros n0 n acc K; cbn [stop_go]; [exact K|].
  destruct (get_conn n c) as [cn|]; [|apply IH; exact K].
  destruct (is_ready_state (c_state cn)); [|apply IH; exact K].
  pose proof (send_dpr_k n c) as H2. destruct (send_dpr n c) as [n' o'].
  apply IH. eapply kc_app; eassumption.
Qed.

Lemma finish_go_k cids : forall n0 n acc, kc n0 (n, acc) -> kc n0 (finish_go cids n acc).
Proof.
  induction cids as [|c r IH]; intros n0 n acc K; cbn [finish_go]; [exact K|].
  pose proof (close_conn_k n c R_SHUTDOWN) as H2. destruct (close_conn n c R_SHUTDOWN) as [n' o'].
  apply IH. eapply kc_app; eassumption.
Qed.

Lemma start_go_k names : forall n0 n ds acc, kc n0 (n, acc) -> kc n0 (fst (start_go names n ds acc)).
Proof.
  induction names as [|nm r IH]; intros n0 n ds acc K; cbn [start_go]; [exact K|].
  destruct (get_peer n nm) as [p|]; [|apply IH; exact K].
  destruct (p_persistent p); [|apply IH; exact K].
  destruct ds as [|[h0 res] dr].
  - pose proof (connect_to_peer_k n nm 0 DialOk) as H2. destruct (connect_to_peer n nm 0 DialOk) as [n1 o1].
    apply IH. eapply kc_app; eassumption.
  - pose proof (connect_to_peer_k n nm h0 res) as H2. destruct (connect_to_peer n nm h0 res) as [n1 o1].
    apply IH. eapply kc_app; eassumption.
Qed.

(* every event other than a network read and an application's answer leaves the windows and the
   configuration alone and changes the table of pending requests only by closing connections.  (A connection
   accepted while the node is stopping is refused: its OClose names a connection that never existed.) *)
Lemma step_k n ds e :
  (forall cid ms, e <> ERecv cid ms) -> (forall i m, e <> EAppAnswer i m) ->
  (forall h, e = EAccept h -> n_stopping n = false) -> kc n (step n ds e).
Proof.
  intros HnR HnA HnS. destruct e as [hbh0|cid ms|cid|cid hard|cid ok|cid b|dt|i m|i m realm pick tmo|force|tclose tend|].
  - (* EAccept *)
    cbn [step]. rewrite (HnS _ eq_refl). cbv zeta.
    eapply kc_pre; [|apply settle'_k]. s4.
  - exfalso. exact (HnR _ _ eq_refl).
  - (* EPeerClose *)
    cbn [step]. apply k_then_settle. apply close_conn_k.
  - (* EReadErr *)
    cbn [step]. apply k_then_settle. destruct hard; [apply close_conn_k|apply kc_nil].
  - (* EConnDone *)
    cbn [step]. destruct (get_conn n cid) as [c|]; [|apply kc_nil].
    destruct (cstate_eqb (c_state c) SConnecting); [|apply kc_nil].
    destruct ok.
    + cbv zeta.
      match goal with |- context [send_cer ?a ?b] =>
        assert (K2 : same4 n a);
        [|pose proof (send_cer_k a b) as H3; destruct (send_cer a b) as [n3 o3]] end.
      { match goal with |- context [find_conn_peer ?a ?b] => destruct (find_conn_peer a b) end; s4. }
      pose proof (io_iteration_k n3 ds) as H4. destruct (io_iteration n3 ds) as [[n4 o4] ds4].
      pose proof (settle'_k n4 ds4) as H5. destruct (settle' n4 ds4) as [n5 o5].
      cbn [fst] in *. eapply kc_pre; [exact K2|]. eapply kc_app; [exact H3|].
      eapply kc_app; eassumption.
    + apply k_then_settle. apply close_conn_k.
  - (* EStall *)
    cbn [step]. destruct (get_conn n cid) as [c|]; [|apply kc_nil]. cbv zeta.
    destruct b; [kp|]. destruct (c_out c); [kp|]. eapply kc_pre; [|apply settle'_k]. s4.
  - (* ETick *)
    rewrite step_tick. apply wake_k. apply kc_nil.
  - exfalso. exact (HnA _ _ eq_refl).
  - (* EAppRequest *)
    rewrite step_app_request.
    assert (K0 : same4 n (fst (e2e_prep n m))).
    { unfold e2e_prep. destruct (o_e2e m =? 0); s4. }
    generalize dependent (fst (e2e_prep n m)). intros n0 K0. generalize (snd (e2e_prep n m)). intros e2e.
    unfold req_core.
    destruct (route_request n0 i realm) as [usable|]; [|apply kc_same; [exact K0|reflexivity]].
    destruct usable as [|p0 rest]; [apply kc_same; [exact K0|reflexivity]|].
    destruct (choose (p0 :: rest) pick) as [p|]; [|apply kc_same; [exact K0|reflexivity]].
    destruct (p_conn p) as [cid|]; [|apply kc_same; [exact K0|reflexivity]].
    destruct (get_conn n0 cid) as [c|]; [|apply kc_same; [exact K0|reflexivity]].
    assert (K1 : same4 n0 (fst (if o_hbh m =? 0
               then (set_conns n0 (upd_conn (n_conns n0) cid (fun c => set_chbh c (seq_next (c_hbh c)))), seq_next (c_hbh c))
               else (n0, o_hbh m)))) by (destruct (o_hbh m =? 0); s4).
    destruct (if o_hbh m =? 0 then _ else _) as [n1 hbh]. cbn [fst] in K1. cbv zeta.
    eapply kc_pre; [exact K0|]. eapply kc_pre; [exact K1|].
    apply k_then_settle_app. eapply kc_pre; [|apply send_req_k; reflexivity]. s4.
  - (* EStop *)
    rewrite step_stop. cbv zeta. destruct force; [kp|].
    apply k_then_settle. apply stop_go_k. kp.
  - (* EStopFinish *)
    rewrite step_stop_finish. cbv zeta.
    match goal with |- context [finish_go ?l ?a ?b] =>
      pose proof (finish_go_k l n a b) as H1; destruct (finish_go l a b) as [n1 o1] end.
    eapply kc_post; [apply H1; kp|s4].
  - (* EStart *)
    rewrite step_start.
    pose proof (start_go_k (List.map p_name (n_peers n)) n n ds [] (kc_nil n)) as H1.
    destruct (start_go (List.map p_name (n_peers n)) n ds []) as [[n1 o1] ds1]. cbn [fst] in H1.
    apply (k_then_settle (n1, o1)). exact H1.
Qed.

(* ---- functions that close nothing: the table of pending requests, the windows and the configuration
   stay (the per-host table and the host identities may change) ---- *)
Definition kept (n n' : node) : Prop :=
  n_origin_waiting n' = n_origin_waiting n /\ n_sent_answers n' = n_sent_answers n /\ n_cfg n' = n_cfg n.

Lemma kept_refl n : kept n n.
Proof. repeat split. Qed.
Lemma kept_trans a b c : kept a b -> kept b c -> kept a c.
Proof. intros (A1 & A2 & A3) (B1 & B2 & B3). repeat split; congruence. Qed.
Lemma same4_kept n n' : same4 n n' -> kept n n'.
Proof. intros (S1 & S2 & S3 & S4 & _). repeat split; assumption. Qed.
Ltac kt := solve [repeat split; reflexivity].

Lemma flag_ready_k n cid : kept n (flag_ready n cid).
Proof. kt. Qed.
Lemma assign_peer_conn_k n cid : kept n (assign_peer_conn n cid).
Proof.
  unfold assign_peer_conn. destruct (get_conn n cid) as [c|]; [|kt].
  destruct (String.eqb (c_host c) ""); [kt|].
  destruct (get_peer n (c_host c)) as [p|]; [|kt]. cbv zeta.
  destruct (mem_nat cid (n_half_ready n)); kt.
Qed.

(* a host is waiting for the answer to the pair p (Node.route_answer finds it in the per-host table) and a
   connection carries that host's identity: the connection's id *)
Definition waits (n : node) (p : Z * Z) : option nat :=
  match List.find (fun e => mem_zz p (snd e)) (n_peer_waiting n) with
  | Some e => match List.find (fun c => String.eqb (c_host c) (fst e)) (n_conns n) with
              | Some c => Some (c_id c)
              | None => None
              end
  | None => None
  end.

(* Node.route_answer: a routable answer only leaves its host's list; an answer that is not routable although a host
   was waiting for it and a connection of that host exists (not ready, then) takes that connection's entry for
   the pair out of the origin table (drop_origin); without such a connection nothing is left to take out
   (NodeC: C09_unroutable_releases_origin / C09_unroutable_no_conn_keeps_origin) *)
Lemma route_answer_k n a :
  match fst (route_answer n a) with
  | Some _ => kept n (snd (route_answer n a))
  | None => n_origin_waiting (snd (route_answer n a))
            = (match waits n (o_hbh a, o_e2e a) with
               | Some k => ow_remove (n_origin_waiting n) k (o_hbh a) (o_e2e a)
               | None => n_origin_waiting n
               end)
            /\ n_sent_answers (snd (route_answer n a)) = n_sent_answers n
            /\ n_cfg (snd (route_answer n a)) = n_cfg n
  end.
Proof.
  unfold route_answer, waits. destruct (List.find _ (n_peer_waiting n)) as [[host l]|]; [|repeat split]. cbv zeta.
  cbn [n_conns set_waiting fst].
  destruct (List.find _ (n_conns n)) as [c|]; [|repeat split].
  destruct (is_ready_state (c_state c)); repeat split.
Qed.

(* ====================================================================== *)
(* 2. the ghost history                                                    *)
(* ====================================================================== *)
(* pending requests (connection, hop-by-hop id, end-to-end id, origin host), and the answers attributed so far,
   oldest first: (origin host, end-to-end id) *)
Definition ghost : Type := (ow_t * list (string * Z))%type.
Definition ghost0 : ghost := ([], []).

(* a request is received on connection cid: its key (cid, pair) is bound to its origin (replacing an older binding
   of the same key; a binding of the same pair on ANOTHER connection stays) *)
Definition ghost_request (g : ghost) (cid : nat) (m : msg) : ghost :=
  if m_req m then
    match origin_key m with
    | Some o => ((ow_remove (fst g) cid (m_hbh m) (m_e2e m) ++ [(cid, m_hbh m, m_e2e m, o)])%list, snd g)
    | None => g
    end
  else g.

(* an answer is queued on connection cid: attributed to the origin its key is bound to, if any *)
Definition ghost_answer (g : ghost) (cid : nat) (a : omsg) : ghost :=
  match ow_get (fst g) cid (o_hbh a) (o_e2e a) with
  | Some o => (ow_remove (fst g) cid (o_hbh a) (o_e2e a), (snd g ++ [(o, o_e2e a)])%list)
  | None => g
  end.

(* connections were closed (cl, in order, from state n on): each takes with it its own bindings whose pair
   waited under its host *)
Definition ghost_drop (g : ghost) (n : node) (cl : list nat) : ghost :=
  (closing (host_of n) (n_peer_waiting n) cl (fst g), snd g).

Definition ghost_out (g : ghost) (o : output) : ghost :=
  match o with
  | OQueue cid a => if o_req a then g else ghost_answer g cid a
  | _ => g
  end.
Definition ghost_outs (g : ghost) (outs : list output) : ghost := List.fold_left ghost_out outs g.

(* the frame reaches Node._receive_message: its connection exists and the gate lets it through *)
Definition received (n : node) (cid : nat) (m : msg) : bool :=
  match get_conn n cid with Some c => gate_passes c m | None => false end.

(* a request that will never be answered is forgotten: the binding of its key goes *)
Definition ghost_unbind (g : ghost) (cid : nat) (hbh e2e : Z) : ghost := (ow_remove (fst g) cid hbh e2e, snd g).

(* a capabilities-exchange request reaches Node._receive_message on a connection that is not awaiting one
   (state other than CONNECTED): it is either answered with an error or ignored; it does not stay pending *)
Definition cer_unexpected (n : node) (cid : nat) (m : msg) : bool :=
  match get_conn n cid with
  | Some c => gate_passes c m && m_req m && cmd_eqb (m_cmd m) CE && negb (cstate_eqb (c_state c) SConnected)
  | None => false
  end.

(* the frames of one read, in order: each is received (or dropped by the gate), then the outputs the
   node produces for it are seen; n is the state in which the reader thread sees the frame.  An unexpected
   CER is unbound after its outputs (an error answer to it is attributed first) *)
Fixpoint ghost_frames (n : node) (g : ghost) (cid : nat) (ms : list msg) : ghost :=
  match ms with
  | [] => g
  | m :: r =>
      let g1 := if received n cid m then ghost_request g cid m else g in
      let g2 := ghost_drop g1 n (closes (snd (dispatch n cid m))) in
      let g3 := ghost_outs g2 (snd (dispatch n cid m)) in
      let g4 := if cer_unexpected n cid m then ghost_unbind g3 cid (m_hbh m) (m_e2e m) else g3 in
      ghost_frames (fst (dispatch n cid m)) g4 cid r
  end.

(* one event.  A network read: the frames, one after the other, in the state in which the reader thread
   starts on them (`read_state`, NodeD).  Every other event: the outputs of the step (the trace entry). *)
Definition ghost_step (n : node) (ds : dials) (e : event) (g : ghost) : ghost :=
  match e with
  | ERecv cid ms =>
      match get_conn n cid with
      | None => g
      | Some _ =>
          let rs := read_state n ds cid in
          let n3 := fst (dispatch_all rs cid ms) in
          let g1 := ghost_frames rs (ghost_drop g n (closes (snd (fst (io_iteration n ds))))) cid ms in
          ghost_drop g1 n3 (closes (snd (settle' n3 (snd (io_iteration n ds)))))
      end
  | EAppAnswer _ m =>
      match fst (route_answer n m) with
      | Some cid =>
          (* Node.route_answer takes the answer's pair out of the per-host table, then the answer is queued,
             then the I/O thread may close connections *)
          ghost_drop (ghost_outs g (snd (step n ds e))) (fst (send_message (snd (route_answer n m)) cid m))
                     (closes (snd (step n ds e)))
      | None =>
          (* not routable (the trace entry is [ONotRoutable]): when a host was waiting for it and a connection of
             that host exists, the connection is no longer ready and its request is forgotten *)
          match waits n (o_hbh m, o_e2e m) with
          | Some k => ghost_unbind g k (o_hbh m) (o_e2e m)
          | None => g
          end
      end
  | EAccept _ =>
      (* a connection accepted while the node is stopping is refused at once: nothing was registered *)
      if n_stopping n then g
      else ghost_drop (ghost_outs g (snd (step n ds e))) n (closes (snd (step n ds e)))
  | _ => ghost_drop (ghost_outs g (snd (step n ds e))) n (closes (snd (step n ds e)))
  end.

Fixpoint ghost_run (n : node) (g : ghost) (evs : list (dials * event)) : ghost :=
  match evs with
  | [] => g
  | de :: r => ghost_run (fst (step n (fst de) (snd de))) (ghost_step n (fst de) (snd de) g) r
  end.

Definition answers_of (h : list (string * Z)) (o : string) : list Z :=
  List.map snd (List.filter (fun p => String.eqb (fst p) o) h).

(* the end-to-end identifiers of the answers queued so far for received requests of origin o *)
Definition answered (n0 : node) (evs : list (dials * event)) (o : string) : list Z :=
  answers_of (snd (ghost_run n0 ghost0 evs)) o.
(* the requests received so far and not answered yet *)
Definition pending (n0 : node) (evs : list (dials * event)) : ow_t :=
  fst (ghost_run n0 ghost0 evs).

(* the last k elements *)
Definition lastn {A} (k : nat) (l : list A) : list A := List.skipn (List.length l - k) l.

(* under "unanswered requests have pairwise distinct pairs" the ghost never forgets a pending request:
   binding a pair that is not pending is a plain append *)
Lemma ow_remove_fresh ow c h e : ow_get ow c h e = None -> ow_remove ow c h e = ow.
Proof.
  unfold ow_remove. induction ow as [|x r IH]; [reflexivity|].
  cbn [ow_get List.filter]. destruct (ow_key c h e x); [discriminate|].
  intros H. cbn [negb]. f_equal. exact (IH H).
Qed.
Lemma ghost_request_fresh (g : ghost) cid m o :
  m_req m = true -> origin_key m = Some o -> ow_get (fst g) cid (m_hbh m) (m_e2e m) = None ->
  ghost_request g cid m = ((fst g ++ [(cid, m_hbh m, m_e2e m, o)])%list, snd g).
Proof. intros Hr Ho Hf. unfold ghost_request. rewrite Hr, Ho, (ow_remove_fresh _ _ _ _ Hf). reflexivity. Qed.

(* ---- the ghost and the trace ------------------------------------------------------------- *)
Lemma ghost_outs_app g a b : ghost_outs g (a ++ b) = ghost_outs (ghost_outs g a) b.
Proof. apply List.fold_left_app. Qed.

Lemma ghost_outs_rq outs : rq outs -> forall g, ghost_outs g outs = g.
Proof.
  induction 1 as [|o l Ho _ IH]; intros g; [reflexivity|].
  cbn [ghost_outs List.fold_left]. fold (ghost_outs (ghost_out g o) l). rewrite IH.
  destruct o; try reflexivity. cbn in Ho. cbn [ghost_out]. rewrite Ho. reflexivity.
Qed.

(* only the queued answers of a list of outputs matter *)
Lemma ghost_outs_answers outs : forall g, ghost_outs g outs = ghost_outs g (List.filter is_answer_queue outs).
Proof.
  induction outs as [|o l IH]; intros g; [reflexivity|].
  cbn [List.filter]. destruct (is_answer_queue o) eqn:E.
  - cbn [ghost_outs List.fold_left]. apply IH.
  - cbn [ghost_outs List.fold_left]. fold (ghost_outs (ghost_out g o) l). rewrite <- IH.
    destruct o; try reflexivity. cbn in E. cbn [ghost_out]. destruct (o_req m); [reflexivity|discriminate E].
Qed.

Lemma rq_no_answers outs : rq outs -> List.filter is_answer_queue outs = [].
Proof.
  induction 1 as [|o l Ho _ IH]; [reflexivity|]. cbn [List.filter]. rewrite IH.
  destruct o; try reflexivity. cbn in Ho. cbn. rewrite Ho. reflexivity.
Qed.

Lemma step_recv_eq n ds cid ms c :
  get_conn n cid = Some c ->
  step n ds (ERecv cid ms) =
  (fst (settle' (fst (dispatch_all (read_state n ds cid) cid ms)) (snd (io_iteration n ds))),
   (snd (fst (io_iteration n ds)) ++ snd (dispatch_all (read_state n ds cid) cid ms)
      ++ snd (settle' (fst (dispatch_all (read_state n ds cid) cid ms)) (snd (io_iteration n ds))))%list).
Proof.
  intros H. cbn [step]. rewrite H. unfold read_state.
  destruct (io_iteration n ds) as [[n1 o1] ds1]. cbn [fst snd].
  destruct (dispatch_all (upd_last_read n1 cid) cid ms) as [n3 o3]. cbn [fst snd].
  destruct (settle' n3 ds1) as [n4 o4]. reflexivity.
Qed.

Lemma dispatch_all_cons n cid m r :
  dispatch_all n cid (m :: r) =
  (fst (dispatch_all (fst (dispatch n cid m)) cid r),
   (snd (dispatch n cid m) ++ snd (dispatch_all (fst (dispatch n cid m)) cid r))%list).
Proof.
  cbn [dispatch_all]. destruct (dispatch n cid m) as [n1 o1]. cbn [fst snd].
  destruct (dispatch_all n1 cid r) as [n2 o2]. reflexivity.
Qed.

(* the answers in the trace entry of a network read are those produced for its frames, frame by frame:
   the ghost sees every queued answer of the trace, in the order of the trace *)
Theorem recv_trace_answers n ds cid ms c :
  get_conn n cid = Some c ->
  List.filter is_answer_queue (snd (step n ds (ERecv cid ms)))
  = List.filter is_answer_queue (snd (dispatch_all (read_state n ds cid) cid ms)).
Proof.
  intros H. rewrite (step_recv_eq n ds cid ms c H). cbn [snd].
  rewrite !List.filter_app.
  rewrite (rq_no_answers _ (io_iteration_rq n ds)), (rq_no_answers _ (settle'_rq _ _)).
  rewrite List.app_nil_r. reflexivity.
Qed.

(* ====================================================================== *)
(* 3. window arithmetic                                                    *)
(* ====================================================================== *)
Lemma skipn_skipn' {A} (b : nat) : forall (a : nat) (l : list A), List.skipn a (List.skipn b l) = List.skipn (b + a) l.
Proof.
  induction b as [|b IH]; intros a l; [reflexivity|].
  destruct l as [|x l]; [cbn; apply List.skipn_nil|]. cbn [List.skipn Nat.add]. apply IH.
Qed.

(* appending to the window = taking the window of the extended history *)
Lemma bounded_append_lastn k l x : bounded_append k (lastn k l) x = lastn k (l ++ [x]).
Proof.
  destruct (bounded_append_spec k (lastn k l) x) as (E & _). rewrite E. clear E. unfold lastn.
  rewrite !List.app_length, List.skipn_length. cbn [List.length].
  rewrite !List.skipn_app, skipn_skipn', List.skipn_length. f_equal.
  - f_equal. lia.
  - f_equal. lia.
Qed.

Lemma lastn_nil {A} k : @lastn A k [] = [].
Proof. reflexivity. Qed.

Lemma answers_of_snoc h o e o' :
  answers_of (h ++ [(o, e)]) o' = if String.eqb o o' then (answers_of h o' ++ [e])%list else answers_of h o'.
Proof.
  unfold answers_of. rewrite List.filter_app, List.map_app. cbn [List.filter fst].
  destruct (String.eqb o o'); cbn [List.map snd]; [reflexivity|apply List.app_nil_r].
Qed.

(* ====================================================================== *)
(* 4. the invariant: the ghost's table IS n_origin_waiting, and every window is the tail of the    *)
(*    origin's history                                                                             *)
(* ====================================================================== *)
Definition Inv (n : node) (g : ghost) : Prop :=
  fst g = n_origin_waiting n /\
  forall o, sa_get (n_sent_answers n) o = lastn (g_rsize (n_cfg n)) (answers_of (snd g) o).

Lemma Inv_kept n n' g : kept n n' -> Inv n g -> Inv n' g.
Proof. intros (K1 & K2 & K3) [H1 H2]. unfold Inv. rewrite K1, K2, K3. split; assumption. Qed.

(* connections close: the ghost drops what the node drops *)
Lemma Inv_keeps n cl n' g : keeps n cl n' -> Inv n g -> Inv n' (ghost_drop g n cl).
Proof.
  intros K [H1 H2]. destruct (keeps_spec n cl n' K) as (K2 & K3 & K1). unfold Inv, ghost_drop.
  cbn [fst snd]. rewrite K1, K2, K3, H1. split; [reflexivity|exact H2].
Qed.

(* a node function result that closes nothing: the invariant is carried along its outputs *)
Definition tr (n : node) (r : node * list output) : Prop :=
  (forall g, Inv n g -> Inv (fst r) (ghost_outs g (snd r))) /\ closes (snd r) = [].

Lemma tr_quiet n n' outs : kept n n' -> rq outs -> closes outs = [] -> tr n (n', outs).
Proof.
  intros K R C. split; [|exact C]. intros g H. cbn [fst snd]. rewrite (ghost_outs_rq _ R). eapply Inv_kept; eassumption.
Qed.
Lemma tr_nil n : tr n (n, []).
Proof. apply tr_quiet; [apply kept_refl|apply rq_nil|reflexivity]. Qed.
Lemma tr_pre n n0 r : kept n n0 -> tr n0 r -> tr n r.
Proof.
  intros K [T S]. split; [|exact S]. intros g H. apply T. eapply Inv_kept; eassumption.
Qed.
Lemma tr_post n n1 o n2 : tr n (n1, o) -> kept n1 n2 -> tr n (n2, o).
Proof.
  intros [T S] K. split; [|exact S]. intros g H. cbn [fst snd]. eapply Inv_kept; [exact K|]. exact (T _ H).
Qed.
Lemma tr_cons_other n n' x o : is_queue x = false -> closes [x] = [] -> tr n (n', o) -> tr n (n', x :: o).
Proof.
  intros Hx Hc [T S]. split.
  - intros g H. cbn [fst snd ghost_outs List.fold_left].
    replace (ghost_out g x) with g by (destruct x; try reflexivity; discriminate Hx). exact (T _ H).
  - cbn [snd] in *. change (x :: o) with ([x] ++ o)%list. rewrite closes_app, Hc, S. reflexivity.
Qed.

(* recording an answer in the node = attributing it in the ghost *)
Lemma Inv_record n g cid a :
  Inv n g -> Inv (record_answer n cid (o_hbh a) (o_e2e a)) (ghost_answer g cid a).
Proof.
  intros [Hp Hw]. rewrite record_answer_eq. unfold ghost_answer. rewrite Hp.
  destruct (ow_get (n_origin_waiting n) cid (o_hbh a) (o_e2e a)) as [o|]; [|split; assumption].
  split; cbn [fst snd set_waiting n_origin_waiting n_sent_answers n_cfg]; [reflexivity|].
  intros o'. destruct (C17_window (g_rsize (n_cfg n)) (n_sent_answers n) o (o_e2e a)) as [W1 W2].
  rewrite answers_of_snoc. destruct (String.eqb o o') eqn:E.
  - apply String.eqb_eq in E. subst o'. rewrite W1, Hw. apply bounded_append_lastn.
  - apply String.eqb_neq in E. rewrite W2 by (intros E'; apply E; symmetry; exact E'). apply Hw.
Qed.

Lemma send_answer_eq n cid a :
  o_req a = false ->
  exists n2, kept n n2 /\ send_message n cid a = (record_answer n2 cid (o_hbh a) (o_e2e a), [OQueue cid a]).
Proof.
  intros H. unfold send_message, queue_out. rewrite H. eexists. split; [|reflexivity].
  destruct (get_conn n cid); kt.
Qed.

Lemma send_req_kept n cid m : o_req m = true -> kept n (fst (send_message n cid m)).
Proof. intros H. unfold send_message, queue_out. rewrite H. kt. Qed.

(* Node.send_message: a request leaves everything alone; an answer is recorded / attributed *)
Lemma tr_send n cid a : tr n (send_message n cid a).
Proof.
  destruct (o_req a) eqn:Hr.
  - rewrite send_message_pair. apply tr_quiet; [apply send_req_kept; exact Hr| |reflexivity].
    constructor; [exact Hr|constructor].
  - destruct (send_answer_eq n cid a Hr) as (n2 & K & E). rewrite E. split; [|reflexivity].
    intros g H. cbn [fst snd ghost_outs List.fold_left ghost_out]. rewrite Hr.
    apply Inv_record. eapply Inv_kept; eassumption.
Qed.

(* a node function result in general: first some connections are closed (nothing else is put out), then
   nothing is closed any more *)
Definition trc (n : node) (r : node * list output) : Prop :=
  exists n1 o1 o2, snd r = (o1 ++ o2)%list /\ kc n (n1, o1) /\ rq o1 /\ tr n1 (fst r, o2).

Lemma trc_tr n r : tr n r -> trc n r.
Proof.
  destruct r as [n' o]. intros T. exists n, [], o. split; [reflexivity|]. split; [apply kc_nil|].
  split; [apply rq_nil|exact T].
Qed.
Lemma trc_keeps n n' o : kc n (n', o) -> rq o -> trc n (n', o).
Proof.
  intros K R. exists n', o, []. split; [symmetry; apply List.app_nil_r|]. split; [exact K|]. split; [exact R|].
  apply tr_nil.
Qed.
Lemma trc_close n cid r : trc n (close_conn n cid r).
Proof.
  pose proof (close_conn_k n cid r) as K. pose proof (close_conn_rq n cid r) as R.
  destruct (close_conn n cid r) as [n1 o1]. apply trc_keeps; assumption.
Qed.
Lemma trc_pre n n0 r : same4 n n0 -> trc n0 r -> trc n r.
Proof.
  intros S (n1 & o1 & o2 & E & K & R & T). exists n1, o1, o2. split; [exact E|].
  split; [eapply kc_pre; eassumption|]. split; [exact R|exact T].
Qed.

Lemma only_close_rq outs : only_close outs -> rq outs.
Proof. apply Forall_impl. intros [] H; try contradiction H; exact I. Qed.

(* close some connections, then send one message from a state that has the same pending table, windows and
   configuration (the host identity of the connection may have been set in between) *)
Lemma trc_then_send n n1 oel X cid a :
  kc n (n1, oel) -> rq oel -> kept n1 X ->
  trc n (let '(n2, o) := send_message X cid a in (n2, (oel ++ o)%list)).
Proof.
  intros K1 R K2. pose proof (tr_send X cid a) as T.
  destruct (send_message X cid a) as [n2 o]. cbn [fst] in *.
  exists n1, oel, o. split; [reflexivity|]. split; [exact K1|].
  split; [exact R|]. eapply tr_pre; eassumption.
Qed.

(* Node.recv_cer: either as above, or the request is ignored (the connection is not awaiting a CER) and forgotten *)
Lemma trc_recv_cer n cid m :
  trc n (recv_cer n cid m)
  \/ exists c0, get_conn n cid = Some c0 /\ cstate_eqb (c_state c0) SConnected = false
                /\ recv_cer n cid m = (drop_origin n cid (m_hbh m) (m_e2e m), []).
Proof.
  unfold recv_cer.
  destruct (get_conn n cid) as [c0|]; [|left; apply trc_tr, tr_nil].
  destruct (cstate_eqb (c_state c0) SConnected) eqn:Es; cbn [negb];
    [left|right; exists c0; split; [reflexivity|split; [exact Es|reflexivity]]].
  destruct (pres_get (m_origin m)) as [host|]; [|apply trc_tr, tr_nil].
  destruct (get_peer n host) as [p|]; [|apply trc_tr; eapply tr_pre; [|apply tr_send]; kt].
  cbv zeta.
  destruct (election_rivals _ cid host) as [|r0 rs];
    [|destruct (String.ltb host _); [|apply trc_tr; eapply tr_pre; [|apply tr_send]; kt]];
    (match goal with |- context [close_all ?a ?b ?c] =>
       pose proof (close_all_k b a c) as Hk; pose proof (only_close_rq _ (close_all_only_close b a c)) as Hq;
       assert (K0 : same4 n a) by s4;
       destruct (close_all a b c) as [n1 oel] end;
     cbn [fst snd] in Hk, Hq;
     destruct (inter_z _ (m_auth m)); destruct (inter_z _ (m_acct m));
       destruct (mem_z APP_RELAY (m_auth m) || mem_z APP_RELAY (m_acct m));
       (apply (trc_then_send n n1);
        [eapply kc_pre; eassumption | exact Hq |
         first [apply kept_refl
               | eapply kept_trans; [|apply flag_ready_k]; eapply kept_trans; [|apply assign_peer_conn_k]; kt]])).
Qed.

Lemma trc_recv_cea n cid m : trc n (recv_cea n cid m).
Proof.
  unfold recv_cea.
  destruct (get_conn n cid) as [c0|]; [|apply trc_tr, tr_nil].
  destruct (negb (cstate_eqb (c_state c0) SConnected)); [apply trc_tr, tr_nil|].
  apply (match_2001 (trc n)); [|apply trc_close].
  destruct (pres_get (m_origin m)) as [host|]; [|apply trc_tr, tr_nil].
  destruct (negb (String.eqb (c_node_name c0) "") && negb (String.eqb host (c_node_name c0)));
    [apply trc_close|].
  apply trc_tr, tr_quiet; [|apply rq_nil|reflexivity].
  eapply kept_trans; [|apply flag_ready_k]. eapply kept_trans; [|apply assign_peer_conn_k]. kt.
Qed.

Lemma tr_recv_dpr n cid m : tr n (recv_dpr n cid m).
Proof.
  unfold recv_dpr. cbv zeta. eapply tr_pre; [|apply tr_send].
  match goal with |- context [match get_conn ?a ?b with _ => _ end] => destruct (get_conn a b) as [c|] end; [|kt].
  match goal with |- context [match find_conn_peer ?a ?b with _ => _ end] => destruct (find_conn_peer a b) end; kt.
Qed.

Lemma trc_recv_dpa n cid : trc n (recv_dpa n cid).
Proof.
  unfold recv_dpa. cbv zeta.
  destruct (get_conn _ cid) as [c|]; [|apply trc_tr, tr_quiet; [kt|apply rq_nil|reflexivity]].
  destruct (c_out c); [|apply trc_tr, tr_quiet; [kt|apply rq_nil|reflexivity]].
  eapply trc_pre; [|apply trc_close]. s4.
Qed.

Lemma tr_recv_app_request n cid m : tr n (recv_app_request n cid m).
Proof.
  unfold recv_app_request.
  destruct (get_conn n cid) as [c|]; [|apply tr_nil]. cbv zeta.
  destruct (m_drealm m) as [| |realm]; try apply tr_send.
  destruct (route_lookup n realm) as [entries|]; [|apply tr_send].
  destruct (List.find _ entries) as [[[i|] names]|]; try apply tr_send.
  destruct (handler_raises m).
  - match goal with |- context [send_message ?x cid ?a] =>
      pose proof (tr_send x cid a) as T;
      assert (K : kept n x) by kt;
      destruct (send_message x cid a) as [n2 o] end.
    apply tr_cons_other; [reflexivity|reflexivity|]. eapply tr_pre; eassumption.
  - apply tr_quiet; [kt| |reflexivity]. constructor; [exact I|constructor].
Qed.

Lemma tr_recv_app_answer n m : tr n (recv_app_answer n m).
Proof.
  unfold recv_app_answer.
  destruct (List.find _ (n_app_waiting n)) as [[[h e] i]|]; [|apply tr_nil].
  destruct (List.nth_error (n_apps n) i) as [a|]; [|apply tr_nil]. cbv zeta.
  destruct (mem_z (m_hbh m) (List.map fst (a_waiting a)));
    (apply tr_quiet; [kt|constructor; [exact I|constructor]|reflexivity]).
Qed.

(* the connection of the frame is not awaiting a CER, and the frame is one *)
Definition cer_cond (n : node) (cid : nat) (m : msg) : Prop :=
  exists c0, get_conn n cid = Some c0 /\ cstate_eqb (c_state c0) SConnected = false /\ m_req m = true /\ m_cmd m = CE.

Lemma trc_rm_handle n cid m :
  trc n (rm_handle n cid m)
  \/ (cer_cond n cid m /\ rm_handle n cid m = (drop_origin n cid (m_hbh m) (m_e2e m), [])).
Proof.
  unfold rm_handle, cer_cond. destruct (m_req m), (m_cmd m).
  - destruct (m_origin m); try (left; apply trc_tr, tr_send).
    destruct (trc_recv_cer n cid m) as [T|(c0 & Hc & Hs & E)]; [left; exact T|right].
    split; [exists c0; repeat split; assumption|exact E].
  - left. unfold recv_dwr. apply trc_tr, tr_send.
  - left. apply trc_tr, tr_recv_dpr.
  - left. apply trc_tr, tr_recv_app_request.
  - left. apply trc_recv_cea.
  - left. unfold recv_dwa. apply trc_tr, tr_quiet; [kt|apply rq_nil|reflexivity].
  - left. apply trc_recv_dpa.
  - left. apply trc_tr, tr_recv_app_answer.
Qed.

(* the origin bookkeeping of _receive_message = the ghost's binding of the request's key *)
Lemma Inv_request n g cid m : Inv n g -> Inv (rm_n0 n cid m) (ghost_request g cid m).
Proof.
  intros [Hp Hw]. unfold rm_n0, rm_record, ghost_request, origin_key.
  destruct (m_origin m), (m_req m); try (split; assumption);
    (split; [cbn [fst set_waiting n_origin_waiting]; rewrite Hp; reflexivity|exact Hw]).
Qed.

Lemma trc_inv n r g :
  trc n r -> Inv n g -> Inv (fst r) (ghost_outs (ghost_drop g n (closes (snd r))) (snd r)).
Proof.
  intros (n1 & o1 & o2 & E & K & R & [T C]) H. cbn [snd] in C.
  rewrite E, closes_app, C, List.app_nil_r, ghost_outs_app, (ghost_outs_rq _ R).
  apply (T _ (Inv_keeps _ _ _ _ K H)).
Qed.

(* the ghost reads the host identities and the per-host table only *)
Lemma ghost_drop_state g n n' cl :
  n_conns n' = n_conns n -> n_peer_waiting n' = n_peer_waiting n -> ghost_drop g n' cl = ghost_drop g n cl.
Proof. intros E1 E2. unfold ghost_drop, host_of. rewrite E1, E2. reflexivity. Qed.

Lemma rm_n0_pw n cid m : n_peer_waiting (rm_n0 n cid m) = n_peer_waiting n.
Proof. unfold rm_n0, rm_record. destruct (m_origin m), (m_req m); reflexivity. Qed.

(* ---- one frame ---- *)
Lemma ghost_drop_nil g n : ghost_drop g n [] = g.
Proof. destruct g; reflexivity. Qed.

(* forgetting a request in the node (drop_origin) = unbinding its key in the ghost *)
Lemma Inv_unbind n g cid h e : Inv n g -> Inv (drop_origin n cid h e) (ghost_unbind g cid h e).
Proof. intros [Hp Hw]. split; [cbn [fst ghost_unbind]; rewrite Hp; reflexivity|exact Hw]. Qed.

Lemma ow_remove_id (ow : ow_t) cid hb ee :
  (forall x, List.In x ow -> ow_key cid hb ee x = false) -> ow_remove ow cid hb ee = ow.
Proof.
  induction ow as [|x r IH]; intros H; [reflexivity|]. unfold ow_remove. cbn [List.filter].
  rewrite (H x (or_introl eq_refl)). cbn [negb]. f_equal. apply IH. intros y Hin. apply H. right. exact Hin.
Qed.
Lemma Inv_unbind_id n g cid hb ee :
  (forall x, List.In x (n_origin_waiting n) -> ow_key cid hb ee x = false) ->
  Inv n g -> Inv n (ghost_unbind g cid hb ee).
Proof. intros Hn [Hp Hw]. split; [|exact Hw]. cbn [fst ghost_unbind]. rewrite Hp. apply ow_remove_id. exact Hn. Qed.

Lemma ow_get_none (ow : ow_t) cid hb ee x :
  ow_get ow cid hb ee = None -> List.In x ow -> ow_key cid hb ee x = false.
Proof.
  induction ow as [|y r IH]; intros G Hin; [destruct Hin|]. cbn [ow_get] in G.
  destruct (ow_key cid hb ee y) eqn:E; [discriminate G|]. destruct Hin as [Hin|Hin]; [subst y; exact E|exact (IH G Hin)].
Qed.

Lemma record_answer_no_entry n cid hb ee x :
  List.In x (n_origin_waiting (record_answer n cid hb ee)) -> ow_key cid hb ee x = false.
Proof.
  rewrite record_answer_eq.
  destruct (ow_get (n_origin_waiting n) cid hb ee) eqn:G; [|apply ow_get_none; exact G].
  cbn [n_origin_waiting set_waiting]. unfold ow_remove. intros Hin. apply List.filter_In in Hin. destruct Hin as [_ Hb].
  destruct (ow_key cid hb ee x); [discriminate Hb|reflexivity].
Qed.

Lemma send_answer_no_entry n cid a x :
  o_req a = false -> List.In x (n_origin_waiting (fst (send_message n cid a))) ->
  ow_key cid (o_hbh a) (o_e2e a) x = false.
Proof.
  intros Hr Hin. destruct (send_answer_eq n cid a Hr) as (n2 & _ & E). rewrite E in Hin. cbn [fst] in Hin.
  apply record_answer_no_entry in Hin. exact Hin.
Qed.

(* an unexpected CER is not pending after its frame: it was answered with an error, or ignored and forgotten *)
Lemma cer_no_entry n cid m :
  cer_cond n cid m ->
  forall x, List.In x (n_origin_waiting (fst (receive_message n cid m))) ->
            ow_key cid (m_hbh m) (m_e2e m) x = false.
Proof.
  intros (c0 & Hc & Hs & Hr & Hcmd) x. rewrite receive_message_unfold.
  destruct (if m_req m && _ then _ else _); [|apply (send_answer_no_entry _ cid (answer_of m _ _)); reflexivity].
  destruct (rm_dup _ m); [apply (send_answer_no_entry _ cid (answer_of m _ _)); reflexivity|].
  unfold rm_handle. rewrite Hr, Hcmd.
  destruct (m_origin m) eqn:Ho; try (apply (send_answer_no_entry _ cid (answer_of m _ _)); reflexivity).
  unfold recv_cer. rewrite rm_n0_get_conn, Hc, Hs. cbn [negb fst]. unfold drop_origin.
  cbn [n_origin_waiting set_waiting]. intros Hin. apply List.filter_In in Hin. destruct Hin as [_ Hb].
  destruct (ow_key cid (m_hbh m) (m_e2e m) x); [discriminate Hb|reflexivity].
Qed.

Lemma handle_inv n0 cid m g0 r :
  trc n0 r \/ (cer_cond n0 cid m /\ r = (drop_origin n0 cid (m_hbh m) (m_e2e m), [])) -> Inv n0 g0 ->
  Inv (fst r) (ghost_outs (ghost_drop g0 n0 (closes (snd r))) (snd r))
  \/ (cer_cond n0 cid m
      /\ Inv (fst r) (ghost_unbind (ghost_outs (ghost_drop g0 n0 (closes (snd r))) (snd r)) cid (m_hbh m) (m_e2e m))).
Proof.
  intros [T|[C E]] H; [left; apply trc_inv; assumption|right]. split; [exact C|]. subst r.
  cbn [fst snd closes List.flat_map ghost_outs List.fold_left].
  rewrite ghost_drop_nil. apply Inv_unbind, H.
Qed.

Lemma receive_message_inv n cid m g :
  Inv n g ->
  Inv (fst (receive_message n cid m))
      (ghost_outs (ghost_drop (ghost_request g cid m) n (closes (snd (receive_message n cid m))))
                  (snd (receive_message n cid m)))
  \/ (cer_cond n cid m
      /\ Inv (fst (receive_message n cid m))
             (ghost_unbind (ghost_outs (ghost_drop (ghost_request g cid m) n (closes (snd (receive_message n cid m))))
                                       (snd (receive_message n cid m))) cid (m_hbh m) (m_e2e m))).
Proof.
  intros H. apply (Inv_request n g cid m) in H.
  assert (Hcc : cer_cond (rm_n0 n cid m) cid m -> cer_cond n cid m) by (unfold cer_cond; rewrite rm_n0_get_conn; trivial).
  assert (Hr : trc (rm_n0 n cid m) (receive_message n cid m)
               \/ (cer_cond (rm_n0 n cid m) cid m
                   /\ receive_message n cid m = (drop_origin (rm_n0 n cid m) cid (m_hbh m) (m_e2e m), []))).
  { rewrite receive_message_unfold.
    destruct (if m_req m && g_validate (n_cfg (rm_n0 n cid m)) then m_missing m else []); [|left; apply trc_tr, tr_send].
    destruct (rm_dup (rm_n0 n cid m) m); [left; apply trc_tr, tr_send|apply trc_rm_handle]. }
  destruct (handle_inv _ cid m _ _ Hr H) as [A|[C A]];
    rewrite (ghost_drop_state _ n (rm_n0 n cid m) _ (rm_n0_conns n cid m) (rm_n0_pw n cid m)) in A;
    [left; exact A|right; split; [apply Hcc, C|exact A]].
Qed.

Lemma cer_cond_iff n cid m c :
  get_conn n cid = Some c -> gate_passes c m = true -> (cer_unexpected n cid m = true <-> cer_cond n cid m).
Proof.
  intros Hc Hg. unfold cer_unexpected, cer_cond. rewrite Hc, Hg. cbn [andb]. split.
  - intros H. apply Bool.andb_true_iff in H. destruct H as [H H3]. apply Bool.andb_true_iff in H. destruct H as [H1 H2].
    exists c. split; [reflexivity|]. split; [destruct (cstate_eqb _ _); [discriminate H3|reflexivity]|].
    split; [exact H1|]. destruct (m_cmd m); try discriminate H2. reflexivity.
  - intros (c0 & E & Hs & Hr & Hcmd). injection E as <-. rewrite Hs, Hr, Hcmd. reflexivity.
Qed.

Lemma dispatch_inv n cid m g :
  Inv n g ->
  Inv (fst (dispatch n cid m))
      (let g3 := ghost_outs (ghost_drop (if received n cid m then ghost_request g cid m else g)
                                        n (closes (snd (dispatch n cid m)))) (snd (dispatch n cid m)) in
       if cer_unexpected n cid m then ghost_unbind g3 cid (m_hbh m) (m_e2e m) else g3).
Proof.
  intros H. cbv zeta. unfold dispatch, received.
  destruct (get_conn n cid) as [c|] eqn:Hc;
    [|unfold cer_unexpected; rewrite Hc; cbn [fst snd closes List.flat_map]; rewrite ghost_drop_nil; exact H].
  destruct (gate_passes c m) eqn:Hg;
    [|unfold cer_unexpected; rewrite Hc, Hg; cbn [fst snd andb closes List.flat_map]; rewrite ghost_drop_nil; exact H].
  pose proof (cer_cond_iff n cid m c Hc Hg) as Hi.
  destruct (receive_message_inv n cid m g H) as [A|[C A]]; destruct (cer_unexpected n cid m).
  - apply Inv_unbind_id; [apply cer_no_entry, Hi; reflexivity|exact A].
  - exact A.
  - exact A.
  - apply Hi in C. discriminate C.
Qed.

Lemma frames_inv cid ms : forall n g,
  Inv n g -> Inv (fst (dispatch_all n cid ms)) (ghost_frames n g cid ms).
Proof.
  induction ms as [|m r IH]; intros n g H; [exact H|].
  rewrite dispatch_all_cons. cbn [fst ghost_frames]. apply IH. apply (dispatch_inv n cid m g H).
Qed.

Lemma read_state_k n ds cid : keeps n (closes (snd (fst (io_iteration n ds)))) (read_state n ds cid).
Proof.
  unfold read_state. pose proof (io_iteration_k n ds) as K. destruct (io_iteration n ds) as [[n1 o1] d1].
  cbn [fst snd] in *. apply (kc_post n n1 o1); [exact K|]. unfold upd_last_read. s4.
Qed.

Lemma step_inv_g n ds e g : Inv n g -> Inv (fst (step n ds e)) (ghost_step n ds e g).
Proof.
  intros H.
  assert (Hother : (forall cid ms, e <> ERecv cid ms) -> (forall i m, e <> EAppAnswer i m) ->
                   (forall h, e = EAccept h -> n_stopping n = false) ->
                   Inv (fst (step n ds e))
                       (ghost_drop (ghost_outs g (snd (step n ds e))) n (closes (snd (step n ds e))))).
  { intros H1 H2 H3. rewrite (ghost_outs_rq _ (step_rq n ds e H1 H2)).
    apply Inv_keeps; [apply step_k; assumption|exact H]. }
  destruct e as [hbh0|cid ms|cid|cid hard|cid ok|cid b|dt|i m|i m realm pick tmo|force|tclose tend|];
    try (apply Hother; intros; discriminate).
  - (* EAccept *)
    cbn [ghost_step]. destruct (n_stopping n) eqn:Hs.
    + cbn [step]. rewrite Hs. eapply Inv_kept; [|exact H]. kt.
    + apply Hother; intros; try discriminate. reflexivity.
  - (* ERecv *)
    cbn [ghost_step]. destruct (get_conn n cid) as [c|] eqn:Hc.
    + cbv zeta. rewrite (step_recv_eq n ds cid ms c Hc). cbn [fst].
      apply Inv_keeps; [apply settle'_k|]. apply frames_inv.
      apply Inv_keeps; [apply read_state_k|exact H].
    + cbn [step]. rewrite Hc. exact H.
  - (* EAppAnswer *)
    cbn [ghost_step]. clear Hother. cbn [step].
    pose proof (route_answer_k n m) as K. destruct (route_answer n m) as [[cid|] n1]; cbn [fst snd] in K |- *.
    + pose proof (tr_send n1 cid m) as [T C].
      destruct (send_message n1 cid m) as [n2 o2].
      pose proof (settle_app'_k n2 ds) as K3. pose proof (settle_app'_rq n2 ds) as R3.
      destruct (settle_app' n2 ds) as [n3 o3]. cbn [fst snd] in *.
      rewrite closes_app, C, ghost_outs_app, (ghost_outs_rq _ R3). cbn [List.app].
      apply (Inv_keeps _ _ _ _ K3). apply T. eapply Inv_kept; eassumption.
    + destruct K as (K1 & K2 & K3). destruct H as [Hp Hw]. unfold Inv. rewrite K1, K2, K3.
      destruct (waits n (o_hbh m, o_e2e m)); (split; [|exact Hw]); [cbn [fst ghost_unbind]; rewrite Hp|exact Hp]; reflexivity.
Qed.

Lemma run_inv evs : forall n g, Inv n g -> Inv (fst (run n evs)) (ghost_run n g evs).
Proof.
  induction evs as [|de r IH]; intros n g H; [exact H|].
  rewrite run_cons. cbn [ghost_run]. apply IH. apply step_inv_g. exact H.
Qed.

Lemma run_cfg n evs : n_cfg (fst (run n evs)) = n_cfg n.
Proof.
  assert (T : trans MAny n (fst (run n evs))) by (apply run_t; [apply evs_pre_any|constructor]).
  apply trans_const in T. apply T.
Qed.

(* ====================================================================== *)
(* 5. C17: the window is the tail of the history                            *)
(* ====================================================================== *)
(* C17: from empty tables, the pending table of the ghost is n_origin_waiting and every origin's window is the last g_rsize answers attributed to it *)
Theorem C17_history_window_gen n0 evs :
  n_origin_waiting n0 = [] -> n_sent_answers n0 = [] ->
  pending n0 evs = n_origin_waiting (fst (run n0 evs))
  /\ forall o, sa_get (n_sent_answers (fst (run n0 evs))) o = lastn (g_rsize (n_cfg n0)) (answered n0 evs o).
Proof.
  intros H1 H2.
  assert (H0 : Inv n0 ghost0).
  { split; [cbn; symmetry; exact H1|]. intros o. rewrite H2. reflexivity. }
  destruct (run_inv evs n0 ghost0 H0) as [Hp Hw]. split; [exact Hp|].
  intros o. rewrite (Hw o), run_cfg. reflexivity.
Qed.

(* C17: in every run from a well-formed initial node, the window the node holds for an origin host is the last g_rsize end-to-end identifiers of the answers queued for received requests of that origin *)
Theorem C17_history_window n0 evs o :
  wf_init n0 ->
  sa_get (n_sent_answers (fst (run n0 evs))) o = lastn (g_rsize (n_cfg n0)) (answered n0 evs o).
Proof.
  intros (_ & _ & _ & _ & _ & H6 & H7 & _). apply (C17_history_window_gen n0 evs H6 H7).
Qed.

(* C17: the requests the ghost holds as received and not yet answered are exactly the node's n_origin_waiting *)
Theorem C17_history_pending n0 evs :
  wf_init n0 -> pending n0 evs = n_origin_waiting (fst (run n0 evs)).
Proof.
  intros (_ & _ & _ & _ & _ & H6 & H7 & _). apply (C17_history_window_gen n0 evs H6 H7).
Qed.

(* ====================================================================== *)
(* 6. one network read: what the I/O thread adds around the reader thread's outputs             *)
(* ====================================================================== *)
(* before the frames are handled the I/O thread finishes its iteration, afterwards it flushes and
   iterates once more: on its own it only closes, writes, dials persistent peers and queues its own CER / DWR
   (`sysout`, NodeC): never an answer, never a delivery *)
Lemma recv_io_sysout n ds cid ms :
  List.Forall (sysout (pmap n)) (snd (fst (io_iteration n ds)))
  /\ List.Forall (sysout (pmap n))
       (snd (settle' (fst (dispatch_all (read_state n ds cid) cid ms)) (snd (io_iteration n ds)))).
Proof.
  pose proof (io_iteration_g (sysout (pmap n)) (pmap n) n ds (sysP_sysout _) (dialP_sysout _) eq_refl) as G1.
  split; [apply G1|].
  pose proof (gres_pmap _ _ _ G1) as P1.
  pose proof (dispatch_all_d cid ms (read_state n ds cid)) as (F3 & _).
  assert (P3 : pmap (fst (dispatch_all (read_state n ds cid) cid ms)) = pmap n).
  { rewrite (proj1 F3). exact P1. }
  pose proof (settle'_sys (fst (dispatch_all (read_state n ds cid) cid ms)) (snd (io_iteration n ds))) as [_ G4].
  rewrite P3 in G4. exact G4.
Qed.

Lemma step_recv_one n ds cid m c0 :
  get_conn n cid = Some c0 ->
  exists pre post,
    snd (step n ds (ERecv cid [m])) = (pre ++ snd (dispatch (read_state n ds cid) cid m) ++ post)%list
    /\ List.Forall (sysout (pmap n)) pre /\ List.Forall (sysout (pmap n)) post.
Proof.
  intros H. rewrite (step_recv_eq n ds cid [m] c0 H). cbn [snd].
  destruct (recv_io_sysout n ds cid [m]) as [S1 S2].
  eexists. eexists. split; [|split; [exact S1|exact S2]].
  rewrite dispatch_all_cons. cbn [snd dispatch_all]. rewrite List.app_nil_r. reflexivity.
Qed.

Lemma sysout_no_deliver pm l : List.Forall (sysout pm) l -> forall i m, ~ List.In (ODeliver i m) l.
Proof. intros H i m Hin. rewrite List.Forall_forall in H. exact (H _ Hin). Qed.

Lemma sysout_clear pm l : List.Forall (sysout pm) l -> List.map out_clear_t l = l.
Proof.
  induction 1 as [|o l Ho _ IH]; [reflexivity|]. cbn [List.map]. rewrite IH.
  destruct o; try contradiction Ho; reflexivity.
Qed.

(* membership in the window the reader thread consults = membership in the tail of the history *)
Lemma window_mem n0 evs ds cid o e :
  wf_init n0 ->
  (sa_mem (n_sent_answers (read_state (fst (run n0 evs)) ds cid)) o e = true
   <-> List.In e (lastn (g_rsize (n_cfg n0)) (answered n0 evs o))).
Proof.
  intros Hw.
  assert (Hreach : reach n0 (fst (run n0 evs))) by (exists evs; split; [exact Hw|reflexivity]).
  destruct (C19_windows_bounded _ _ Hreach) as (_ & Hnd & _).
  destruct (keeps_spec _ _ _ (read_state_k (fst (run n0 evs)) ds cid)) as (K2 & _). rewrite K2.
  rewrite (C17_sa_mem_get _ o e Hnd), (C17_history_window n0 evs o Hw). reflexivity.
Qed.

Lemma read_state_cfg n0 evs ds cid : n_cfg (read_state (fst (run n0 evs)) ds cid) = n_cfg n0.
Proof. destruct (keeps_spec _ _ _ (read_state_k (fst (run n0 evs)) ds cid)) as (_ & K3 & _). rewrite K3. apply run_cfg. Qed.

(* ====================================================================== *)
(* 7. C17: duplicates are rejected, nothing else is                         *)
(* ====================================================================== *)
(* C17: a T-flagged, well-formed request read from a ready connection whose end-to-end identifier is among the last g_rsize answers attributed to its origin host is answered 5012 on its connection and delivered to no application; everything else in the step is the I/O thread's own output *)
Theorem C17_history_duplicate_rejected n0 evs ds cid c0 c m o :
  wf_init n0 ->
  let n := fst (run n0 evs) in
  let rs := read_state n ds cid in
  get_conn n cid = Some c0 -> get_conn rs cid = Some c -> is_ready_state (c_state c) = true ->
  m_req m = true -> m_t m = true -> m_origin m = Present o ->
  g_validate (n_cfg n0) = false \/ m_missing m = [] ->
  List.In (m_e2e m) (lastn (g_rsize (n_cfg n0)) (answered n0 evs o)) ->
  exists pre post,
    snd (step n ds (ERecv cid [m])) = (pre ++ [OQueue cid (answer_of m (Some RC_UNABLE) [])] ++ post)%list
    /\ List.Forall (sysout (pmap n)) pre /\ List.Forall (sysout (pmap n)) post
    /\ forall i m', ~ List.In (ODeliver i m') (snd (step n ds (ERecv cid [m]))).
Proof.
  intros Hw n rs Hc0 Hc Hr Hreq Ht Ho Hval Hin.
  assert (Hmem : sa_mem (n_sent_answers rs) o (m_e2e m) = true) by (apply (window_mem n0 evs ds cid o _ Hw); exact Hin).
  assert (Hval' : g_validate (n_cfg rs) = false \/ m_missing m = []).
  { unfold rs, n. rewrite read_state_cfg. exact Hval. }
  destruct (C17_dup_iff rs cid m o Hreq Ho Hval') as [D _]. destruct (D (conj Ht Hmem)) as [Dout _].
  destruct (step_recv_one n ds cid m c0 Hc0) as (pre & post & E & Hpre & Hpost).
  fold rs in E. rewrite (C08_gate_then_route rs cid c m Hc Hr), Dout in E.
  exists pre, post. split; [exact E|]. split; [exact Hpre|]. split; [exact Hpost|].
  intros i m' Hd. rewrite E in Hd. apply List.in_app_or in Hd. destruct Hd as [Hd|Hd].
  - exact (sysout_no_deliver _ _ Hpre _ _ Hd).
  - apply List.in_app_or in Hd. destruct Hd as [[Hd|[]]|Hd]; [discriminate Hd|].
    exact (sysout_no_deliver _ _ Hpost _ _ Hd).
Qed.

Lemma spec_route_clear n c m :
  m_t m && already_answered n m = false -> spec_route n c m = spec_route n c (clear_t m).
Proof. intros H. unfold spec_route. rewrite H. reflexivity. Qed.

Lemma not_duplicate n0 evs ds cid m o :
  wf_init n0 -> m_origin m = Present o ->
  m_t m = false \/ ~ List.In (m_e2e m) (lastn (g_rsize (n_cfg n0)) (answered n0 evs o)) ->
  m_t m = false \/ sa_mem (n_sent_answers (read_state (fst (run n0 evs)) ds cid)) o (m_e2e m) = false.
Proof.
  intros Hw Ho [H|H]; [left; exact H|right].
  destruct (sa_mem _ o (m_e2e m)) eqn:E; [|reflexivity].
  exfalso. apply H. apply (window_mem n0 evs ds cid o _ Hw). exact E.
Qed.

(* C17: an application request read from a ready connection that does not carry the T flag, or whose end-to-end identifier is not among the last g_rsize answers attributed to its origin host, is never rejected as a duplicate: the routing function decides as it does for the same request without the flag, and the step outputs exactly what that decision prescribes (C08) *)
Theorem C17_history_no_false_duplicate n0 evs ds cid c0 c m o k :
  wf_init n0 ->
  let n := fst (run n0 evs) in
  let rs := read_state n ds cid in
  get_conn n cid = Some c0 -> get_conn rs cid = Some c -> is_ready_state (c_state c) = true ->
  m_req m = true -> m_cmd m = App k -> m_origin m = Present o ->
  m_t m = false \/ ~ List.In (m_e2e m) (lastn (g_rsize (n_cfg n0)) (answered n0 evs o)) ->
  spec_route rs c m = spec_route rs c (clear_t m)
  /\ exists pre post,
       snd (step n ds (ERecv cid [m])) = (pre ++ route_outputs cid m (spec_route rs c (clear_t m)) ++ post)%list
       /\ List.Forall (sysout (pmap n)) pre /\ List.Forall (sysout (pmap n)) post.
Proof.
  intros Hw n rs Hc0 Hc Hr Hreq Hcmd Ho Hno.
  assert (Hs : spec_route rs c m = spec_route rs c (clear_t m)).
  { apply spec_route_clear. unfold already_answered, origin_key. rewrite Ho.
    destruct (not_duplicate n0 evs ds cid m o Hw Ho Hno) as [H|H]; fold n in H; fold rs in H; rewrite H;
      [reflexivity|apply Bool.andb_false_r]. }
  split; [exact Hs|].
  destruct (step_recv_one n ds cid m c0 Hc0) as (pre & post & E & Hpre & Hpost).
  fold rs in E. rewrite (C08_gate_then_route rs cid c m Hc Hr), (C08_route_refines rs cid c m k Hc Hreq Hcmd), Hs in E.
  exists pre, post. split; [exact E|]. split; assumption.
Qed.

(* C17: for every kind of request (base protocol included) read from a ready connection: when it is well-formed and not a duplicate in the above sense, the T flag changes nothing: same next state, same outputs up to the flag of the message handed on *)
Theorem C17_history_flag_irrelevant n0 evs ds cid c0 c m o :
  wf_init n0 ->
  let n := fst (run n0 evs) in
  let rs := read_state n ds cid in
  get_conn n cid = Some c0 -> get_conn rs cid = Some c -> is_ready_state (c_state c) = true ->
  m_req m = true -> m_origin m = Present o ->
  g_validate (n_cfg n0) = false \/ m_missing m = [] ->
  m_t m = false \/ ~ List.In (m_e2e m) (lastn (g_rsize (n_cfg n0)) (answered n0 evs o)) ->
  step n ds (ERecv cid [clear_t m])
  = (fst (step n ds (ERecv cid [m])), List.map out_clear_t (snd (step n ds (ERecv cid [m])))).
Proof.
  intros Hw n rs Hc0 Hc Hr Hreq Ho Hval Hno.
  assert (Hval' : g_validate (n_cfg rs) = false \/ m_missing m = []).
  { unfold rs, n. rewrite read_state_cfg. exact Hval. }
  destruct (C17_dup_iff rs cid m o Hreq Ho Hval') as [_ D].
  pose proof (D (not_duplicate n0 evs ds cid m o Hw Ho Hno)) as E. clear D.
  assert (Ed : dispatch_all rs cid [clear_t m]
               = (fst (dispatch_all rs cid [m]), List.map out_clear_t (snd (dispatch_all rs cid [m])))).
  { rewrite !dispatch_all_cons. cbn [dispatch_all fst snd]. rewrite !List.app_nil_r.
    rewrite (C08_gate_then_route rs cid c m Hc Hr), (C08_gate_then_route rs cid c (clear_t m) Hc Hr), E.
    reflexivity. }
  destruct (recv_io_sysout n ds cid [m]) as [S1 S2]. fold rs in S2.
  rewrite (step_recv_eq n ds cid [clear_t m] c0 Hc0), (step_recv_eq n ds cid [m] c0 Hc0). fold rs.
  rewrite Ed. cbn [fst snd]. rewrite !List.map_app, (sysout_clear _ _ S1), (sysout_clear _ _ S2). reflexivity.
Qed.

(* ====================================================================== *)
(* 7b. the history holds nothing but end-to-end ids of answers that were queued in the trace     *)
(* ====================================================================== *)
Definition from_outs (outs : list output) (p : string * Z) : Prop :=
  exists cid a, List.In (OQueue cid a) outs /\ o_req a = false /\ o_e2e a = snd p.

Lemma from_outs_incl a b p : (forall x, List.In x a -> List.In x b) -> from_outs a p -> from_outs b p.
Proof. intros H (cid & x & Hin & Hr). exists cid, x. split; [apply H; exact Hin|exact Hr]. Qed.

Lemma ghost_outs_hist outs : forall g,
  exists added, snd (ghost_outs g outs) = (snd g ++ added)%list /\ List.Forall (from_outs outs) added.
Proof.
  induction outs as [|x l IH]; intros g.
  - exists []. split; [symmetry; apply List.app_nil_r|constructor].
  - cbn [ghost_outs List.fold_left]. fold (ghost_outs (ghost_out g x) l).
    destruct (IH (ghost_out g x)) as (ad & E & F).
    assert (H0 : exists ad0, snd (ghost_out g x) = (snd g ++ ad0)%list /\ List.Forall (from_outs (x :: l)) ad0).
    { assert (Hnil : exists ad0, snd g = (snd g ++ ad0)%list /\ List.Forall (from_outs (x :: l)) ad0)
        by (exists []; split; [symmetry; apply List.app_nil_r|constructor]).
      destruct x as [cid a| | | | | | |]; try exact Hnil. cbn [ghost_out].
      destruct (o_req a) eqn:Hr; [exact Hnil|]. unfold ghost_answer.
      destruct (ow_get (fst g) cid (o_hbh a) (o_e2e a)) as [o|]; [|exact Hnil].
      exists [(o, o_e2e a)]. split; [reflexivity|]. constructor; [|constructor].
      exists cid, a. split; [left; reflexivity|]. split; [exact Hr|reflexivity]. }
    destruct H0 as (ad0 & E0 & F0). exists (ad0 ++ ad)%list. split.
    + rewrite E, E0, List.app_assoc. reflexivity.
    + apply List.Forall_app. split; [exact F0|].
      eapply List.Forall_impl; [|exact F]. intros p. apply from_outs_incl. intros y Hy. right. exact Hy.
Qed.

Lemma ghost_request_hist g cid m : snd (ghost_request g cid m) = snd g.
Proof. unfold ghost_request. destruct (m_req m); [|reflexivity]. destruct (origin_key m); reflexivity. Qed.

Lemma ghost_frames_hist cid ms : forall n g,
  exists added, snd (ghost_frames n g cid ms) = (snd g ++ added)%list
                /\ List.Forall (from_outs (snd (dispatch_all n cid ms))) added.
Proof.
  induction ms as [|m r IH]; intros n g.
  - exists []. split; [symmetry; apply List.app_nil_r|constructor].
  - rewrite dispatch_all_cons. cbn [ghost_frames snd].
    set (g1 := if received n cid m then ghost_request g cid m else g).
    assert (E0 : snd g1 = snd g) by (unfold g1; destruct (received n cid m); [apply ghost_request_hist|reflexivity]).
    set (g2 := ghost_drop g1 n (closes (snd (dispatch n cid m)))).
    destruct (ghost_outs_hist (snd (dispatch n cid m)) g2) as (a1 & E1 & F1).
    set (g4 := if cer_unexpected n cid m then ghost_unbind (ghost_outs g2 (snd (dispatch n cid m))) cid (m_hbh m) (m_e2e m)
               else ghost_outs g2 (snd (dispatch n cid m))).
    assert (E4 : snd g4 = snd (ghost_outs g2 (snd (dispatch n cid m)))) by (unfold g4; destruct (cer_unexpected n cid m); reflexivity).
    destruct (IH (fst (dispatch n cid m)) g4) as (a2 & E2 & F2).
    exists (a1 ++ a2)%list. split.
    + rewrite E2, E4, E1. unfold g2. cbn [ghost_drop snd]. rewrite E0, List.app_assoc. reflexivity.
    + apply List.Forall_app. split; (eapply List.Forall_impl; [|eassumption]); intros p; apply from_outs_incl;
        intros y Hy; apply List.in_or_app; [left|right]; exact Hy.
Qed.

Lemma ghost_step_hist n ds e g :
  exists added, snd (ghost_step n ds e g) = (snd g ++ added)%list
                /\ List.Forall (from_outs (snd (step n ds e))) added.
Proof.
  assert (Hnil : exists added, snd g = (snd g ++ added)%list /\ List.Forall (from_outs (snd (step n ds e))) added)
    by (exists []; split; [symmetry; apply List.app_nil_r|constructor]).
  destruct e as [hbh0|cid ms|cid|cid hard|cid ok|cid b|dt|i m|i m realm pick tmo|force|tclose tend|];
    try (cbn [ghost_step ghost_drop snd]; apply ghost_outs_hist).
  - cbn [ghost_step]. destruct (n_stopping n); [exact Hnil|]. cbn [ghost_drop snd]. apply ghost_outs_hist.
  - cbn [ghost_step]. destruct (get_conn n cid) as [c|] eqn:Hc.
    + cbv zeta. cbn [ghost_drop snd].
      destruct (ghost_frames_hist cid ms (read_state n ds cid)
                  (ghost_drop g n (closes (snd (fst (io_iteration n ds)))))) as (ad & E & F).
      exists ad. split; [exact E|]. rewrite (step_recv_eq n ds cid ms c Hc). cbn [snd].
      eapply List.Forall_impl; [|exact F]. intros p. apply from_outs_incl.
      intros y Hy. apply List.in_or_app. right. apply List.in_or_app. left. exact Hy.
    + exists []. split; [symmetry; apply List.app_nil_r|constructor].
  - cbn [ghost_step]. destruct (fst (route_answer n m));
      [cbn [ghost_drop snd]; apply ghost_outs_hist|destruct (waits n (o_hbh m, o_e2e m)); exact Hnil].
Qed.

Lemma ghost_run_hist evs : forall n g,
  exists added, snd (ghost_run n g evs) = (snd g ++ added)%list
                /\ List.Forall (fun p => exists ev outs, List.In (ev, outs) (trace n evs) /\ from_outs outs p) added.
Proof.
  induction evs as [|de r IH]; intros n g.
  - exists []. split; [symmetry; apply List.app_nil_r|constructor].
  - cbn [ghost_run trace].
    destruct (ghost_step_hist n (fst de) (snd de) g) as (a1 & E1 & F1).
    destruct (IH (fst (step n (fst de) (snd de))) (ghost_step n (fst de) (snd de) g)) as (a2 & E2 & F2).
    exists (a1 ++ a2)%list. split; [rewrite E2, E1, List.app_assoc; reflexivity|].
    apply List.Forall_app. split.
    + eapply List.Forall_impl; [|exact F1]. intros p Hp.
      exists (snd de), (snd (step n (fst de) (snd de))). split; [left; reflexivity|exact Hp].
    + eapply List.Forall_impl; [|exact F2]. intros p (ev & outs & Hin & Hp).
      exists ev, outs. split; [right; exact Hin|exact Hp].
Qed.

(* C17: every end-to-end identifier in an origin's history is that of an answer the node queued in some step of the trace *)
Theorem answered_from_trace n0 evs o e :
  List.In e (answered n0 evs o) ->
  exists ev outs cid a, List.In (ev, outs) (trace n0 evs) /\ List.In (OQueue cid a) outs
                        /\ o_req a = false /\ o_e2e a = e.
Proof.
  unfold answered, answers_of. intros H.
  apply List.in_map_iff in H. destruct H as (p & Hp & Hin). apply List.filter_In in Hin. destruct Hin as [Hin _].
  destruct (ghost_run_hist evs n0 ghost0) as (ad & E & F). rewrite E in Hin. cbn [ghost0 snd List.app] in Hin.
  rewrite List.Forall_forall in F. destruct (F p Hin) as (ev & outs & Ht & cid & a & Ha & Hr & He).
  exists ev, outs, cid, a. repeat split; try assumption. rewrite He. exact Hp.
Qed.

(* ====================================================================== *)
(* 8. examples: window size 2, two origin hosts "p" and "q", one application (id 4) routed in realm "r" *)
(* ====================================================================== *)
Module HistoryExample.
Import Witness.
(* application request (command 272) from origin o *)
Definition hx_req (o : string) (hbh e2e : Z) (t : bool) : msg :=
  {| m_cmd := App 272; m_req := true; m_p := true; m_e := false; m_t := t; m_app := 4; m_hbh := hbh; m_e2e := e2e;
     m_origin := Present o; m_drealm := Present "r"%string; m_result := Absent;
     m_missing := []; m_has_failed_avp_slot := false; m_auth := []; m_acct := []; m_tag := 0 |}.
(* the application's answer to it *)
Definition hx_ans (hbh e2e : Z) : omsg :=
  {| o_cmd := App 272; o_req := false; o_app := 4; o_hbh := hbh; o_e2e := e2e; o_result := Some 2001;
     o_failed := []; o_tag := 0 |}.
Definition hx_5012 (hbh e2e : Z) : omsg :=
  {| o_cmd := App 272; o_req := false; o_app := 4; o_hbh := hbh; o_e2e := e2e; o_result := Some 5012;
     o_failed := []; o_tag := 0 |}.
Definition hx_n0 : node := node0 [mkpeer "p" false; mkpeer "q" false].
(* both peers connect and exchange capabilities (end-to-end ids 1 and 2); "p" sends three requests
   (end-to-end ids 101, 102, 103), each delivered to the application and answered by it *)
Definition hx_evs : list (dials * event) :=
  [([], EAccept 100); ([], ERecv 0 [ce true "p" 1]);
   ([], EAccept 200); ([], ERecv 1 [ce true "q" 2]);
   ([], ERecv 0 [hx_req "p" 11 101 false]); ([], EAppAnswer 0 (hx_ans 11 101));
   ([], ERecv 0 [hx_req "p" 12 102 false]); ([], EAppAnswer 0 (hx_ans 12 102));
   ([], ERecv 0 [hx_req "p" 13 103 false]); ([], EAppAnswer 0 (hx_ans 13 103))].
Definition hx_n : node := fst (run hx_n0 hx_evs).

Lemma hx_wf : wf_init hx_n0.
Proof.
  apply wf_node0.
  - repeat constructor; cbn; intuition discriminate.
  - cbn. intros p [Hp|[Hp|[]]]; subst p; cbn; auto.
Qed.

(* the history and the windows after hx_evs: the CEA counts as an answer to origin "p" / "q"; the window of "p" holds the last two of its four answers *)
Example C17_history_example_window :
  g_rsize (n_cfg hx_n0) = 2%nat
  /\ answered hx_n0 hx_evs "p"%string = [1; 101; 102; 103]
  /\ answered hx_n0 hx_evs "q"%string = [2]
  /\ pending hx_n0 hx_evs = []
  /\ lastn 2 (answered hx_n0 hx_evs "p"%string) = [102; 103]
  /\ n_sent_answers hx_n = [("p"%string, [102; 103]); ("q"%string, [2])]
  /\ List.map (fun c => (c_id c, c_state c, c_host c)) (n_conns hx_n)
     = [(0%nat, SReady, "p"%string); (1%nat, SReady, "q"%string)]
  /\ List.map snd (trace hx_n0 hx_evs) = snd (run hx_n0 hx_evs).
Proof. vm_compute. repeat split. Qed.

(* a T-flagged repeat of 103 from "p" is answered 5012 and not delivered; the evicted 101 is delivered again; 103 from the other origin "q" is delivered; 103 from "p" without the flag is delivered *)
Example C17_history_example_steps :
  snd (step hx_n [] (ERecv 0 [hx_req "p" 14 103 true])) = [OQueue 0%nat (hx_5012 14 103); OSend 0%nat (hx_5012 14 103)]
  /\ snd (step hx_n [] (ERecv 0 [hx_req "p" 15 101 true])) = [ODeliver 0%nat (hx_req "p" 15 101 true)]
  /\ snd (step hx_n [] (ERecv 1 [hx_req "q" 16 103 true])) = [ODeliver 0%nat (hx_req "q" 16 103 true)]
  /\ snd (step hx_n [] (ERecv 0 [hx_req "p" 14 103 false])) = [ODeliver 0%nat (hx_req "p" 14 103 false)]
  /\ answer_of (hx_req "p" 14 103 true) (Some RC_UNABLE) [] = hx_5012 14 103.
Proof. vm_compute. repeat split. Qed.

(* the hypotheses of C17_history_duplicate_rejected hold for the repeat of 103 (the theorem is not vacuous), and its conclusion read off for this history *)
Example C17_history_example_theorem :
  exists pre post,
    snd (step hx_n [] (ERecv 0 [hx_req "p" 14 103 true]))
    = (pre ++ [OQueue 0%nat (answer_of (hx_req "p" 14 103 true) (Some RC_UNABLE) [])] ++ post)%list
    /\ List.Forall (sysout (pmap hx_n)) pre /\ List.Forall (sysout (pmap hx_n)) post
    /\ forall i m', ~ List.In (ODeliver i m') (snd (step hx_n [] (ERecv 0 [hx_req "p" 14 103 true]))).
Proof.
  unfold hx_n.
  assert (Hc0 : exists c0, get_conn (fst (run hx_n0 hx_evs)) 0 = Some c0) by (vm_compute; eexists; reflexivity).
  assert (Hc : exists c, get_conn (read_state (fst (run hx_n0 hx_evs)) [] 0) 0 = Some c /\ is_ready_state (c_state c) = true)
    by (vm_compute; eexists; split; reflexivity).
  assert (Hin : List.In (m_e2e (hx_req "p" 14 103 true))
                  (lastn (g_rsize (n_cfg hx_n0)) (answered hx_n0 hx_evs "p"%string)))
    by (vm_compute; right; left; reflexivity).
  destruct Hc0 as [c0 Hc0]. destruct Hc as (c & Hc & Hr).
  exact (C17_history_duplicate_rejected hx_n0 hx_evs [] 0%nat c0 c (hx_req "p" 14 103 true) "p"%string hx_wf
           Hc0 Hc Hr eq_refl eq_refl eq_refl (or_introl eq_refl) Hin).
Qed.

(* the hypotheses of C17_history_no_false_duplicate hold for the T-flagged repeat of the evicted 101: the routing function, asked about the unflagged request, delivers to application 0, and so does the step *)
Example C17_history_example_theorem_evicted :
  exists c pre post,
    get_conn (read_state hx_n [] 0) 0 = Some c
    /\ spec_route (read_state hx_n [] 0) c (clear_t (hx_req "p" 15 101 true)) = Deliver 0
    /\ snd (step hx_n [] (ERecv 0 [hx_req "p" 15 101 true]))
       = (pre ++ route_outputs 0 (hx_req "p" 15 101 true)
                   (spec_route (read_state hx_n [] 0) c (clear_t (hx_req "p" 15 101 true))) ++ post)%list
    /\ List.Forall (sysout (pmap hx_n)) pre /\ List.Forall (sysout (pmap hx_n)) post.
Proof.
  unfold hx_n.
  assert (Hc0 : exists c0, get_conn (fst (run hx_n0 hx_evs)) 0 = Some c0) by (vm_compute; eexists; reflexivity).
  assert (Hc : exists c, get_conn (read_state (fst (run hx_n0 hx_evs)) [] 0) 0 = Some c /\ is_ready_state (c_state c) = true
                         /\ spec_route (read_state (fst (run hx_n0 hx_evs)) [] 0) c (clear_t (hx_req "p" 15 101 true)) = Deliver 0)
    by (vm_compute; eexists; repeat split; reflexivity).
  assert (Hnin : ~ List.In (m_e2e (hx_req "p" 15 101 true))
                   (lastn (g_rsize (n_cfg hx_n0)) (answered hx_n0 hx_evs "p"%string)))
    by (vm_compute; intros [H|[H|[]]]; discriminate H).
  destruct Hc0 as [c0 Hc0]. destruct Hc as (c & Hc & Hr & Hs).
  destruct (C17_history_no_false_duplicate hx_n0 hx_evs [] 0%nat c0 c (hx_req "p" 15 101 true) "p"%string 272 hx_wf
              Hc0 Hc Hr eq_refl eq_refl eq_refl (or_intror Hnin)) as (_ & pre & post & E & Hpre & Hpost).
  exists c, pre, post. repeat split; assumption.
Qed.

(* the attribution rule when a key is reused: connection 0 (of "p") carries a request of origin "p" and then, before
   the first is answered, a request of origin "q" with the same (hop-by-hop, end-to-end) pair (20, 200): the later
   request takes the key (0, 20, 200) over; the application's answer goes out on connection 0 and is attributed to
   "q", by the ghost and by the node alike; afterwards a T-flagged repeat of origin "p" is delivered again and one of
   origin "q" is rejected.  Excluded by "unanswered requests of a connection have pairwise distinct pairs" *)
Definition hx_evs2 : list (dials * event) :=
  (hx_evs ++ [([], ERecv 0 [hx_req "p" 20 200 false]); ([], ERecv 0 [hx_req "q" 20 200 false]);
              ([], EAppAnswer 0 (hx_ans 20 200))])%list.
Example C17_history_example_pair_reuse :
  let n2 := fst (run hx_n0 hx_evs2) in
  pending hx_n0 (List.firstn 11 hx_evs2) = [(0%nat, 20, 200, "p"%string)]
  /\ pending hx_n0 (List.firstn 12 hx_evs2) = [(0%nat, 20, 200, "q"%string)]
  /\ List.nth 12 (List.map snd (trace hx_n0 hx_evs2)) [] = [OQueue 0%nat (hx_ans 20 200); OSend 0%nat (hx_ans 20 200)]
  /\ answered hx_n0 hx_evs2 "p"%string = [1; 101; 102; 103]
  /\ answered hx_n0 hx_evs2 "q"%string = [2; 200]
  /\ pending hx_n0 hx_evs2 = []
  /\ n_sent_answers n2 = [("p"%string, [102; 103]); ("q"%string, [2; 200])]
  /\ snd (step n2 [] (ERecv 0 [hx_req "p" 21 200 true])) = [ODeliver 0%nat (hx_req "p" 21 200 true)]
  /\ snd (step n2 [] (ERecv 1 [hx_req "q" 22 200 true])) = [OQueue 1%nat (hx_5012 22 200); OSend 1%nat (hx_5012 22 200)].
Proof. vm_compute. repeat split. Qed.

(* the same pair on two connections (hop-by-hop identifiers are unique per connection only): "p" on connection 0 and
   "q" on connection 1 each send a request with the pair (20, 200); both are pending at once, under their own
   keys (0, 20, 200) and (1, 20, 200).  The application answers both: the first answer goes out on connection 0 and
   is attributed to "p", the second on connection 1 and is attributed to "q" (with the table keyed by the pair alone
   the second request took the pair over: the first answer went to "q" and the second to nobody).  Afterwards a
   T-flagged repeat of 200 is rejected for either origin *)
Definition hx_evs2b : list (dials * event) :=
  (hx_evs ++ [([], ERecv 0 [hx_req "p" 20 200 false]); ([], ERecv 1 [hx_req "q" 20 200 false]);
              ([], EAppAnswer 0 (hx_ans 20 200)); ([], EAppAnswer 0 (hx_ans 20 200))])%list.
Example C17_history_example_same_pair_two_connections :
  let n2 := fst (run hx_n0 hx_evs2b) in
  pending hx_n0 (List.firstn 12 hx_evs2b) = [(0%nat, 20, 200, "p"%string); (1%nat, 20, 200, "q"%string)]
  /\ n_origin_waiting (fst (run hx_n0 (List.firstn 12 hx_evs2b)))
     = [(0%nat, 20, 200, "p"%string); (1%nat, 20, 200, "q"%string)]
  /\ n_peer_waiting (fst (run hx_n0 (List.firstn 12 hx_evs2b))) = [("p"%string, [(20, 200)]); ("q"%string, [(20, 200)])]
  /\ List.nth 12 (List.map snd (trace hx_n0 hx_evs2b)) [] = [OQueue 0%nat (hx_ans 20 200); OSend 0%nat (hx_ans 20 200)]
  /\ pending hx_n0 (List.firstn 13 hx_evs2b) = [(1%nat, 20, 200, "q"%string)]
  /\ answered hx_n0 (List.firstn 13 hx_evs2b) "p"%string = [1; 101; 102; 103; 200]
  /\ answered hx_n0 (List.firstn 13 hx_evs2b) "q"%string = [2]
  /\ List.nth 13 (List.map snd (trace hx_n0 hx_evs2b)) [] = [OQueue 1%nat (hx_ans 20 200); OSend 1%nat (hx_ans 20 200)]
  /\ pending hx_n0 hx_evs2b = []
  /\ answered hx_n0 hx_evs2b "p"%string = [1; 101; 102; 103; 200]
  /\ answered hx_n0 hx_evs2b "q"%string = [2; 200]
  /\ n_origin_waiting n2 = []
  /\ n_sent_answers n2 = [("p"%string, [103; 200]); ("q"%string, [2; 200])]
  /\ snd (step n2 [] (ERecv 0 [hx_req "p" 21 200 true])) = [OQueue 0%nat (hx_5012 21 200); OSend 0%nat (hx_5012 21 200)]
  /\ snd (step n2 [] (ERecv 1 [hx_req "q" 22 200 true])) = [OQueue 1%nat (hx_5012 22 200); OSend 1%nat (hx_5012 22 200)].
Proof. vm_compute. repeat split. Qed.

(* a connection closes while a request it delivered is still unanswered: "p" sends (30, 300), the application
   has not answered when the peer closes connection 0; the node forgets the pair (per-host table and origin
   table), and so does the ghost: the pending table loses the pair.  The application's late answer is not
   routable and is attributed to nobody *)
Definition hx_evs3a : list (dials * event) := (hx_evs ++ [([], ERecv 0 [hx_req "p" 30 300 false])])%list.
Definition hx_evs3 : list (dials * event) := (hx_evs3a ++ [([], EPeerClose 0)])%list.
Definition hx_evs3b : list (dials * event) := (hx_evs3 ++ [([], EAppAnswer 0 (hx_ans 30 300))])%list.
Example C17_history_example_close :
  pending hx_n0 hx_evs3a = [(0%nat, 30, 300, "p"%string)]
  /\ n_origin_waiting (fst (run hx_n0 hx_evs3a)) = [(0%nat, 30, 300, "p"%string)]
  /\ n_peer_waiting (fst (run hx_n0 hx_evs3a)) = [("p"%string, [(30, 300)])]
  /\ List.nth 11 (List.map snd (trace hx_n0 hx_evs3)) [] = [OClose 0%nat R_GONE]
  /\ pending hx_n0 hx_evs3 = []
  /\ n_origin_waiting (fst (run hx_n0 hx_evs3)) = []
  /\ n_peer_waiting (fst (run hx_n0 hx_evs3)) = []
  /\ List.nth 12 (List.map snd (trace hx_n0 hx_evs3b)) [] = [ONotRoutable]
  /\ answered hx_n0 hx_evs3b "p"%string = [1; 101; 102; 103]
  /\ n_sent_answers (fst (run hx_n0 hx_evs3b)) = [("p"%string, [102; 103]); ("q"%string, [2])].
Proof. vm_compute. repeat split. Qed.

(* a CER repeated on a READY connection (connection 0 of "p"): the node binds its pair (40, 40) to "p", ignores the
   request (no output) and forgets the pair again; the ghost binds (ghost_request) and unbinds: nothing stays pending *)
Definition hx_evs4 : list (dials * event) := (hx_evs ++ [([], ERecv 0 [ce true "p" 40])])%list.
Example C17_history_example_cer_ignored :
  cer_unexpected (read_state hx_n [] 0) 0 (ce true "p" 40) = true
  /\ fst (ghost_request (ghost_run hx_n0 ghost0 hx_evs) 0 (ce true "p" 40)) = [(0%nat, 40, 40, "p"%string)]
  /\ List.nth 10 (List.map snd (trace hx_n0 hx_evs4)) [ONotRoutable] = []
  /\ pending hx_n0 hx_evs4 = []
  /\ n_origin_waiting (fst (run hx_n0 hx_evs4)) = []
  /\ answered hx_n0 hx_evs4 "p"%string = [1; 101; 102; 103].
Proof. vm_compute. repeat split. Qed.

(* an application answers after the peer's DPR: "p" sends (30, 300), then a DPR (answered: the DPA, end-to-end id
   50, is attributed to "p"); connection 0 is DISCONNECTING when the application's answer to (30, 300) arrives: a host
   was waiting for it but the answer is not routable; the node forgets the pair, and so does the ghost *)
Definition hx_evs5a : list (dials * event) := (hx_evs3a ++ [([], ERecv 0 [dpr "p" 50])])%list.
Definition hx_evs5 : list (dials * event) := (hx_evs5a ++ [([], EAppAnswer 0 (hx_ans 30 300))])%list.
Example C17_history_example_answer_not_routable :
  pending hx_n0 hx_evs5a = [(0%nat, 30, 300, "p"%string)]
  /\ n_origin_waiting (fst (run hx_n0 hx_evs5a)) = [(0%nat, 30, 300, "p"%string)]
  /\ n_peer_waiting (fst (run hx_n0 hx_evs5a)) = [("p"%string, [(30, 300)])]
  /\ List.map (fun c => (c_id c, c_state c, c_host c)) (n_conns (fst (run hx_n0 hx_evs5a)))
     = [(0%nat, SDisconnecting, "p"%string); (1%nat, SReady, "q"%string)]
  /\ waits (fst (run hx_n0 hx_evs5a)) (30, 300) = Some 0%nat
  /\ fst (route_answer (fst (run hx_n0 hx_evs5a)) (hx_ans 30 300)) = None
  /\ List.nth 12 (List.map snd (trace hx_n0 hx_evs5)) [] = [ONotRoutable]
  /\ pending hx_n0 hx_evs5 = []
  /\ n_origin_waiting (fst (run hx_n0 hx_evs5)) = []
  /\ answered hx_n0 hx_evs5 "p"%string = [1; 101; 102; 103; 50]
  /\ n_sent_answers (fst (run hx_n0 hx_evs5)) = [("p"%string, [103; 50]); ("q"%string, [2])].
Proof. vm_compute. repeat split. Qed.
End HistoryExample.

(* ====================================================================== *)
Print Assumptions trace_run.
Print Assumptions recv_trace_answers.
Print Assumptions C17_history_window_gen.
Print Assumptions C17_history_window.
Print Assumptions C17_history_pending.
Print Assumptions C17_history_duplicate_rejected.
Print Assumptions C17_history_no_false_duplicate.
Print Assumptions C17_history_flag_irrelevant.
Print Assumptions answered_from_trace.
Print Assumptions HistoryExample.C17_history_example_window.
Print Assumptions HistoryExample.C17_history_example_steps.
Print Assumptions HistoryExample.C17_history_example_theorem.
Print Assumptions HistoryExample.C17_history_example_theorem_evicted.
Print Assumptions HistoryExample.C17_history_example_pair_reuse.
Print Assumptions HistoryExample.C17_history_example_same_pair_two_connections.
Print Assumptions HistoryExample.C17_history_example_close.
Print Assumptions HistoryExample.C17_history_example_cer_ignored.
Print Assumptions HistoryExample.C17_history_example_answer_not_routable.
