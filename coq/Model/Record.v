(* Recording an answered end-to-end identifier in the window of its origin host (Node._record_answer, node/node.py), at
   the granularity of its statements on the shared table `_sent_answers`, for two threads that answer requests of ONE
   origin at the same time (application threads send answers concurrently).  The node model (Model/Node.v) records an
   answer in one atomic step and treats the bound of the window (C17_window); this file is about schedules only, the
   window is unbounded here. *)
From DV Require Import Prelude.Base.

Inductive rinstr :=
| RSetdefaultAppend   (* table.setdefault(origin, deque(..)).append(e)   -- one step under the GIL's dict/deque atomicity *)
| RTest               (* if origin not in table:                        -- seen := origin in table *)
| RCreate             (*     table[origin] = deque(..)                  -- only when not seen *)
| RAppend.            (* table[origin].append(e)                        -- KeyError when absent *)

Record rst := mk_rst {
  r_p1 : list rinstr; r_p2 : list rinstr;      (* what is left of each thread's program *)
  r_seen1 : bool; r_seen2 : bool;
  r_table : option (list Z);                   (* the origin's window, None = no entry yet *)
  r_crashed : bool }.

Definition rexec (i : rinstr) (e : Z) (seen : bool) (t : option (list Z)) : bool * option (list Z) * bool :=
  match i with
  | RSetdefaultAppend => (seen, Some (match t with None => [e] | Some w => w ++ [e] end), false)
  | RTest => (match t with None => false | Some _ => true end, t, false)
  | RCreate => (seen, if seen then t else Some [], false)
  | RAppend => match t with None => (seen, t, true) | Some w => (seen, Some (w ++ [e]), false) end
  end.

(* thread 1 records e1, thread 2 records e2; `true` schedules thread 1 *)
Definition rstep (e1 e2 : Z) (s : rst) (first : bool) : rst :=
  if r_crashed s then s else
  if first then
    match r_p1 s with
    | [] => s
    | i :: p => let '(seen, t, c) := rexec i e1 (r_seen1 s) (r_table s) in
                mk_rst p (r_p2 s) seen (r_seen2 s) t c
    end
  else
    match r_p2 s with
    | [] => s
    | i :: p => let '(seen, t, c) := rexec i e2 (r_seen2 s) (r_table s) in
                mk_rst (r_p1 s) p (r_seen1 s) seen t c
    end.

Definition rrun (e1 e2 : Z) (l : list bool) (s : rst) : rst := fold_left (rstep e1 e2) l s.
Definition rinit (p : list rinstr) (t : option (list Z)) : rst := mk_rst p p false false t false.

Definition window_of (t : option (list Z)) : list Z := match t with None => [] | Some w => w end.

(* the program of the code as it is (tied to the source by Link/LinkRecord.v) and the one it replaced *)
Definition record_prog : list rinstr := [RSetdefaultAppend].
Definition record_prog_test_then_create : list rinstr := [RTest; RCreate; RAppend].
