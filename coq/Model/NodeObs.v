(* Observation of the node model in the canonical form tools/nodesim.py renders the
   implementation's snapshot in, and the comparison run by the correspondence. *)
From DV Require Import Prelude.Base Model.Node.
From Coq Require Import String.

Record eobs : Type := {
  x_sends : list (nat * list omsg); x_deliv : list (nat * Z * Z); x_unexp : nat;
  x_closed : list nat; x_dials : nat; x_notroutable : nat; x_answered : nat;
  x_peers : list (string * Z * Z * Z * Z);
  x_conns : list (Z * bool * Z * string * string * list Z * list Z * bool * bool);
  x_half : list Z; x_sockpeers : list Z;
  x_peer_waiting : list (string * list (Z * Z)); x_app_waiting : list (Z * Z); x_origin_waiting : list (Z * Z);
  x_sent_answers : list (string * list Z); x_ready : list bool; x_stopping : bool;
  x_answer_waiting : list (list Z)
}.

Fixpoint insert_by {A} (le : A -> A -> bool) (x : A) (l : list A) : list A :=
  match l with
  | [] => [x]
  | y :: r => if le x y then x :: l else y :: insert_by le x r
  end.
Definition sort_by {A} (le : A -> A -> bool) (l : list A) : list A := List.fold_right (insert_by le) [] l.
Definition sortz := sort_by Z.leb.
Definition le_pair (a b : Z * Z) : bool := (fst a <? fst b) || ((fst a =? fst b) && (snd a <=? snd b)).
Definition str_le (a b : string) : bool := match String.compare a b with Gt => false | _ => true end.

Definition state_code (s : cstate) : Z :=
  match s with SConnecting => 0 | SConnected => 1 | SReady => 2 | SReadyWaitDwa => 3
             | SDisconnecting => 4 | SClosing => 5 | SClosed => 6 end.
Definition optz (o : option Z) : Z := match o with Some x => x | None => -1 end.

Definition omsg_eqb (a b : omsg) : bool :=
  cmd_eqb (o_cmd a) (o_cmd b) && Bool.eqb (o_req a) (o_req b) && (o_app a =? o_app b) && (o_hbh a =? o_hbh b)
  && (o_e2e a =? o_e2e b)
  && match o_result a, o_result b with Some x, Some y => x =? y | None, None => true | _, _ => false end
  && list_eqb (fun p q => (fst p =? fst q) && (snd p =? snd q)) (o_failed a) (o_failed b).

(* outputs grouped the way the harness observes them *)
Definition sends_of (outs : list output) : list (nat * list omsg) :=
  let cids := List.fold_left (fun acc o => match o with
                | OSend c _ => if List.existsb (Nat.eqb c) acc then acc else (acc ++ [c])%list
                | _ => acc end) outs [] in
  List.map (fun c => (c, List.flat_map (fun o => match o with OSend c' m => if Nat.eqb c c' then [m] else [] | _ => [] end) outs))
           (sort_by Nat.leb cids).
Definition deliv_of (outs : list output) : list (nat * Z * Z) :=
  List.flat_map (fun o => match o with ODeliver i m => [(i, m_hbh m, m_e2e m)] | _ => [] end) outs.
Definition count_of (f : output -> bool) (outs : list output) : nat := List.length (List.filter f outs).

Definition snap_peers (n : node) : list (string * Z * Z * Z * Z) :=
  List.map (fun p => (p_name p, match p_conn p with Some c => Z.of_nat c | None => -1 end, optz (p_reason p),
                      optz (p_lastconn p), optz (p_lastdisc p))) (n_peers n).
Definition snap_conns (n : node) : list (Z * bool * Z * string * string * list Z * list Z * bool * bool) :=
  List.map (fun c => (Z.of_nat (c_id c), c_recv c, state_code (c_state c), c_node_name c, c_host c,
                      sortz (c_auth c), sortz (c_acct c), negb (c_last_dwr c =? 0), c_sock_open c))
           (sort_by (fun a b => Nat.leb (c_id a) (c_id b)) (n_conns n)).

Definition bit (b : bool) (k : Z) : Z := if b then 0 else 2 ^ k.

(* 0 = the model agrees with the observation; otherwise a bit per differing component *)
Definition diff_code (n : node) (outs : list output) (x : eobs) : Z :=
  bit (list_eqb (fun a b => Nat.eqb (fst a) (fst b) && list_eqb omsg_eqb (snd a) (snd b)) (sends_of outs) (x_sends x)) 0
  + bit (list_eqb (fun a b => let '(i, h, e) := a in let '(j, g, f) := b in Nat.eqb i j && (h =? g) && (e =? f)) (deliv_of outs) (x_deliv x)) 1
  + bit (Nat.eqb (count_of (fun o => match o with OUnexpected _ _ => true | _ => false end) outs) (x_unexp x)) 2
  + bit (list_eqb Nat.eqb (sort_by Nat.leb (List.flat_map (fun o => match o with OClose c _ => [c] | _ => [] end) outs)) (x_closed x)) 3
  + bit (Nat.eqb (count_of (fun o => match o with ODial _ => true | _ => false end) outs) (x_dials x)) 4
  + bit (Nat.eqb (count_of (fun o => match o with ONotRoutable => true | _ => false end) outs) (x_notroutable x)) 5
  + bit (list_eqb (fun a b => let '(n1, c1, r1, lc1, ld1) := a in let '(n2, c2, r2, lc2, ld2) := b in
                     String.eqb n1 n2 && (c1 =? c2) && (r1 =? r2) && (lc1 =? lc2) && (ld1 =? ld2)) (snap_peers n) (x_peers x)) 6
  + bit (list_eqb (fun a b => let '(i1, r1, s1, nn1, h1, au1, ac1, w1, o1) := a in let '(i2, r2, s2, nn2, h2, au2, ac2, w2, o2) := b in
                     (i1 =? i2) && Bool.eqb r1 r2 && (s1 =? s2) && String.eqb nn1 nn2 && String.eqb h1 h2
                     && list_eqb Z.eqb au1 au2 && list_eqb Z.eqb ac1 ac2 && Bool.eqb w1 w2 && Bool.eqb o1 o2)
                  (snap_conns n) (x_conns x)) 7
  + bit (list_eqb Z.eqb (sortz (List.map Z.of_nat (n_half_ready n))) (x_half x)) 8
  + bit (list_eqb Z.eqb (sortz (List.map Z.of_nat (n_socket_peers n))) (x_sockpeers x)) 9
  + bit (list_eqb (fun a b => String.eqb (fst a) (fst b) && list_eqb (fun p q => (fst p =? fst q) && (snd p =? snd q)) (snd a) (snd b))
                  (sort_by (fun a b => str_le (fst a) (fst b)) (List.map (fun e => (fst e, sort_by le_pair (snd e))) (n_peer_waiting n)))
                  (x_peer_waiting x)) 10
  + bit (list_eqb (fun a b => (fst a =? fst b) && (snd a =? snd b))
                  (sort_by le_pair (List.map (fun t => let '(h, e, _) := t in (h, e)) (n_app_waiting n))) (x_app_waiting x)) 11
  + bit (list_eqb (fun a b => (fst a =? fst b) && (snd a =? snd b))
                  (sort_by le_pair (List.map (fun t => let '(_, h, e, _) := t in (h, e)) (n_origin_waiting n))) (x_origin_waiting x)) 12
  + bit (list_eqb (fun a b => String.eqb (fst a) (fst b) && list_eqb Z.eqb (snd a) (snd b))
                  (sort_by (fun a b => str_le (fst a) (fst b)) (n_sent_answers n)) (x_sent_answers x)) 13
  + bit (list_eqb Bool.eqb (List.map a_ready (n_apps n)) (x_ready x)) 14
  + bit (Bool.eqb (n_stopping n) (x_stopping x)) 15
  + bit (list_eqb (list_eqb Z.eqb) (List.map (fun a => sortz (List.map fst (a_waiting a))) (n_apps n)) (x_answer_waiting x)) 16
  + bit (Nat.eqb (count_of (fun o => match o with OAnswerTo _ _ => true | _ => false end) outs) (x_answered x)) 17.

(* run a scenario, comparing after EVERY event; returns index * 100000 + code of each disagreement
   (the model is re-synchronised on nothing: it runs on from its own state) *)
Fixpoint check_run (i : Z) (n : node) (evs : list (dials * event * eobs)) : list Z :=
  match evs with
  | [] => []
  | (ds, e, x) :: r =>
      let '(n', outs) := step n ds e in
      let d := diff_code n' outs x in
      (if d =? 0 then [] else [i * 100000 + d]) ++ check_run (i + 1) n' r
  end.
Definition scenario_ok (c : node * list (dials * event * eobs)) : bool :=
  match check_run 0 (fst c) (snd c) with [] => true | _ => false end.
