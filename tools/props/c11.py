"""C11 — node-layer property; see tools/nodecheck.py and tools/nodeoracles.py."""
import nodecheck

PROFILE = dict(outbound=0.4)
W = nodecheck.weights(tick=10, dwa=3, dwr=2, request=2, app_answer=2)
N_QUICK, N_THOROUGH, LENGTH = 60, 1500, 22
THEMES = (("watchdog", 600, 0, None, 0), ("busy_sender", 260, 0, None, 0), ("late_cer", None, 0, None, 0), ("fragments", 300, 0, None, 0), ("ready", 1, 20, 2, 300))
FILES = ["Props/C11.v"]


def busy_neighbour(run):
    """Sub-second timing the macro-step model cannot express: connection A receives traffic more often than the node's
    wake-up interval for the whole run, connection B stays silent.  B's watchdog must not depend on A being quiet: B
    gets its DWR once it has been idle for longer than the idle timeout and is closed (watchdog reason) when no DWA
    comes.  Judged on the implementation (virtual time)."""
    import nodesim as NS
    from vsim import Sim
    for wakeup, idle, dwa, period in ((2, 3, 2, 0.25), (3, 2, 4, 1.0), (1, 4, 1, 0.4)):
        sim = Sim(seed=1, t0=NS.T0)
        try:
            sim.script_random([77, 12345])
            node = sim.node_mod.Node("srv.example.net", "example.net", ip_addresses=["10.0.0.1"], tcp_port=3868)
            node.wakeup_interval, node.idle_timeout, node.dwa_timeout = wakeup, idle, dwa
            app = sim.app_mod.SimpleThreadingApplication(4, is_auth_application=True, request_handler=lambda a, m: None)
            peers = [node.add_peer("aaa://cli%d.example.net" % i, "example.net") for i in range(2)]
            node.add_application(app, peers)
            node.start()
            sim.run()
            rem = []
            for i in range(2):
                sim.script_random([1000 + i])
                r = sim.connect_in()
                sim.run()
                r.feed(NS.build_message(dict(kind="cer", host="cli%d.example.net" % i, hbh=1, e2e=1)))
                sim.run()
                r.take_messages()
                rem.append(r)
            t_start = sim.now
            vtime = sim.vmodules["time"]
            horizon = idle + dwa + 3 * wakeup + 3

            def chatter():
                k = 0
                while sim.now - t_start < horizon:
                    vtime.sleep(period)
                    k += 1
                    rem[0].feed(NS.build_message(dict(kind="dwr", host="cli0.example.net", hbh=1000 + k, e2e=5000 + k)))
            sim.spawn(chatter, name="chatter")
            dwr_at, closed_at = None, None
            steps = int(horizon / 0.5) + 2
            for _ in range(steps):
                sim.advance(0.5)
                if dwr_at is None and any(m.header.is_request and m.header.command_code == 280 for m in rem[1].take_messages()):
                    dwr_at = sim.now - t_start
                if closed_at is None and rem[1].closed_by_node:
                    closed_at = sim.now - t_start
            case = {"scenario": "silent connection beside a busy one", "wakeup_interval": wakeup, "idle_timeout": idle,
                    "dwa_timeout": dwa, "traffic_period_on_the_other_connection": period}
            run.count(1, [("busy-neighbour", wakeup, idle, dwa, period)])
            reason = node.peers["cli1.example.net"].disconnect_reason
            ok = (dwr_at is not None and dwr_at <= idle + wakeup + 1.5 and closed_at is not None
                  and closed_at <= dwr_at + dwa + wakeup + 1.5 and reason == sim.peer_mod.DISCONNECT_REASON_DWA_TIMEOUT)
            if not ok or sim.thread_deaths:
                run.violation("idle-sends-one", case, {"dwr_after_s": dwr_at, "closed_after_s": closed_at, "reason": reason,
                                                       "deaths": [str(d)[:80] for d in sim.thread_deaths]},
                              {"dwr_within_s": idle + wakeup + 1.5, "then_closed_within_s": dwa + wakeup + 1.5, "reason": "watchdog timeout"},
                              what="a silent connection gets no watchdog / is not closed while another connection keeps the node busy")
        finally:
            sim.shutdown()


def check(run):
    orig_obligations = run.obligations

    def obligations_then_neighbour(files):
        out = orig_obligations(files)
        busy_neighbour(run)
        return out
    run.obligations = obligations_then_neighbour
    return nodecheck.run(run, "C11", FILES, PROFILE, W, N_QUICK, N_THOROUGH, LENGTH, themes=THEMES)


replay = nodecheck.replay_generic
