(* Session-id format: the two 8-character hex fields are the high and low
   32 bits of the counter; the rendering is injective in the counter. *)
From DV Require Import Prelude.Base Proofs.BaseP Model.Ids.
From Coq Require Import String Ascii.

Lemma be_enc_mod n x : be_enc n (x mod 256 ^ Z.of_nat n) = be_enc n x.
Proof.
  revert x; induction n as [|n IH]; intros x; [reflexivity|].
  cbn [be_enc]. rewrite Nat2Z.inj_succ, Z.pow_succ_r by lia.
  assert (HP : 0 < 256 ^ Z.of_nat n) by (apply Z.pow_pos_nonneg; lia).
  rewrite Z.rem_mul_r by lia.
  pose proof (Z.mod_pos_bound x 256 ltac:(lia)) as Hr.
  set (r := x mod 256) in *. set (q := (x / 256) mod 256 ^ Z.of_nat n).
  replace ((r + 256 * q) / 256) with q by lia.
  replace ((r + 256 * q) mod 256) with r by lia.
  unfold q. rewrite IH. reflexivity.
Qed.

Lemma be_enc_split n m x :
  be_enc (n + m) x = be_enc n (x / 256 ^ Z.of_nat m) ++ be_enc m x.
Proof.
  revert x; induction m as [|m IH]; intros x.
  - rewrite Nat.add_0_r. cbn [be_enc Z.of_nat]. rewrite Z.pow_0_r, Z.div_1_r, app_nil_r. reflexivity.
  - rewrite Nat.add_succ_r. cbn [be_enc]. rewrite IH, app_assoc. do 2 f_equal.
    rewrite Nat2Z.inj_succ, Z.pow_succ_r by lia.
    rewrite Z.div_div by lia. reflexivity.
Qed.

Lemma tohex_app a b : tohex (a ++ b) = String.append (tohex a) (tohex b).
Proof. induction a as [|x a IH]; [reflexivity|]. cbn [tohex app String.append]. rewrite IH; reflexivity. Qed.

Lemma tohex_length bs : String.length (tohex bs) = (2 * List.length bs)%nat.
Proof. induction bs as [|b bs IH]; [reflexivity|]. cbn [tohex String.length List.length]. rewrite IH; lia. Qed.

Lemma substring_app_l a b : String.substring 0 (String.length a) (String.append a b) = a.
Proof. induction a as [|c a IH]; cbn; [destruct b; reflexivity|]. rewrite IH; reflexivity. Qed.

Lemma substring_app_r a b n :
  String.substring (String.length a) n (String.append a b) = String.substring 0 n b.
Proof. induction a as [|c a IH]; cbn; [reflexivity|exact IH]. Qed.

Lemma substring_all s : String.substring 0 (String.length s) s = s.
Proof. induction s as [|c s IH]; cbn; [reflexivity|rewrite IH; reflexivity]. Qed.

Lemma session_parts_fields ident start s opt :
  session_parts ident start s opt =
  [ident; hex8 start; hex8 (s / 4294967296); hex8 s] ++ opt.
Proof.
  unfold session_parts, hex8. change 8%nat with (4 + 4)%nat at 1 2.
  rewrite (be_enc_split 4 4 s), tohex_app.
  set (A := tohex (be_enc 4 (s / 256 ^ Z.of_nat 4))). set (B := tohex (be_enc 4 s)).
  assert (L : String.length A = 8%nat)
    by (unfold A; rewrite tohex_length, be_enc_length; reflexivity).
  assert (L2 : String.length B = 8%nat)
    by (unfold B; rewrite tohex_length, be_enc_length; reflexivity).
  replace (String.substring 0 8 (String.append A B)) with A
    by (rewrite <- L; symmetry; apply substring_app_l).
  replace (String.substring 8 8 (String.append A B)) with B.
  2:{ rewrite <- L at 1. rewrite substring_app_r. rewrite <- L2. symmetry; apply substring_all. }
  reflexivity.
Qed.

(* hex rendering is injective on byte strings *)
Lemma hexdigit_inj a b : 0 <= a < 16 -> 0 <= b < 16 -> hexdigit a = hexdigit b -> a = b.
Proof.
  intros Ha Hb E.
  assert (forall x, 0 <= x < 16 -> Z.of_nat (nat_of_ascii (hexdigit x)) = if x <? 10 then x + 48 else x + 87).
  { intros x Hx. unfold hexdigit. rewrite nat_ascii_embedding; [|destruct (x <? 10) eqn:?; lia].
    destruct (x <? 10) eqn:?; lia. }
  pose proof (H a Ha) as Ea. pose proof (H b Hb) as Eb. rewrite E in Ea. rewrite Ea in Eb.
  destruct (a <? 10) eqn:?, (b <? 10) eqn:?; lia.
Qed.

Lemma tohex_inj a b : wf_bytes a -> wf_bytes b -> tohex a = tohex b -> a = b.
Proof.
  revert b; induction a as [|x a IH]; intros [|y b] Ha Hb E; try discriminate; [reflexivity|].
  cbn [tohex] in E. injection E as E1 E2 E3.
  inversion Ha; inversion Hb; subst.
  apply hexdigit_inj in E1; [|lia..]. apply hexdigit_inj in E2; [|lia..].
  f_equal; [lia|]. apply IH; assumption.
Qed.

Lemma hex8_inj x y : 0 <= x < 4294967296 -> 0 <= y < 4294967296 -> hex8 x = hex8 y -> x = y.
Proof.
  intros Hx Hy E. unfold hex8 in E. apply tohex_inj in E; try apply be_enc_wf.
  apply (be_enc_inj 4); [exact Hx|exact Hy|exact E].
Qed.

Lemma session_parts_inj ident start s1 s2 opt :
  0 <= s1 < 18446744073709551616 -> 0 <= s2 < 18446744073709551616 ->
  session_parts ident start s1 opt = session_parts ident start s2 opt -> s1 = s2.
Proof.
  intros H1 H2 E. rewrite !session_parts_fields in E.
  assert (Ehi := f_equal (fun l => nth 2 l EmptyString) E).
  assert (Elo := f_equal (fun l => nth 3 l EmptyString) E).
  cbn [nth app] in Ehi, Elo. clear E.
  unfold hex8 in Elo. rewrite <- (be_enc_mod 4 s1), <- (be_enc_mod 4 s2) in Elo.
  apply tohex_inj in Elo; try apply be_enc_wf.
  apply (be_enc_inj 4) in Elo; [|change (256 ^ Z.of_nat 4) with 4294967296 in *; apply Z.mod_pos_bound; lia..].
  apply hex8_inj in Ehi; [|lia..].
  change (256 ^ Z.of_nat 4) with 4294967296 in Elo. lia.
Qed.
