(* C14 — no fault or handler outcome stops service: the slot / consumer logic of the threading
   application, for every interleaving and every handler outcome.  (Thread death by an exception
   the model does not contain can only be observed: partial.) *)
From DV Require Import Prelude.Base Model.Slots Proofs.SlotsP.

(* slots held = handlers running + responses queued, in every reachable state *)
Theorem C14_slots_conserved : forall max ss a o, trun (tapp0 max) ss = Some (a, o) ->
  t_slots a = (List.length (t_running a) + List.length (t_respq a))%nat.
Proof. intros max ss a o H. exact (s_cons a (slots_invariant max ss a o H)). Qed.

(* no processing capacity is consumed for good *)
Theorem C14_capacity_returns : forall max ss a o, trun (tapp0 max) ss = Some (a, o) ->
  t_running a = [] -> t_respq a = [] -> t_slots a = 0%nat.
Proof. exact capacity_returns. Qed.

(* neither consumer ever stops, whatever the handlers return and whether answers are routable *)
Theorem C14_consumers_survive : forall max ss a o, trun (tapp0 max) ss = Some (a, o) ->
  t_recv_alive a = true /\ t_resp_alive a = true.
Proof. exact consumers_survive. Qed.

(* the thread limit is respected *)
Theorem C14_capacity_bounded : forall max ss a o, (0 < max)%nat -> trun (tapp0 max) ss = Some (a, o) ->
  (List.length (t_running a) <= max)%nat.
Proof. exact capacity_bounded. Qed.

Print Assumptions C14_slots_conserved.
Print Assumptions C14_capacity_returns.
Print Assumptions C14_consumers_survive.
Print Assumptions C14_capacity_bounded.
