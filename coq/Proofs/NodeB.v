(* C07 / C08 / C17 on the node model (Model/Node.v).
   - C07: every answer the node queues answers exactly one received request (same connection, same
     command / application / hop-by-hop / end-to-end ids), never an answer; every other event queues
     requests only;
   - C08: an application request reaches exactly the application chosen by the declarative routing
     function `spec_route` (and is then answered 5012 when that application's handler raises), or is
     rejected with the result code `spec_route` gives;
   - C17: the T flag causes a rejection exactly for end-to-end ids in the origin's bounded window of
     answered requests.
   "The node transmits / answers" = `OQueue cid m` (Node.send_message). *)
From DV Require Import Prelude.Base Model.Node.
From Coq Require Import String.

(* ====================================================================== *)
(* output predicates                                                       *)
(* ====================================================================== *)
Definition is_queue (o : output) : bool := match o with OQueue _ _ => true | _ => false end.
Definition is_deliver (o : output) : bool := match o with ODeliver _ _ => true | _ => false end.
(* no OQueue / no ODeliver in a list of outputs *)
Definition nq (outs : list output) : Prop := Forall (fun o => is_queue o = false) outs.
Definition nd (outs : list output) : Prop := Forall (fun o => is_deliver o = false) outs.
(* every OQueue carries a request *)
Definition okq (o : output) : Prop := match o with OQueue _ a => o_req a = true | _ => True end.
Definition rq (outs : list output) : Prop := Forall okq outs.

Lemma nq_not_in outs : nq outs -> forall c a, ~ List.In (OQueue c a) outs.
Proof.
  intros H c a Hin. unfold nq in H. rewrite Forall_forall in H. apply H in Hin. discriminate Hin.
Qed.
Lemma nd_not_in outs : nd outs -> forall i m, ~ List.In (ODeliver i m) outs.
Proof.
  intros H i m Hin. unfold nd in H. rewrite Forall_forall in H. apply H in Hin. discriminate Hin.
Qed.
Lemma nq_filter outs : nq outs -> List.filter is_queue outs = [].
Proof.
  induction 1 as [|o l Ho _ IH]; [reflexivity|]. cbn [List.filter]. rewrite Ho. exact IH.
Qed.
Lemma nq_nil : nq []. Proof. constructor. Qed.
Lemma nd_nil : nd []. Proof. constructor. Qed.
Lemma rq_nil : rq []. Proof. constructor. Qed.
Lemma rq_app a b : rq a -> rq b -> rq (a ++ b).
Proof. intros Ha Hb. apply Forall_app. split; assumption. Qed.
Lemma rq_in outs : rq outs -> forall c a, List.In (OQueue c a) outs -> o_req a = true.
Proof. intros H c a Hin. unfold rq in H. rewrite Forall_forall in H. exact (H _ Hin). Qed.

(* ====================================================================== *)
(* send_message / close_conn                                               *)
(* ====================================================================== *)
(* C07: send_message hands exactly the given message to the given connection *)
Theorem send_message_out n cid m : snd (send_message n cid m) = [OQueue cid m].
Proof. unfold send_message, queue_out. reflexivity. Qed.

Lemma send_message_pair n cid m : send_message n cid m = (fst (send_message n cid m), [OQueue cid m]).
Proof. rewrite <- (send_message_out n cid m). apply surjective_pairing. Qed.

Lemma close_conn_out n cid r : snd (close_conn n cid r) = [] \/ snd (close_conn n cid r) = [OClose cid r].
Proof. unfold close_conn. destruct (get_conn n cid); [right|left]; reflexivity. Qed.

Lemma close_conn_nq n cid r : nq (snd (close_conn n cid r)).
Proof. destruct (close_conn_out n cid r) as [H|H]; rewrite H; repeat constructor. Qed.
Lemma close_conn_nd n cid r : nd (snd (close_conn n cid r)).
Proof. destruct (close_conn_out n cid r) as [H|H]; rewrite H; repeat constructor. Qed.
Lemma close_conn_rq n cid r : rq (snd (close_conn n cid r)).
Proof. destruct (close_conn_out n cid r) as [H|H]; rewrite H; repeat constructor. Qed.

(* close_all (the election's removal of rival connections) only closes *)
Definition only_close (outs : list output) : Prop :=
  Forall (fun o => match o with OClose _ _ => True | _ => False end) outs.
Lemma close_all_only_close cids : forall n r, only_close (snd (close_all n cids r)).
Proof.
  induction cids as [|k l IH]; intros n r; [constructor|]. cbn [close_all].
  pose proof (close_conn_out n k r) as H1. destruct (close_conn n k r) as [n1 o1].
  pose proof (IH n1 r) as H2. destruct (close_all n1 l r) as [n2 o2].
  cbn [snd] in *. apply Forall_app. split; [|exact H2].
  destruct H1 as [H1|H1]; rewrite H1; repeat constructor.
Qed.
Lemma only_close_nq outs : only_close outs -> nq outs.
Proof. apply Forall_impl. intros [] H; try contradiction H; reflexivity. Qed.
Lemma only_close_nd outs : only_close outs -> nd outs.
Proof. apply Forall_impl. intros [] H; try contradiction H; reflexivity. Qed.
Lemma close_all_nq n cids r : nq (snd (close_all n cids r)).
Proof. apply only_close_nq, close_all_only_close. Qed.
Lemma close_all_nd n cids r : nd (snd (close_all n cids r)).
Proof. apply only_close_nd, close_all_only_close. Qed.

(* ====================================================================== *)
(* receive_message in named pieces                                         *)
(* ====================================================================== *)
Definition rm_record (n : node) (cid : nat) (m : msg) (o : String.string) : node :=
  if m_req m then
    set_waiting n (n_app_waiting n) (n_peer_waiting n)
      ((List.filter (fun x => negb (ow_key cid (m_hbh m) (m_e2e m) x)) (n_origin_waiting n))
         ++ [(cid, m_hbh m, m_e2e m, o)])%list
      (n_sent_answers n)
  else n.
Definition rm_n0 (n : node) (cid : nat) (m : msg) : node :=
  match m_origin m with
  | Undeclared => n
  | Absent => rm_record n cid m "<none>"%string
  | Present o => rm_record n cid m o
  end.
Definition rm_dup (n0 : node) (m : msg) : bool :=
  match m_origin m with
  | Present o => m_req m && m_t m && sa_mem (n_sent_answers n0) o (m_e2e m)
  | Absent => m_req m && m_t m && sa_mem (n_sent_answers n0) "<none>"%string (m_e2e m)
  | Undeclared => false
  end.
Definition rm_handle (n0 : node) (cid : nat) (m : msg) : node * list output :=
  match m_req m, m_cmd m with
  | true, CE =>
      match m_origin m with
      | Present _ => recv_cer n0 cid m
      | _ => send_message n0 cid (answer_of m (Some RC_UNABLE) [])
      end
  | false, CE => recv_cea n0 cid m
  | true, DW => recv_dwr n0 cid m
  | false, DW => recv_dwa n0 cid
  | true, DP => recv_dpr n0 cid m
  | false, DP => recv_dpa n0 cid
  | true, App _ => recv_app_request n0 cid m
  | false, App _ => recv_app_answer n0 m
  end.

Lemma receive_message_unfold n cid m :
  receive_message n cid m =
  match (if m_req m && g_validate (n_cfg (rm_n0 n cid m)) then m_missing m else []) with
  | _ :: _ => send_message (rm_n0 n cid m) cid
                (answer_of m (Some RC_MISSING_AVP) (if m_has_failed_avp_slot m then m_missing m else []))
  | [] => if rm_dup (rm_n0 n cid m) m then send_message (rm_n0 n cid m) cid (answer_of m (Some RC_UNABLE) [])
          else rm_handle (rm_n0 n cid m) cid m
  end.
Proof. reflexivity. Qed.

Lemma rm_n0_cfg n cid m : n_cfg (rm_n0 n cid m) = n_cfg n.
Proof. unfold rm_n0, rm_record. destruct (m_origin m), (m_req m); reflexivity. Qed.
Lemma rm_n0_sa n cid m : n_sent_answers (rm_n0 n cid m) = n_sent_answers n.
Proof. unfold rm_n0, rm_record. destruct (m_origin m), (m_req m); reflexivity. Qed.
Lemma rm_n0_conns n cid m : n_conns (rm_n0 n cid m) = n_conns n.
Proof. unfold rm_n0, rm_record. destruct (m_origin m), (m_req m); reflexivity. Qed.
Lemma rm_n0_peers n cid m : n_peers (rm_n0 n cid m) = n_peers n.
Proof. unfold rm_n0, rm_record. destruct (m_origin m), (m_req m); reflexivity. Qed.
Lemma rm_n0_routes n cid m : n_routes (rm_n0 n cid m) = n_routes n.
Proof. unfold rm_n0, rm_record. destruct (m_origin m), (m_req m); reflexivity. Qed.
Lemma rm_n0_apps n cid m : n_apps (rm_n0 n cid m) = n_apps n.
Proof. unfold rm_n0, rm_record. destruct (m_origin m), (m_req m); reflexivity. Qed.
Lemma rm_n0_get_conn n cid m cid' : get_conn (rm_n0 n cid m) cid' = get_conn n cid'.
Proof. unfold get_conn. rewrite rm_n0_conns. reflexivity. Qed.
Lemma rm_n0_find_conn_peer n cid m c : find_conn_peer (rm_n0 n cid m) c = find_conn_peer n c.
Proof. unfold find_conn_peer, get_peer. rewrite rm_n0_peers. reflexivity. Qed.

Lemma rm_dup_nonreq n0 m : m_req m = false -> rm_dup n0 m = false.
Proof. intros H. unfold rm_dup. rewrite H. destruct (m_origin m); reflexivity. Qed.

(* ====================================================================== *)
(* the shape of what one received message produces                          *)
(* ====================================================================== *)
Inductive rm_out (cid : nat) (m : msg) : list output -> Prop :=
| RO_answer pre code f : m_req m = true -> nq pre -> nd pre ->
    rm_out cid m (pre ++ [OQueue cid (answer_of m (Some code) f)])
| RO_deliver i k : m_req m = true -> m_cmd m = App k -> handler_raises m = false ->
    rm_out cid m [ODeliver i m]
| RO_deliver_fail i k : m_req m = true -> m_cmd m = App k -> handler_raises m = true ->
    rm_out cid m [ODeliver i m; OQueue cid (answer_of m (Some RC_UNABLE) [])]
| RO_other outs : nq outs -> nd outs -> rm_out cid m outs.

Lemma rm_out_send n cid m code f :
  m_req m = true -> rm_out cid m (snd (send_message n cid (answer_of m (Some code) f))).
Proof. intros H. rewrite send_message_out. apply (RO_answer cid m [] code f H nq_nil nd_nil). Qed.
Lemma rm_out_nil cid m : rm_out cid m [].
Proof. apply RO_other; constructor. Qed.
Lemma rm_out_close n cid m c r : rm_out cid m (snd (close_conn n c r)).
Proof. apply RO_other; [apply close_conn_nq|apply close_conn_nd]. Qed.

Lemma recv_cer_shape n cid m : m_req m = true -> rm_out cid m (snd (recv_cer n cid m)).
Proof.
  intros Hreq. unfold recv_cer.
  destruct (get_conn n cid) as [c0|]; [|apply rm_out_nil].
  destruct (negb (cstate_eqb (c_state c0) SConnected)); [apply rm_out_nil|].
  destruct (pres_get (m_origin m)) as [host|]; [|apply rm_out_nil].
  destruct (get_peer n host) as [p|]; [|apply rm_out_send; exact Hreq].
  cbv zeta.
  destruct (election_rivals _ cid host) as [|r0 rs];
    [|destruct (String.ltb host _); [|apply rm_out_send; exact Hreq]];
    (match goal with |- context [close_all ?a ?b ?c] =>
       pose proof (close_all_nq a b c) as Hq; pose proof (close_all_nd a b c) as Hd;
       destruct (close_all a b c) as [n1 oel] end;
     cbn [snd] in Hq, Hd;
     destruct (inter_z _ (m_auth m)); destruct (inter_z _ (m_acct m));
       destruct (mem_z APP_RELAY (m_auth m) || mem_z APP_RELAY (m_acct m));
       rewrite send_message_pair; cbn [snd]; apply RO_answer; assumption).
Qed.

Lemma recv_cea_shape n cid m : rm_out cid m (snd (recv_cea n cid m)).
Proof.
  unfold recv_cea.
  destruct (get_conn n cid) as [c0|]; [|apply rm_out_nil].
  destruct (negb (cstate_eqb (c_state c0) SConnected)); [apply rm_out_nil|].
  destruct (m_result m) as [| |z]; try apply rm_out_close.
  destruct z as [|p|p]; try apply rm_out_close.
  repeat (destruct p as [p|p|]; try apply rm_out_close).
  destruct (pres_get (m_origin m)) as [host|]; [|apply rm_out_nil].
  destruct (negb (String.eqb (c_node_name c0) "") && negb (String.eqb host (c_node_name c0)));
    [apply rm_out_close|apply rm_out_nil].
Qed.

Lemma recv_dpa_shape n cid m : rm_out cid m (snd (recv_dpa n cid)).
Proof.
  unfold recv_dpa. cbv zeta.
  destruct (get_conn _ cid) as [c|]; [|apply rm_out_nil].
  destruct (c_out c); [apply rm_out_close|apply rm_out_nil].
Qed.

Lemma recv_app_request_shape n cid m k :
  m_req m = true -> m_cmd m = App k -> rm_out cid m (snd (recv_app_request n cid m)).
Proof.
  intros Hreq Hcmd. unfold recv_app_request.
  destruct (get_conn n cid) as [c|]; [|apply rm_out_nil]. cbv zeta.
  destruct (m_drealm m) as [| |realm]; try (apply rm_out_send; exact Hreq).
  destruct (route_lookup n realm) as [entries|]; [|apply rm_out_send; exact Hreq].
  destruct (List.find _ entries) as [[[i|] names]|]; try (apply rm_out_send; exact Hreq).
  destruct (handler_raises m) eqn:Hh.
  - rewrite send_message_pair. cbn [snd]. eapply RO_deliver_fail; eassumption.
  - cbn [snd]. eapply RO_deliver; eassumption.
Qed.

Lemma recv_app_answer_shape n cid m : rm_out cid m (snd (recv_app_answer n m)).
Proof.
  unfold recv_app_answer.
  destruct (List.find _ (n_app_waiting n)) as [[[h e] i]|]; [|apply rm_out_nil].
  destruct (List.nth_error (n_apps n) i) as [a|]; [|apply rm_out_nil]. cbv zeta.
  destruct (mem_z (m_hbh m) (List.map fst (a_waiting a))); cbn [snd];
    apply RO_other; repeat constructor.
Qed.

Lemma receive_message_shape n cid m : rm_out cid m (snd (receive_message n cid m)).
Proof.
  rewrite receive_message_unfold. generalize (rm_n0 n cid m). intros n0.
  destruct (m_req m) eqn:Hreq.
  - destruct (if true && g_validate (n_cfg n0) then m_missing m else []) as [|x l];
      [|apply rm_out_send; exact Hreq].
    destruct (rm_dup n0 m); [apply rm_out_send; exact Hreq|].
    unfold rm_handle. rewrite Hreq.
    destruct (m_cmd m) as [| | |k] eqn:Hcmd.
    + destruct (m_origin m); try (apply rm_out_send; exact Hreq). apply recv_cer_shape; exact Hreq.
    + unfold recv_dwr. apply rm_out_send; exact Hreq.
    + unfold recv_dpr. cbv zeta. apply rm_out_send; exact Hreq.
    + eapply recv_app_request_shape; eassumption.
  - cbn [andb]. rewrite rm_dup_nonreq by exact Hreq.
    unfold rm_handle. rewrite Hreq.
    destruct (m_cmd m) as [| | |k].
    + apply recv_cea_shape.
    + unfold recv_dwa. apply rm_out_nil.
    + apply recv_dpa_shape.
    + apply recv_app_answer_shape.
Qed.

Lemma dispatch_shape n cid m : rm_out cid m (snd (dispatch n cid m)).
Proof.
  unfold dispatch. destruct (get_conn n cid) as [c|]; [|apply rm_out_nil].
  destruct (gate_passes c m); [apply receive_message_shape|apply rm_out_nil].
Qed.

(* ====================================================================== *)
(* C07: answers                                                            *)
(* ====================================================================== *)
(* C07: one dispatched message yields at most one queued message; it is an answer, on the same
   connection, to a REQUEST, and carries that request's command, application id and identifiers *)
Theorem C07_dispatch_answers n cid m n' outs :
  dispatch n cid m = (n', outs) ->
  (forall cid' a, List.In (OQueue cid' a) outs ->
     cid' = cid /\ o_req a = false /\ m_req m = true /\
     o_cmd a = m_cmd m /\ o_app a = m_app m /\ o_hbh a = m_hbh m /\ o_e2e a = m_e2e m)
  /\ (List.length (List.filter is_queue outs) <= 1)%nat.
Proof.
  intros Hd. pose proof (dispatch_shape n cid m) as Hs. rewrite Hd in Hs. cbn [snd] in Hs.
  inversion Hs as [pre code f Hreq Hpq Hpd Ho | i k Hreq Hcmd Hh Ho | i k Hreq Hcmd Hh Ho
                  | outs' Hnq Hnd Ho]; subst.
  - split.
    + intros cid' a Hin. apply List.in_app_or in Hin. destruct Hin as [Hin|[Hin|[]]].
      * exfalso. exact (nq_not_in _ Hpq _ _ Hin).
      * inversion Hin; subst. cbn. repeat split; try reflexivity. exact Hreq.
    + rewrite List.filter_app, (nq_filter _ Hpq). cbn. lia.
  - split; [|cbn; lia].
    intros cid' a [Hin|[]]. discriminate Hin.
  - split; [|cbn; lia].
    intros cid' a [Hin|[Hin|[]]]; [discriminate Hin|].
    inversion Hin; subst. cbn. repeat split; try reflexivity. exact Hreq.
  - split.
    + intros cid' a Hin. exfalso. exact (nq_not_in _ Hnq _ _ Hin).
    + rewrite nq_filter by exact Hnq. cbn. lia.
Qed.

(* C07: an answer is never answered: dispatching a non-request queues nothing *)
Theorem C07_no_answer_to_answer n cid m :
  m_req m = false -> forall cid' a, ~ List.In (OQueue cid' a) (snd (dispatch n cid m)).
Proof.
  intros Hreq cid' a Hin.
  destruct (dispatch n cid m) as [n' outs] eqn:Hd.
  destruct (C07_dispatch_answers _ _ _ _ _ Hd) as [H _].
  destruct (H _ _ Hin) as (_ & _ & Hr & _). cbn [snd] in *. congruence.
Qed.

(* C07: dispatch never queues a request *)
Theorem C07_no_request_from_dispatch n cid m :
  forall cid' a, List.In (OQueue cid' a) (snd (dispatch n cid m)) -> o_req a = false.
Proof.
  intros cid' a Hin.
  destruct (dispatch n cid m) as [n' outs] eqn:Hd.
  destruct (C07_dispatch_answers _ _ _ _ _ Hd) as [H _].
  destruct (H _ _ Hin) as (_ & Hr & _). exact Hr.
Qed.

(* C07: a request handed to an application whose handler does not raise is not also answered by the node *)
Theorem C07_delivered_not_answered n cid m i m' :
  handler_raises m = false ->
  List.In (ODeliver i m') (snd (dispatch n cid m)) ->
  forall cid' a, ~ List.In (OQueue cid' a) (snd (dispatch n cid m)).
Proof.
  intros Hnr Hdel cid' a Hin.
  pose proof (dispatch_shape n cid m) as Hs.
  inversion Hs as [pre code f Hreq Hpq Hpd Ho | j k Hreq Hcmd Hh Ho | j k Hreq Hcmd Hh Ho
                  | outs' Hnq Hnd Ho].
  - rewrite <- Ho in Hdel. apply List.in_app_or in Hdel. destruct Hdel as [Hd|[Hd|[]]]; [|discriminate Hd].
    exact (nd_not_in _ Hpd _ _ Hd).
  - rewrite <- Ho in Hin. destruct Hin as [Hd|[]]. discriminate Hd.
  - congruence.
  - exact (nq_not_in _ Hnq _ _ Hin).
Qed.

(* C07: when the node both hands a request to an application and answers it, the application's handler
   raised and the answer is UNABLE_TO_COMPLY (5012) to that request, on its connection, after the delivery *)
Theorem C07_delivered_answered_only_on_failure n cid m i m' cid' a :
  List.In (ODeliver i m') (snd (dispatch n cid m)) ->
  List.In (OQueue cid' a) (snd (dispatch n cid m)) ->
  handler_raises m = true /\ m' = m /\ cid' = cid /\ a = answer_of m (Some RC_UNABLE) []
  /\ snd (dispatch n cid m) = [ODeliver i m; OQueue cid (answer_of m (Some RC_UNABLE) [])].
Proof.
  intros Hdel Hin.
  pose proof (dispatch_shape n cid m) as Hs.
  inversion Hs as [pre code f Hreq Hpq Hpd Ho | j k Hreq Hcmd Hh Ho | j k Hreq Hcmd Hh Ho
                  | outs' Hnq Hnd Ho].
  - exfalso. rewrite <- Ho in Hdel. apply List.in_app_or in Hdel.
    destruct Hdel as [Hd|[Hd|[]]]; [|discriminate Hd].
    exact (nd_not_in _ Hpd _ _ Hd).
  - exfalso. rewrite <- Ho in Hin. destruct Hin as [Hd|[]]. discriminate Hd.
  - rewrite <- Ho in Hdel, Hin.
    destruct Hdel as [Hd|[Hd|[]]]; [|discriminate Hd].
    destruct Hin as [Hq|[Hq|[]]]; [discriminate Hq|].
    inversion Hd; subst. inversion Hq; subst. repeat split; try reflexivity. exact Hh.
  - exfalso. exact (nq_not_in _ Hnq _ _ Hin).
Qed.

(* ---- dispatch_all ------------------------------------------------------ *)
Lemma filter_app_len {A} (f : A -> bool) (a b : list A) :
  List.length (List.filter f (a ++ b)) = (List.length (List.filter f a) + List.length (List.filter f b))%nat.
Proof. rewrite List.filter_app, List.app_length. reflexivity. Qed.

(* C07: every answer queued while a batch of frames is dispatched answers some request of the batch
   (same connection, same four fields); there are at most as many answers as requests *)
Theorem C07_dispatch_all_answers ms : forall n cid n' outs,
  dispatch_all n cid ms = (n', outs) ->
  (forall cid' a, List.In (OQueue cid' a) outs ->
     cid' = cid /\ o_req a = false /\
     exists m, List.In m ms /\ m_req m = true /\
       o_cmd a = m_cmd m /\ o_app a = m_app m /\ o_hbh a = m_hbh m /\ o_e2e a = m_e2e m)
  /\ (List.length (List.filter is_queue outs) <= List.length (List.filter m_req ms))%nat.
Proof.
  induction ms as [|m r IH]; intros n cid n' outs Hd.
  - cbn [dispatch_all] in Hd. inversion Hd; subst. split; [intros ? ? []|cbn; lia].
  - cbn [dispatch_all] in Hd.
    destruct (dispatch n cid m) as [n1 o1] eqn:Hd1.
    destruct (dispatch_all n1 cid r) as [n2 o2] eqn:Hd2.
    inversion Hd; subst n' outs.
    destruct (C07_dispatch_answers _ _ _ _ _ Hd1) as [H1 L1].
    destruct (IH _ _ _ _ Hd2) as [H2 L2].
    split.
    + intros cid' a Hin. apply List.in_app_or in Hin. destruct Hin as [Hin|Hin].
      * destruct (H1 _ _ Hin) as (Hc & Hr & Hq & Hf). repeat split; try assumption.
        exists m. split; [left; reflexivity|]. split; assumption.
      * destruct (H2 _ _ Hin) as (Hc & Hr & m0 & Hm0 & Hf). repeat split; try assumption.
        exists m0. split; [right; exact Hm0|exact Hf].
    + rewrite filter_app_len. cbn [List.filter].
      destruct (m_req m) eqn:Hreq.
      * cbn [List.length]. lia.
      * assert (Hz : List.filter is_queue o1 = []).
        { destruct (List.filter is_queue o1) as [|x l] eqn:Hf; [reflexivity|exfalso].
          assert (Hx : List.In x (List.filter is_queue o1)) by (rewrite Hf; left; reflexivity).
          apply List.filter_In in Hx. destruct Hx as [Hx Hq]. destruct x; try discriminate Hq.
          destruct (H1 _ _ Hx) as (_ & _ & Hq' & _). congruence. }
        rewrite Hz. cbn [List.length]. lia.
Qed.

(* ---- every other event queues requests only ---------------------------------- *)
Lemma rq_map_osend cid l : rq (List.map (OSend cid) l).
Proof. induction l as [|x l IH]; constructor; [exact I|exact IH]. Qed.

Definition flush_one (n : node) (cid : nat) : node * list output :=
  match get_conn n cid with
  | None => (n, [])
  | Some c =>
      if c_stalled c || negb (c_sock_open c) then (n, [])
      else
        let outs := List.map (OSend cid) (c_out c) in
        let n' := set_conns n (upd_conn (n_conns n) cid (fun c => set_cout c [])) in
        match c_out c with
        | [] => (n', [])
        | _ => if cstate_eqb (c_state c) SClosing
               then let '(n'', oc) := close_conn n' cid R_CLEAN in (n'', (outs ++ oc)%list)
               else (n', outs)
        end
  end.
Lemma flush_conns_cons n cid r :
  flush_conns n (cid :: r) =
  let '(n1, o1) := flush_one n cid in let '(n2, o2) := flush_conns n1 r in (n2, (o1 ++ o2)%list).
Proof. reflexivity. Qed.

Lemma flush_one_rq n cid : rq (snd (flush_one n cid)).
Proof.
  unfold flush_one. destruct (get_conn n cid) as [c|]; [|apply rq_nil].
  destruct (c_stalled c || negb (c_sock_open c)); [apply rq_nil|]. cbv zeta.
  destruct (c_out c) as [|x l]; [apply rq_nil|].
  destruct (cstate_eqb (c_state c) SClosing); [|apply rq_map_osend].
  match goal with |- context [close_conn ?a ?b ?c] =>
    pose proof (close_conn_rq a b c) as Hc; destruct (close_conn a b c) as [n'' oc] end.
  cbn [snd] in *. apply rq_app; [apply rq_map_osend|exact Hc].
Qed.

Lemma flush_conns_rq cids : forall n, rq (snd (flush_conns n cids)).
Proof.
  induction cids as [|cid r IH]; intros n; [apply rq_nil|].
  rewrite flush_conns_cons.
  pose proof (flush_one_rq n cid) as H1. destruct (flush_one n cid) as [n1 o1].
  pose proof (IH n1) as H2. destruct (flush_conns n1 r) as [n2 o2].
  cbn [snd] in *. apply rq_app; assumption.
Qed.
Lemma flush_rq n : rq (snd (flush n)).
Proof. apply flush_conns_rq. Qed.

Lemma own_request_req n cid c : o_req (snd (own_request n cid c)) = true.
Proof. unfold own_request. destruct (get_conn n cid); reflexivity. Qed.

Lemma rq_send n cid a : o_req a = true -> rq (snd (send_message n cid a)).
Proof. intros H. rewrite send_message_out. constructor; [exact H|constructor]. Qed.

Lemma send_cer_rq n cid : rq (snd (send_cer n cid)).
Proof.
  unfold send_cer. pose proof (own_request_req n cid CE) as H.
  destruct (own_request n cid CE) as [n1 m]. apply rq_send. exact H.
Qed.
Lemma send_dwr_rq n cid : rq (snd (send_dwr n cid)).
Proof.
  unfold send_dwr. pose proof (own_request_req n cid DW) as H.
  destruct (own_request n cid DW) as [n1 m]. cbn [snd] in H.
  pose proof (rq_send n1 cid m H) as H2. destruct (send_message n1 cid m) as [n2 o]. exact H2.
Qed.
Lemma send_dpr_rq n cid : rq (snd (send_dpr n cid)).
Proof.
  unfold send_dpr. pose proof (own_request_req n cid DP) as H.
  destruct (own_request n cid DP) as [n1 m]. cbv zeta. apply rq_send. exact H.
Qed.

Lemma check_timers_rq n cid : rq (snd (check_timers n cid)).
Proof.
  unfold check_timers. destruct (n_stopping n); [apply rq_nil|].
  destruct (get_conn n cid) as [c|]; [|apply rq_nil]. cbv zeta.
  destruct (c_state c); try apply rq_nil;
    match goal with |- context [if ?b then _ else _] => destruct b end;
    first [apply rq_nil | apply close_conn_rq | apply send_dwr_rq].
Qed.

Lemma timers_all_rq cids : forall n, rq (snd (timers_all n cids)).
Proof.
  induction cids as [|cid r IH]; intros n; [apply rq_nil|]. cbn [timers_all].
  pose proof (check_timers_rq n cid) as H1. destruct (check_timers n cid) as [n1 o1].
  pose proof (IH n1) as H2. destruct (timers_all n1 r) as [n2 o2].
  cbn [snd] in *. apply rq_app; assumption.
Qed.

Lemma rq_cons_other o l : is_queue o = false -> rq l -> rq (o :: l).
Proof. intros Ho Hl. constructor; [|exact Hl]. destruct o; try exact I. discriminate Ho. Qed.

Lemma connect_to_peer_rq n name h res : rq (snd (connect_to_peer n name h res)).
Proof.
  unfold connect_to_peer. destruct (get_peer n name) as [p|]; [|apply rq_nil].
  destruct (p_conn p); [apply rq_nil|].
  destruct (negb (p_has_addr p)); [apply rq_nil|]. cbv zeta.
  destruct res.
  - match goal with |- context [send_cer ?a ?b] =>
      pose proof (send_cer_rq a b) as Hc; destruct (send_cer a b) as [n5 o] end.
    cbn [snd] in *. apply rq_cons_other; [reflexivity|exact Hc].
  - match goal with |- context [close_conn ?a ?b ?c] =>
      pose proof (close_conn_rq a b c) as Hc; destruct (close_conn a b c) as [n4 o] end.
    cbn [snd] in *. apply rq_cons_other; [reflexivity|exact Hc].
  - cbn [snd]. apply rq_cons_other; [reflexivity|apply rq_nil].
Qed.

Lemma reconnect_all_rq names : forall n ds, rq (snd (fst (reconnect_all n names ds))).
Proof.
  induction names as [|nm r IH]; intros n ds; [apply rq_nil|]. cbn [reconnect_all].
  destruct (get_peer n nm) as [p|]; [|apply IH].
  destruct (wants_reconnect n p && p_has_addr p); [|apply IH].
  destruct ds as [|[h0 res] dr].
  - pose proof (connect_to_peer_rq n nm 0 DialOk) as H1. destruct (connect_to_peer n nm 0 DialOk) as [n1 o1].
    pose proof (IH n1 []) as H2. destruct (reconnect_all n1 r []) as [[n2 o2] d2].
    cbn [fst snd] in *. apply rq_app; assumption.
  - pose proof (connect_to_peer_rq n nm h0 res) as H1. destruct (connect_to_peer n nm h0 res) as [n1 o1].
    pose proof (IH n1 dr) as H2. destruct (reconnect_all n1 r dr) as [[n2 o2] d2].
    cbn [fst snd] in *. apply rq_app; assumption.
Qed.

Lemma io_iteration_rq n ds : rq (snd (fst (io_iteration n ds))).
Proof.
  unfold io_iteration.
  pose proof (timers_all_rq (List.map c_id (n_conns n)) n) as H1.
  destruct (timers_all n (List.map c_id (n_conns n))) as [n1 o1].
  pose proof (reconnect_all_rq (List.map p_name (n_peers n1)) n1 ds) as H2.
  destruct (reconnect_all n1 (List.map p_name (n_peers n1)) ds) as [[n2 o2] ds'].
  cbn [fst snd] in *. apply rq_app; assumption.
Qed.

Lemma settle_rq n ds : rq (snd (fst (settle n ds))).
Proof.
  unfold settle.
  pose proof (flush_rq n) as H1. destruct (flush n) as [n1 o1].
  pose proof (io_iteration_rq n1 ds) as H2. destruct (io_iteration n1 ds) as [[n2 o2] ds'].
  pose proof (flush_rq n2) as H3. destruct (flush n2) as [n3 o3].
  cbn [fst snd] in *. apply rq_app; [assumption|apply rq_app; assumption].
Qed.
Lemma settle'_rq n ds : rq (snd (settle' n ds)).
Proof.
  unfold settle'. pose proof (settle_rq n ds) as H. destruct (settle n ds) as [[n1 o1] d]. exact H.
Qed.

Lemma rq_then_settle (r : node * list output) ds :
  rq (snd r) -> rq (snd (let '(n1, o1) := r in let '(n2, o2) := settle' n1 ds in (n2, (o1 ++ o2)%list))).
Proof.
  destruct r as [n1 o1]. intros H1. pose proof (settle'_rq n1 ds) as H2.
  destruct (settle' n1 ds) as [n2 o2]. cbn [snd] in *. apply rq_app; assumption.
Qed.

Lemma settle_app_rq n ds : rq (snd (fst (settle_app n ds))).
Proof.
  unfold settle_app.
  pose proof (io_iteration_rq n ds) as H2. destruct (io_iteration n ds) as [[n2 o2] ds'].
  pose proof (flush_rq n2) as H3. destruct (flush n2) as [n3 o3].
  cbn [fst snd] in *. apply rq_app; assumption.
Qed.
Lemma settle_app'_rq n ds : rq (snd (settle_app' n ds)).
Proof.
  unfold settle_app'. pose proof (settle_app_rq n ds) as H. destruct (settle_app n ds) as [[n1 o1] d]. exact H.
Qed.

Lemma rq_then_settle_app (r : node * list output) ds :
  rq (snd r) -> rq (snd (let '(n1, o1) := r in let '(n2, o2) := settle_app' n1 ds in (n2, (o1 ++ o2)%list))).
Proof.
  destruct r as [n1 o1]. intros H1. pose proof (settle_app'_rq n1 ds) as H2.
  destruct (settle_app' n1 ds) as [n2 o2]. cbn [snd] in *. apply rq_app; assumption.
Qed.

Lemma step_rq n ds e :
  (forall cid ms, e <> ERecv cid ms) -> (forall i m, e <> EAppAnswer i m) -> rq (snd (step n ds e)).
Proof.
  intros HnR HnA. destruct e as [hbh0|cid ms|cid|cid hard|cid ok|cid b|dt|i m|i m realm pick tmo|force|tclose tend|].
  - (* EAccept *)
    unfold step. destruct (n_stopping n).
    + cbn [snd]. apply rq_cons_other; [reflexivity|apply rq_nil].
    + cbv zeta. apply settle'_rq.
  - exfalso. exact (HnR _ _ eq_refl).
  - (* EPeerClose *)
    unfold step. apply rq_then_settle. apply close_conn_rq.
  - (* EReadErr *)
    unfold step. apply rq_then_settle. destruct hard; [apply close_conn_rq|apply rq_nil].
  - (* EConnDone *)
    unfold step. destruct (get_conn n cid) as [c|]; [|apply rq_nil].
    destruct (cstate_eqb (c_state c) SConnecting); [|apply rq_nil].
    destruct ok.
    + cbv zeta.
      match goal with |- context [send_cer ?a ?b] =>
        pose proof (send_cer_rq a b) as H3; destruct (send_cer a b) as [n3 o3] end.
      pose proof (io_iteration_rq n3 ds) as H4. destruct (io_iteration n3 ds) as [[n4 o4] ds4].
      pose proof (settle'_rq n4 ds4) as H5. destruct (settle' n4 ds4) as [n5 o5].
      cbn [fst snd] in *. apply rq_app; [assumption|apply rq_app; assumption].
    + apply rq_then_settle. apply close_conn_rq.
  - (* EStall *)
    unfold step. destruct (get_conn n cid) as [c|]; [|apply rq_nil]. cbv zeta.
    destruct b; [apply rq_nil|]. destruct (c_out c); [apply rq_nil|apply settle'_rq].
  - (* ETick *)
    unfold step. cbv zeta. remember (n_now n + dt) as target eqn:Ht. clear Ht.
    match goal with |- context [?f (Z.to_nat dt) _ _ _] =>
      change (rq (snd (f (S (Z.to_nat dt)) n ds [])));
      assert (Hw : forall fuel nn dd acc, rq acc -> rq (snd (f fuel nn dd acc))) end.
    { induction fuel as [|fuel IH]; intros nn dd acc Hacc.
      - cbv beta iota zeta. cbn [snd]. exact Hacc.
      - cbv beta iota zeta. fold (settle nn dd).
        destruct (n_io_deadline nn <=? target); [|cbn [snd]; exact Hacc].
        match goal with |- context [settle ?a ?b] =>
          pose proof (settle_rq a b) as H2; destruct (settle a b) as [[n2 o2] ds2] end.
        cbn [fst snd] in H2. apply IH. apply rq_app; assumption. }
    apply Hw. apply rq_nil.
  - exfalso. exact (HnA _ _ eq_refl).
  - (* EAppRequest *)
    unfold step.
    destruct (if o_e2e m =? 0 then _ else _) as [n0 e2e].
    destruct (route_request n0 i realm) as [usable|]; [|cbn [snd]; apply rq_cons_other; [reflexivity|apply rq_nil]].
    destruct usable as [|p0 rest]; [cbn [snd]; apply rq_cons_other; [reflexivity|apply rq_nil]|].
    cbv zeta.
    match goal with |- context [match ?ch with Some _ => _ | None => (n0, [ONotRoutable]) end] =>
      destruct ch as [p|] end; [|cbn [snd]; apply rq_cons_other; [reflexivity|apply rq_nil]].
    destruct (p_conn p) as [cid|]; [|cbn [snd]; apply rq_cons_other; [reflexivity|apply rq_nil]].
    destruct (get_conn n0 cid) as [c|]; [|cbn [snd]; apply rq_cons_other; [reflexivity|apply rq_nil]].
    destruct (if o_hbh m =? 0 then _ else _) as [n1 hbh].
    apply rq_then_settle_app. apply rq_send. reflexivity.
  - (* EStop *)
    unfold step. cbv zeta. destruct force; [apply rq_nil|].
    apply rq_then_settle.
    lazymatch goal with |- rq (snd (?f _ _ _)) =>
      assert (Hg : forall cids nn acc, rq acc -> rq (snd (f cids nn acc))) end.
    { induction cids as [|c r IH]; intros nn acc Hacc.
      - cbv beta iota zeta. cbn [snd]. exact Hacc.
      - cbv beta iota zeta. destruct (get_conn nn c) as [cn|]; [|apply IH; exact Hacc].
        destruct (is_ready_state (c_state cn)); [|apply IH; exact Hacc].
        pose proof (send_dpr_rq nn c) as H2. destruct (send_dpr nn c) as [n' o'].
        apply IH. apply rq_app; assumption. }
    apply Hg. apply rq_nil.
  - (* EStopFinish *)
    unfold step. cbv zeta.
    lazymatch goal with |- rq (snd (let '(_, _) := ?f ?l ?a ?b in _)) =>
      assert (Hg : forall cids nn acc, rq acc -> rq (snd (f cids nn acc)));
      [|pose proof (Hg l a b rq_nil) as H1; destruct (f l a b) as [n1 o1]; exact H1] end.
    induction cids as [|c r IH]; intros nn acc Hacc.
    + cbv beta iota zeta. cbn [snd]. exact Hacc.
    + cbv beta iota zeta.
      pose proof (close_conn_rq nn c R_SHUTDOWN) as H2. destruct (close_conn nn c R_SHUTDOWN) as [n' o'].
      apply IH. apply rq_app; assumption.
  - (* EStart *)
    unfold step.
    lazymatch goal with |- rq (snd (match ?f ?l ?a ?b ?c with _ => _ end)) =>
      assert (Hg : forall names nn dd acc, rq acc -> rq (snd (fst (f names nn dd acc))));
      [|pose proof (Hg l a b c rq_nil) as H1; destruct (f l a b c) as [[n1 o1] ds1];
        cbn [fst snd] in H1; apply (rq_then_settle (n1, o1) ds1); exact H1] end.
    induction names as [|nm r IH]; intros nn dd acc Hacc.
    + cbv beta iota zeta. cbn [fst snd]. exact Hacc.
    + cbv beta iota zeta. destruct (get_peer nn nm) as [p|]; [|apply IH; exact Hacc].
      destruct (p_persistent p); [|apply IH; exact Hacc].
      destruct dd as [|[h0 res] dr].
      * pose proof (connect_to_peer_rq nn nm 0 DialOk) as H2. destruct (connect_to_peer nn nm 0 DialOk) as [n1 o1].
        apply IH. apply rq_app; assumption.
      * pose proof (connect_to_peer_rq nn nm h0 res) as H2. destruct (connect_to_peer nn nm h0 res) as [n1 o1].
        apply IH. apply rq_app; assumption.
Qed.

(* C07: every event other than a network read or an application's answer queues REQUESTS only
   (watchdog, capabilities exchange, disconnect, application requests): answers come from nowhere else *)
Theorem C07_answers_only_from n ds e :
  (forall cid ms, e <> ERecv cid ms) -> (forall i m, e <> EAppAnswer i m) ->
  forall cid a, List.In (OQueue cid a) (snd (step n ds e)) -> o_req a = true.
Proof. intros H1 H2. apply rq_in. apply step_rq; assumption. Qed.

(* ====================================================================== *)
(* C08: routing of application requests                                    *)
(* ====================================================================== *)
Inductive routing : Type := Deliver (i : nat) | Reject (code : Z) (failed : list (Z * Z)).

(* the route entries of a realm, if the node has a route for it *)
Fixpoint realm_entries (rs : list route) (realm : string) : option (list (rkey * list string)) :=
  match rs with
  | [] => None
  | (r, es) :: rest => if String.eqb r realm then Some es else realm_entries rest realm
  end.

(* the first application entry whose application has the request's application id and, when the
   connection belongs to a configured peer, lists that peer *)
Fixpoint first_app (apps : list app) (peer : option peer) (appid : Z) (entries : list (rkey * list string)) : option nat :=
  match entries with
  | [] => None
  | (RDefault, _) :: r => first_app apps peer appid r
  | (RApp i, names) :: r =>
      match List.nth_error apps i with
      | Some a =>
          if (a_id a =? appid) && match peer with
                                  | Some p => List.existsb (String.eqb (p_name p)) names
                                  | None => true
                                  end
          then Some i else first_app apps peer appid r
      | None => first_app apps peer appid r
      end
  end.

(* the origin under which answered requests are remembered (an absent Origin-Host counts as "<none>") *)
Definition origin_key (m : msg) : option string :=
  match m_origin m with Undeclared => None | Absent => Some "<none>"%string | Present o => Some o end.
Definition already_answered (n : node) (m : msg) : bool :=
  match origin_key m with Some o => sa_mem (n_sent_answers n) o (m_e2e m) | None => false end.

Definition spec_route (n : node) (c : conn) (m : msg) : routing :=
  match (if g_validate (n_cfg n) then m_missing m else []) with
  | _ :: _ => Reject 5005 (if m_has_failed_avp_slot m then m_missing m else [])
  | [] =>
      if m_t m && already_answered n m then Reject 5012 []
      else
        match m_drealm m with
        | Undeclared => Reject 3007 []
        | Absent => Reject 5012 []
        | Present realm =>
            match realm_entries (n_routes n) realm with
            | None => Reject 3003 []
            | Some entries =>
                match first_app (n_apps n) (find_conn_peer n c) (m_app m) entries with
                | Some i => Deliver i
                | None => Reject 3007 []
                end
            end
        end
  end.

(* what the node does with the routing decision: a rejection is one answer; a delivery is one delivery,
   followed, when the application's handler raises on the request (`handler_raises m`, the environment's
   choice), by the catch-all's UNABLE_TO_COMPLY (5012) answer *)
Definition deliver_outputs (cid : nat) (m : msg) (i : nat) : list output :=
  if handler_raises m then [ODeliver i m; OQueue cid (answer_of m (Some 5012) [])] else [ODeliver i m].
Definition route_outputs (cid : nat) (m : msg) (r : routing) : list output :=
  match r with
  | Deliver i => deliver_outputs cid m i
  | Reject code failed => [OQueue cid (answer_of m (Some code) failed)]
  end.

Lemma route_lookup_entries n realm : route_lookup n realm = realm_entries (n_routes n) realm.
Proof.
  unfold route_lookup. induction (n_routes n) as [|[r es] rest IH]; [reflexivity|].
  cbn [List.find realm_entries fst]. destruct (String.eqb r realm); [reflexivity|exact IH].
Qed.

Definition pick_pred (apps : list app) (peer : option peer) (appid : Z) (kv : rkey * list string) : bool :=
  match fst kv with
  | RApp i => match List.nth_error apps i with
              | Some a => (a_id a =? appid) &&
                          match peer with
                          | Some p => List.existsb (String.eqb (p_name p)) (snd kv)
                          | None => true
                          end
              | None => false
              end
  | RDefault => false
  end.

Lemma pick_first_app {T} apps peer appid (X : nat -> T) (Y : T) entries :
  match List.find (pick_pred apps peer appid) entries with
  | Some (RApp i, _) => X i
  | _ => Y
  end = match first_app apps peer appid entries with Some i => X i | None => Y end.
Proof.
  induction entries as [|[[i|] names] r IH]; [reflexivity| |].
  - cbn [List.find first_app]. unfold pick_pred at 1. cbn [fst snd].
    destruct (List.nth_error apps i) as [a|]; [|exact IH].
    destruct ((a_id a =? appid) && _); [reflexivity|exact IH].
  - cbn [List.find first_app]. unfold pick_pred at 1. cbn [fst]. exact IH.
Qed.

Lemma recv_app_request_spec n cid c m :
  get_conn n cid = Some c ->
  snd (recv_app_request n cid m) =
  match m_drealm m with
  | Undeclared => [OQueue cid (answer_of m (Some 3007) [])]
  | Absent => [OQueue cid (answer_of m (Some 5012) [])]
  | Present realm =>
      match realm_entries (n_routes n) realm with
      | None => [OQueue cid (answer_of m (Some 3003) [])]
      | Some entries =>
          match first_app (n_apps n) (find_conn_peer n c) (m_app m) entries with
          | Some i => deliver_outputs cid m i
          | None => [OQueue cid (answer_of m (Some 3007) [])]
          end
      end
  end.
Proof.
  intros Hc. unfold recv_app_request. rewrite Hc. cbv zeta.
  destruct (m_drealm m) as [| |realm]; try apply send_message_out.
  rewrite route_lookup_entries.
  destruct (realm_entries (n_routes n) realm) as [entries|]; [|apply send_message_out].
  rewrite <- (pick_first_app (n_apps n) (find_conn_peer n c) (m_app m)
                (fun i => deliver_outputs cid m i) [OQueue cid (answer_of m (Some 3007) [])] entries).
  change (List.find _ entries) with (List.find (pick_pred (n_apps n) (find_conn_peer n c) (m_app m)) entries).
  destruct (List.find _ entries) as [[[i|] names]|]; try apply send_message_out.
  unfold deliver_outputs. destruct (handler_raises m); [|reflexivity].
  rewrite send_message_pair. reflexivity.
Qed.

Lemma rm_dup_spec n cid m : m_req m = true -> rm_dup (rm_n0 n cid m) m = m_t m && already_answered n m.
Proof.
  intros Hreq. unfold rm_dup, already_answered, origin_key. rewrite rm_n0_sa, Hreq.
  destruct (m_origin m); cbn [andb]; [rewrite Bool.andb_false_r|..]; reflexivity.
Qed.

(* C08: an application request on an existing connection produces exactly what the routing
   function says: one delivery to the chosen application (followed by the 5012 answer when the
   application's handler raises), or one answer with the specified result code *)
Theorem C08_route_refines n cid c m k :
  get_conn n cid = Some c -> m_req m = true -> m_cmd m = App k ->
  snd (receive_message n cid m) = route_outputs cid m (spec_route n c m).
Proof.
  intros Hc Hreq Hcmd. rewrite receive_message_unfold. unfold spec_route.
  rewrite rm_n0_cfg, Hreq. cbn [andb].
  destruct (if g_validate (n_cfg n) then m_missing m else []) as [|x l].
  2:{ rewrite send_message_out. reflexivity. }
  rewrite rm_dup_spec by exact Hreq.
  destruct (m_t m && already_answered n m).
  { rewrite send_message_out. reflexivity. }
  unfold rm_handle. rewrite Hreq, Hcmd.
  rewrite (recv_app_request_spec (rm_n0 n cid m) cid c m) by (rewrite rm_n0_get_conn; exact Hc).
  rewrite rm_n0_routes, rm_n0_apps, rm_n0_find_conn_peer.
  destruct (m_drealm m) as [| |realm]; try reflexivity.
  destruct (realm_entries (n_routes n) realm) as [entries|]; [|reflexivity].
  destruct (first_app _ _ _ entries); reflexivity.
Qed.

(* the application chosen by the routing function is a matching one *)
Lemma first_app_sound apps peer appid entries i :
  first_app apps peer appid entries = Some i ->
  exists a names, List.In (RApp i, names) entries /\ List.nth_error apps i = Some a /\ a_id a = appid
    /\ match peer with Some p => List.In (p_name p) names | None => True end.
Proof.
  induction entries as [|[[j|] names] r IH]; intros H; cbn [first_app] in H; [discriminate H| |].
  - destruct (List.nth_error apps j) as [a|] eqn:Hn.
    + destruct ((a_id a =? appid) && _) eqn:Hc.
      * inversion H; subst j. apply Bool.andb_true_iff in Hc. destruct Hc as [Hid Hp].
        exists a, names. split; [left; reflexivity|]. split; [exact Hn|]. split; [lia|].
        destruct peer as [p|]; [|exact I].
        apply List.existsb_exists in Hp. destruct Hp as (x & Hx & He).
        apply String.eqb_eq in He. subst x. exact Hx.
      * destruct (IH H) as (a' & nm & Hin & Hr). exists a', nm. split; [right; exact Hin|exact Hr].
    + destruct (IH H) as (a' & nm & Hin & Hr). exists a', nm. split; [right; exact Hin|exact Hr].
  - destruct (IH H) as (a' & nm & Hin & Hr). exists a', nm. split; [right; exact Hin|exact Hr].
Qed.

Lemma realm_entries_in rs realm es : realm_entries rs realm = Some es -> List.In (realm, es) rs.
Proof.
  induction rs as [|[r e] rest IH]; intros H; cbn [realm_entries] in H; [discriminate H|].
  destruct (String.eqb r realm) eqn:He.
  - apply String.eqb_eq in He. inversion H; subst. left; reflexivity.
  - right. exact (IH H).
Qed.

(* C08: when the routing function delivers to application i, the request is handed to i exactly once and
   to no other application; the node queues nothing, unless the application's handler raises: then
   exactly the 5012 answer to the request, on its connection, after the delivery; and i is an
   application with the request's application id, routed in the request's realm (through the sending peer
   if it is configured) *)
Theorem C08_exactly_once n cid c m k i :
  get_conn n cid = Some c -> m_req m = true -> m_cmd m = App k ->
  spec_route n c m = Deliver i ->
  snd (receive_message n cid m) = deliver_outputs cid m i
  /\ List.filter is_deliver (snd (receive_message n cid m)) = [ODeliver i m]
  /\ (forall j m', List.In (ODeliver j m') (snd (receive_message n cid m)) -> j = i /\ m' = m)
  /\ (forall cid' a, List.In (OQueue cid' a) (snd (receive_message n cid m)) ->
        handler_raises m = true /\ cid' = cid /\ a = answer_of m (Some 5012) [])
  /\ (handler_raises m = false -> snd (receive_message n cid m) = [ODeliver i m])
  /\ exists realm entries names a,
       m_drealm m = Present realm /\ List.In (realm, entries) (n_routes n) /\
       List.In (RApp i, names) entries /\ List.nth_error (n_apps n) i = Some a /\ a_id a = m_app m /\
       match find_conn_peer n c with Some p => List.In (p_name p) names | None => True end.
Proof.
  intros Hc Hreq Hcmd Hs.
  pose proof (C08_route_refines n cid c m k Hc Hreq Hcmd) as Hr. rewrite Hs in Hr. cbn [route_outputs] in Hr.
  rewrite Hr. split; [reflexivity|]. unfold deliver_outputs.
  split; [destruct (handler_raises m); reflexivity|]. split; [|split; [|split]].
  - destruct (handler_raises m).
    + intros j m' [Hin|[Hin|[]]]; [|discriminate Hin]. inversion Hin; subst. split; reflexivity.
    + intros j m' [Hin|[]]. inversion Hin; subst. split; reflexivity.
  - destruct (handler_raises m).
    + intros cid' a [Hin|[Hin|[]]]; [discriminate Hin|]. inversion Hin; subst. repeat split.
    + intros cid' a [Hin|[]]. discriminate Hin.
  - intros Hnr. rewrite Hnr. reflexivity.
  - unfold spec_route in Hs.
    destruct (if g_validate (n_cfg n) then m_missing m else []); [|discriminate Hs].
    destruct (m_t m && already_answered n m); [discriminate Hs|].
    destruct (m_drealm m) as [| |realm]; try discriminate Hs.
    destruct (realm_entries (n_routes n) realm) as [entries|] eqn:He; [|discriminate Hs].
    destruct (first_app _ _ _ entries) as [i'|] eqn:Hf; [|discriminate Hs].
    inversion Hs; subst i'.
    destruct (first_app_sound _ _ _ _ _ Hf) as (a & names & Hin & Hn & Hid & Hp).
    exists realm, entries, names, a. repeat split; try assumption.
    apply realm_entries_in. exact He.
Qed.

(* C08: when the routing function delivers to application i and the application's handler raises, the
   node hands the request to i and then answers it UNABLE_TO_COMPLY (5012) on its connection: exactly
   these two outputs, in this order *)
Theorem C08_handler_failure_answered n cid c m k i :
  get_conn n cid = Some c -> m_req m = true -> m_cmd m = App k ->
  spec_route n c m = Deliver i -> handler_raises m = true ->
  snd (receive_message n cid m) = [ODeliver i m; OQueue cid (answer_of m (Some RC_UNABLE) [])].
Proof.
  intros Hc Hreq Hcmd Hs Hh.
  rewrite (C08_route_refines n cid c m k Hc Hreq Hcmd), Hs. cbn [route_outputs].
  unfold deliver_outputs. rewrite Hh. reflexivity.
Qed.

(* C08: base protocol messages (capabilities exchange, watchdog, disconnect) never reach an application *)
Theorem C08_base_never_delivered n cid m :
  m_cmd m = CE \/ m_cmd m = DW \/ m_cmd m = DP ->
  forall i m', ~ List.In (ODeliver i m') (snd (dispatch n cid m)).
Proof.
  intros Hcmd i m' Hin.
  pose proof (dispatch_shape n cid m) as Hs.
  inversion Hs as [pre code f Hreq Hpq Hpd Ho | j k Hreq Hk Hh Ho | j k Hreq Hk Hh Ho | outs' Hnq Hnd Ho].
  - rewrite <- Ho in Hin. apply List.in_app_or in Hin. destruct Hin as [Hd|[Hd|[]]]; [|discriminate Hd].
    exact (nd_not_in _ Hpd _ _ Hd).
  - destruct Hcmd as [H|[H|H]]; congruence.
  - destruct Hcmd as [H|[H|H]]; congruence.
  - exact (nd_not_in _ Hnd _ _ Hin).
Qed.

(* C08: once the connection is ready the gate lets every message through to the node *)
Theorem C08_gate_then_route n cid c m :
  get_conn n cid = Some c -> is_ready_state (c_state c) = true ->
  dispatch n cid m = receive_message n cid m.
Proof.
  intros Hc Hr. unfold dispatch. rewrite Hc. unfold gate_passes.
  destruct (c_state c); try discriminate Hr; reflexivity.
Qed.

(* C08: the same through the gate: on a ready connection, a request routed to application i whose
   handler raises makes dispatch output exactly the delivery followed by the 5012 answer *)
Theorem C08_handler_failure_answered_dispatch n cid c m k i :
  get_conn n cid = Some c -> is_ready_state (c_state c) = true ->
  m_req m = true -> m_cmd m = App k ->
  spec_route n c m = Deliver i -> handler_raises m = true ->
  snd (dispatch n cid m) = [ODeliver i m; OQueue cid (answer_of m (Some RC_UNABLE) [])].
Proof.
  intros Hc Hr Hreq Hcmd Hs Hh. rewrite (C08_gate_then_route n cid c m Hc Hr).
  exact (C08_handler_failure_answered n cid c m k i Hc Hreq Hcmd Hs Hh).
Qed.

(* ====================================================================== *)
(* C17: the window of answered requests                                    *)
(* ====================================================================== *)
(* C17: bounded_append keeps the last k elements of l ++ [x] *)
Theorem bounded_append_spec k l x :
  bounded_append k l x = List.skipn (List.length (l ++ [x]) - k) (l ++ [x])
  /\ (List.length (bounded_append k l x) <= k)%nat
  /\ List.length (bounded_append k l x) = Nat.min k (S (List.length l))
  /\ (exists dropped, (l ++ [x])%list = (dropped ++ bounded_append k l x)%list)
  /\ ((List.length l < k)%nat -> bounded_append k l x = (l ++ [x])%list).
Proof.
  unfold bounded_append. cbv zeta.
  assert (Hlen : List.length (l ++ [x]) = S (List.length l)).
  { rewrite List.app_length. cbn [List.length]. lia. }
  split; [reflexivity|]. split; [rewrite List.skipn_length; lia|].
  split; [rewrite List.skipn_length; lia|]. split.
  - exists (List.firstn (List.length (l ++ [x]) - k) (l ++ [x])). symmetry. apply List.firstn_skipn.
  - intros Hlt. replace (List.length (l ++ [x]) - k)%nat with 0%nat by lia. reflexivity.
Qed.

Lemma bounded_append_in k l x y : List.In y (bounded_append k l x) -> List.In y l \/ y = x.
Proof.
  intros H. destruct (bounded_append_spec k l x) as (_ & _ & _ & (d & Hd) & _).
  assert (Hy : List.In y (l ++ [x])) by (rewrite Hd; apply List.in_or_app; right; exact H).
  apply List.in_app_or in Hy. destruct Hy as [Hy|[Hy|[]]]; [left; exact Hy|right; symmetry; exact Hy].
Qed.

(* the window of an origin *)
Fixpoint sa_get (sa : list (string * list Z)) (o : string) : list Z :=
  match sa with
  | [] => []
  | (o', l) :: r => if String.eqb o' o then l else sa_get r o
  end.

(* C17: recording an answer changes only the origin's window, to bounded_append of the old one *)
Theorem C17_window k sa o e :
  sa_get (sa_append k sa o e) o = bounded_append k (sa_get sa o) e
  /\ forall o', o' <> o -> sa_get (sa_append k sa o e) o' = sa_get sa o'.
Proof.
  induction sa as [|[o1 l] r [IH1 IH2]].
  - cbn [sa_append sa_get]. rewrite String.eqb_refl. split; [reflexivity|].
    intros o' Hne. apply not_eq_sym in Hne. apply String.eqb_neq in Hne. rewrite Hne. reflexivity.
  - cbn [sa_append sa_get]. destruct (String.eqb o1 o) eqn:He.
    + cbn [sa_get]. rewrite He. split; [reflexivity|].
      intros o' Hne. apply String.eqb_eq in He. subst o1.
      apply not_eq_sym in Hne. apply String.eqb_neq in Hne. rewrite Hne. reflexivity.
    + cbn [sa_get]. rewrite He. split; [exact IH1|].
      intros o' Hne. destruct (String.eqb o1 o'); [reflexivity|exact (IH2 o' Hne)].
Qed.

Lemma mem_z_in x l : mem_z x l = true <-> List.In x l.
Proof.
  unfold mem_z. rewrite List.existsb_exists. split.
  - intros (y & Hy & He). apply Z.eqb_eq in He. subst y. exact Hy.
  - intros H. exists x. split; [exact H|apply Z.eqb_refl].
Qed.

Lemma sa_mem_notin sa o e : ~ List.In o (List.map fst sa) -> sa_mem sa o e = false.
Proof.
  unfold sa_mem. induction sa as [|[o1 l] r IH]; intros Hn; [reflexivity|].
  cbn [List.existsb fst snd]. cbn [List.map fst List.In] in Hn.
  destruct (String.eqb o1 o) eqn:He.
  - apply String.eqb_eq in He. exfalso. apply Hn. left. exact He.
  - cbn [andb orb]. apply IH. intros H. apply Hn. right. exact H.
Qed.

(* C17: under distinct origins, membership in the table is membership in the origin's window *)
Theorem C17_sa_mem_get sa o e :
  List.NoDup (List.map fst sa) -> (sa_mem sa o e = true <-> List.In e (sa_get sa o)).
Proof.
  induction sa as [|[o1 l] r IH]; intros Hnd.
  - cbn. split; [discriminate|intros []].
  - cbn [List.map fst] in Hnd. inversion Hnd as [|? ? Hnotin Hnd']; subst.
    change (sa_mem ((o1, l) :: r) o e) with ((String.eqb o1 o && mem_z e l) || sa_mem r o e).
    cbn [sa_get]. destruct (String.eqb o1 o) eqn:He.
    + apply String.eqb_eq in He. subst o1. rewrite (sa_mem_notin r o e Hnotin).
      cbn [andb]. rewrite Bool.orb_false_r. apply mem_z_in.
    + cbn [andb orb]. exact (IH Hnd').
Qed.

Lemma sa_append_keys k sa o e x :
  List.In x (List.map fst (sa_append k sa o e)) -> x = o \/ List.In x (List.map fst sa).
Proof.
  induction sa as [|[o1 l] r IH]; cbn [sa_append].
  - cbn. intros [H|[]]; left; symmetry; exact H.
  - destruct (String.eqb o1 o).
    + cbn [List.map fst]. intros H. right. exact H.
    + cbn [List.map fst List.In]. intros [H|H]; [right; left; exact H|].
      destruct (IH H) as [H'|H']; [left; exact H'|right; right; exact H'].
Qed.

(* C17: recording an answer keeps the origins of the table distinct *)
Theorem C17_sa_nodup k sa o e :
  List.NoDup (List.map fst sa) -> List.NoDup (List.map fst (sa_append k sa o e)).
Proof.
  induction sa as [|[o1 l] r IH]; intros Hnd; cbn [sa_append].
  - cbn. constructor; [intros []|constructor].
  - cbn [List.map fst] in Hnd. inversion Hnd as [|? ? Hnotin Hnd']; subst.
    destruct (String.eqb o1 o) eqn:He.
    + cbn [List.map fst]. exact Hnd.
    + cbn [List.map fst]. constructor; [|exact (IH Hnd')].
      intros Hin. destruct (sa_append_keys _ _ _ _ _ Hin) as [H|H].
      * apply String.eqb_neq in He. exact (He H).
      * exact (Hnotin H).
Qed.

(* ---- the T flag ------------------------------------------------------------- *)
Definition clear_t (m : msg) : msg :=
  {| m_cmd := m_cmd m; m_req := m_req m; m_p := m_p m; m_e := m_e m; m_t := false;
     m_app := m_app m; m_hbh := m_hbh m; m_e2e := m_e2e m; m_origin := m_origin m;
     m_drealm := m_drealm m; m_result := m_result m; m_missing := m_missing m;
     m_has_failed_avp_slot := m_has_failed_avp_slot m; m_auth := m_auth m; m_acct := m_acct m;
     m_tag := m_tag m |}.
(* the message an application is handed, with its T flag cleared *)
Definition out_clear_t (o : output) : output :=
  match o with
  | ODeliver i m => ODeliver i (clear_t m)
  | OAnswerTo i m => OAnswerTo i (clear_t m)
  | OUnexpected i m => OUnexpected i (clear_t m)
  | o => o
  end.
Definition clear_ok (r r' : node * list output) : Prop :=
  r' = (fst r, List.map out_clear_t (snd r)).

Lemma clear_ok_send n cid a : clear_ok (send_message n cid a) (send_message n cid a).
Proof. unfold clear_ok. rewrite send_message_out. cbn [List.map out_clear_t]. apply send_message_pair. Qed.
Lemma clear_ok_nil n : clear_ok (n, []) (n, []).
Proof. reflexivity. Qed.

Lemma only_close_clear outs : only_close outs -> List.map out_clear_t outs = outs.
Proof.
  induction 1 as [|o l Ho _ IH]; [reflexivity|]. cbn [List.map]. rewrite IH.
  destruct o; try contradiction Ho. reflexivity.
Qed.

Lemma recv_cer_clear_ok n cid m : clear_ok (recv_cer n cid m) (recv_cer n cid (clear_t m)).
Proof.
  change (recv_cer n cid (clear_t m)) with (recv_cer n cid m).
  unfold recv_cer.
  destruct (get_conn n cid) as [c0|]; [|apply clear_ok_nil].
  destruct (negb (cstate_eqb (c_state c0) SConnected)); [apply clear_ok_nil|].
  destruct (pres_get (m_origin m)) as [host|]; [|apply clear_ok_nil].
  destruct (get_peer n host) as [p|]; [|apply clear_ok_send].
  cbv zeta.
  destruct (election_rivals _ cid host) as [|r0 rs];
    [|destruct (String.ltb host _); [|apply clear_ok_send]];
    (match goal with |- context [close_all ?a ?b ?c] =>
       pose proof (only_close_clear _ (close_all_only_close b a c)) as Hc;
       destruct (close_all a b c) as [n1 oel] end;
     cbn [snd] in Hc;
     destruct (inter_z _ (m_auth m)); destruct (inter_z _ (m_acct m));
       destruct (mem_z APP_RELAY (m_auth m) || mem_z APP_RELAY (m_acct m));
       rewrite send_message_pair; unfold clear_ok; cbn [fst snd];
       rewrite List.map_app, Hc; reflexivity).
Qed.

Lemma recv_app_request_clear_ok n cid m :
  clear_ok (recv_app_request n cid m) (recv_app_request n cid (clear_t m)).
Proof.
  unfold recv_app_request.
  destruct (get_conn n cid) as [c|]; [|apply clear_ok_nil]. cbv zeta.
  change (m_drealm (clear_t m)) with (m_drealm m).
  change (m_app (clear_t m)) with (m_app m).
  change (m_hbh (clear_t m)) with (m_hbh m).
  change (m_e2e (clear_t m)) with (m_e2e m).
  destruct (m_drealm m) as [| |realm]; try apply clear_ok_send.
  destruct (route_lookup n realm) as [entries|]; [|apply clear_ok_send].
  destruct (List.find _ entries) as [[[i|] names]|]; try apply clear_ok_send.
  change (handler_raises (clear_t m)) with (handler_raises m).
  destruct (handler_raises m); [|reflexivity].
  change (answer_of (clear_t m) (Some RC_UNABLE) []) with (answer_of m (Some RC_UNABLE) []).
  rewrite send_message_pair. reflexivity.
Qed.

Lemma rm_handle_clear_ok n0 cid m :
  m_req m = true -> clear_ok (rm_handle n0 cid m) (rm_handle n0 cid (clear_t m)).
Proof.
  intros Hreq. unfold rm_handle.
  change (m_req (clear_t m)) with (m_req m). change (m_cmd (clear_t m)) with (m_cmd m).
  change (m_origin (clear_t m)) with (m_origin m). rewrite Hreq.
  destruct (m_cmd m) as [| | |k].
  - destruct (m_origin m); try apply clear_ok_send. apply recv_cer_clear_ok.
  - unfold recv_dwr. apply clear_ok_send.
  - unfold recv_dpr. cbv zeta. apply clear_ok_send.
  - apply recv_app_request_clear_ok.
Qed.

Lemma validation_passes n cid m :
  g_validate (n_cfg n) = false \/ m_missing m = [] ->
  (if m_req m && g_validate (n_cfg (rm_n0 n cid m)) then m_missing m else []) = [].
Proof.
  intros [H|H]; rewrite rm_n0_cfg, H.
  - rewrite Bool.andb_false_r. reflexivity.
  - destruct (m_req m && g_validate (n_cfg n)); reflexivity.
Qed.

(* C17: a request that passes validation is rejected as a duplicate (5012, nothing delivered) when it
   carries the T flag and its end-to-end id is in its origin's window; otherwise the node does exactly
   what it does for the same request without the T flag (same next state, same outputs up to the flag
   of the message handed to the application): the T flag alone never causes a rejection *)
Theorem C17_dup_iff n cid m o :
  m_req m = true -> m_origin m = Present o ->
  g_validate (n_cfg n) = false \/ m_missing m = [] ->
  (m_t m = true /\ sa_mem (n_sent_answers n) o (m_e2e m) = true ->
     snd (receive_message n cid m) = [OQueue cid (answer_of m (Some 5012) [])]
     /\ forall i m', ~ List.In (ODeliver i m') (snd (receive_message n cid m)))
  /\ (m_t m = false \/ sa_mem (n_sent_answers n) o (m_e2e m) = false ->
     receive_message n cid (clear_t m) =
       (fst (receive_message n cid m), List.map out_clear_t (snd (receive_message n cid m)))).
Proof.
  intros Hreq Ho Hval.
  assert (Hdup : rm_dup (rm_n0 n cid m) m = m_t m && sa_mem (n_sent_answers n) o (m_e2e m)).
  { rewrite rm_dup_spec by exact Hreq. unfold already_answered, origin_key. rewrite Ho. reflexivity. }
  split.
  - intros [Ht Hmem].
    assert (Hout : snd (receive_message n cid m) = [OQueue cid (answer_of m (Some 5012) [])]).
    { rewrite receive_message_unfold, (validation_passes n cid m Hval), Hdup, Ht, Hmem. cbn [andb].
      apply send_message_out. }
    split; [exact Hout|]. rewrite Hout. intros i m' [H|[]]. discriminate H.
  - intros Hno.
    assert (Hd : rm_dup (rm_n0 n cid m) m = false).
    { rewrite Hdup. destruct Hno as [H|H]; rewrite H; [reflexivity|apply Bool.andb_false_r]. }
    rewrite (receive_message_unfold n cid m), (receive_message_unfold n cid (clear_t m)).
    change (rm_n0 n cid (clear_t m)) with (rm_n0 n cid m).
    change (m_req (clear_t m)) with (m_req m).
    change (m_missing (clear_t m)) with (m_missing m).
    rewrite (validation_passes n cid m Hval), Hd.
    assert (Hd' : rm_dup (rm_n0 n cid m) (clear_t m) = false).
    { unfold rm_dup. cbn [clear_t m_origin m_req m_t]. rewrite Bool.andb_false_r.
      destruct (m_origin m); reflexivity. }
    rewrite Hd'. apply rm_handle_clear_ok. exact Hreq.
Qed.

(* ---- record_answer ------------------------------------------------------------ *)
(* the origin recorded for a request received on connection cid with the (hop-by-hop, end-to-end) pair *)
Fixpoint ow_get (ow : list (nat * Z * Z * string)) (cid : nat) (hbh e2e : Z) : option string :=
  match ow with
  | [] => None
  | x :: r => if ow_key cid hbh e2e x then Some (snd x) else ow_get r cid hbh e2e
  end.

Lemma ow_key_true cid hbh e2e c h e o :
  ow_key cid hbh e2e (c, h, e, o) = true <-> c = cid /\ h = hbh /\ e = e2e.
Proof.
  unfold ow_key. rewrite !Bool.andb_true_iff, Nat.eqb_eq, !Z.eqb_eq. tauto.
Qed.

Lemma ow_get_find {T} ow cid hbh e2e (X : string -> T) (Y : T) :
  match List.find (ow_key cid hbh e2e) ow with
  | Some (_, _, _, o) => X o
  | None => Y
  end = match ow_get ow cid hbh e2e with Some o => X o | None => Y end.
Proof.
  induction ow as [|[[[c h] e] o] r IH]; [reflexivity|].
  cbn [List.find ow_get]. destruct (ow_key cid hbh e2e (c, h, e, o)); [reflexivity|exact IH].
Qed.

Lemma ow_get_none ow cid hbh e2e :
  ow_get ow cid hbh e2e = None <-> forall o, ~ List.In (cid, hbh, e2e, o) ow.
Proof.
  induction ow as [|[[[c h] e] o1] r IH]; cbn [ow_get].
  - split; [intros _ o []|reflexivity].
  - destruct (ow_key cid hbh e2e (c, h, e, o1)) eqn:Hk.
    + split; [discriminate|]. intros H. exfalso. apply (H o1). left.
      apply ow_key_true in Hk. destruct Hk as (H1 & H2 & H3). subst. reflexivity.
    + rewrite IH. split.
      * intros H o [Hin|Hin]; [|exact (H o Hin)].
        inversion Hin; subst.
        assert (Ht : ow_key cid hbh e2e (cid, hbh, e2e, o) = true) by (apply ow_key_true; auto).
        rewrite Ht in Hk. discriminate Hk.
      * intros H o Hin. apply (H o). right. exact Hin.
Qed.

Lemma ow_get_some_in ow cid hbh e2e o :
  ow_get ow cid hbh e2e = Some o -> List.In (cid, hbh, e2e, o) ow.
Proof.
  induction ow as [|[[[c h] e] o1] r IH]; cbn [ow_get]; [discriminate|].
  destruct (ow_key cid hbh e2e (c, h, e, o1)) eqn:Hk.
  - intros H. cbn [snd] in H. inversion H; subst. left.
    apply ow_key_true in Hk. destruct Hk as (H1 & H2 & H3). subst. reflexivity.
  - intros H. right. exact (IH H).
Qed.

Definition ow_remove (ow : list (nat * Z * Z * string)) (cid : nat) (hbh e2e : Z)
  : list (nat * Z * Z * string) :=
  List.filter (fun x => negb (ow_key cid hbh e2e x)) ow.

(* the keys (cid, hbh, e2e) and (c', h', e') coincide *)
Definition same_key (cid : nat) (hbh e2e : Z) (c' : nat) (h' e' : Z) : bool :=
  Nat.eqb c' cid && (h' =? hbh) && (e' =? e2e).

Lemma ow_get_remove ow cid hbh e2e c' h' e' :
  ow_get (ow_remove ow cid hbh e2e) c' h' e' =
  if same_key cid hbh e2e c' h' e' then None else ow_get ow c' h' e'.
Proof.
  unfold ow_remove. induction ow as [|[[[c h] e] o1] r IH].
  - cbn. destruct (same_key cid hbh e2e c' h' e'); reflexivity.
  - cbn [List.filter ow_get].
    destruct (ow_key cid hbh e2e (c, h, e, o1)) eqn:Hk; cbn [negb].
    + rewrite IH. destruct (same_key cid hbh e2e c' h' e') eqn:Hk'; [reflexivity|].
      destruct (ow_key c' h' e' (c, h, e, o1)) eqn:Hk''; [|reflexivity]. exfalso.
      apply ow_key_true in Hk. apply ow_key_true in Hk''.
      destruct Hk as (-> & -> & ->). destruct Hk'' as (<- & <- & <-).
      unfold same_key in Hk'. rewrite Nat.eqb_refl, !Z.eqb_refl in Hk'. discriminate Hk'.
    + cbn [ow_get]. rewrite IH.
      destruct (same_key cid hbh e2e c' h' e') eqn:Hk'; [|reflexivity].
      destruct (ow_key c' h' e' (c, h, e, o1)) eqn:Hk''; [|reflexivity]. exfalso.
      apply ow_key_true in Hk''. destruct Hk'' as (-> & -> & ->).
      unfold same_key in Hk'. unfold ow_key in Hk. rewrite Hk' in Hk. discriminate Hk.
Qed.

Lemma record_answer_eq n cid hbh e2e :
  record_answer n cid hbh e2e =
  match ow_get (n_origin_waiting n) cid hbh e2e with
  | Some origin =>
      set_waiting n (n_app_waiting n) (n_peer_waiting n) (ow_remove (n_origin_waiting n) cid hbh e2e)
        (sa_append (g_rsize (n_cfg n)) (n_sent_answers n) origin e2e)
  | None => n
  end.
Proof.
  unfold record_answer, ow_remove.
  exact (ow_get_find (n_origin_waiting n) cid hbh e2e
           (fun origin => set_waiting n (n_app_waiting n) (n_peer_waiting n)
              (List.filter (fun x => negb (ow_key cid hbh e2e x)) (n_origin_waiting n))
              (sa_append (g_rsize (n_cfg n)) (n_sent_answers n) origin e2e)) n).
Qed.

(* C17: sending the answer to a recorded request appends its end-to-end id to the origin's window
   (and to no other), and forgets the record (and no other); for an unrecorded pair nothing changes *)
(* (was, before the origin table was keyed by connection:  Theorem C17_record n hbh e2e, with
   ow_get ... hbh e2e, record_answer n hbh e2e and entries (hbh, e2e, o')) *)
Theorem C17_record n cid hbh e2e :
  (forall o, ow_get (n_origin_waiting n) cid hbh e2e = Some o ->
     let n' := record_answer n cid hbh e2e in
     sa_get (n_sent_answers n') o = bounded_append (g_rsize (n_cfg n)) (sa_get (n_sent_answers n) o) e2e
     /\ (forall o', o' <> o -> sa_get (n_sent_answers n') o' = sa_get (n_sent_answers n) o')
     /\ ow_get (n_origin_waiting n') cid hbh e2e = None
     /\ (forall o', ~ List.In (cid, hbh, e2e, o') (n_origin_waiting n'))
     /\ (forall c h e, same_key cid hbh e2e c h e = false ->
           ow_get (n_origin_waiting n') c h e = ow_get (n_origin_waiting n) c h e)
     /\ n_cfg n' = n_cfg n /\ n_conns n' = n_conns n /\ n_peers n' = n_peers n /\ n_apps n' = n_apps n
     /\ n_app_waiting n' = n_app_waiting n /\ n_peer_waiting n' = n_peer_waiting n)
  /\ (ow_get (n_origin_waiting n) cid hbh e2e = None -> record_answer n cid hbh e2e = n).
Proof.
  split.
  - intros o Ho. cbv zeta. rewrite record_answer_eq, Ho. cbn [set_waiting n_sent_answers n_origin_waiting
      n_cfg n_conns n_peers n_apps n_app_waiting n_peer_waiting].
    destruct (C17_window (g_rsize (n_cfg n)) (n_sent_answers n) o e2e) as [W1 W2].
    assert (Hnone : ow_get (ow_remove (n_origin_waiting n) cid hbh e2e) cid hbh e2e = None).
    { rewrite ow_get_remove. unfold same_key. rewrite Nat.eqb_refl, !Z.eqb_refl. reflexivity. }
    split; [exact W1|]. split; [exact W2|]. split; [exact Hnone|].
    split; [apply ow_get_none; exact Hnone|].
    split; [|repeat split].
    intros c h e Hk. rewrite ow_get_remove, Hk. reflexivity.
  - intros Hn. rewrite record_answer_eq, Hn. reflexivity.
Qed.

(* C17: in particular the records of OTHER connections carrying the same (hop-by-hop, end-to-end) pair
   survive the answer (hop-by-hop identifiers are unique per connection only) *)
Corollary C17_record_other_conn n cid hbh e2e o c :
  ow_get (n_origin_waiting n) cid hbh e2e = Some o -> c <> cid ->
  ow_get (n_origin_waiting (record_answer n cid hbh e2e)) c hbh e2e = ow_get (n_origin_waiting n) c hbh e2e.
Proof.
  intros Ho Hc. destruct (C17_record n cid hbh e2e) as [H _].
  destruct (H o Ho) as (_ & _ & _ & _ & Hk & _). apply Hk.
  unfold same_key. apply Nat.eqb_neq in Hc. rewrite Hc. reflexivity.
Qed.

(* ====================================================================== *)
(* examples: one peer "p", one application (id 4) routed in realm "r",     *)
(* one ready connection 0 to "p"                                           *)
(* ====================================================================== *)
Definition ex_cfg : cfg :=
  {| g_host := "n"%string; g_realm := "r"%string; g_cea := 4; g_cer := 4; g_dwa := 4; g_idle := 30;
     g_wakeup := 6; g_rsize := 2%nat; g_validate := true; g_state_id := 1 |}.
Definition ex_peer : peer :=
  {| p_name := "p"%string; p_realm := "r"%string; p_has_addr := true; p_persistent := false; p_always := false;
     p_cea := None; p_cer := None; p_dwa := None; p_idle := None; p_rwait := 30;
     p_conn := Some 0%nat; p_reason := None; p_lastconn := Some 0; p_lastdisc := None; p_reqs := 0 |}.
Definition ex_conn : conn :=
  {| c_id := 0%nat; c_recv := true; c_state := SReady; c_node_name := "p"%string; c_host := "p"%string;
     c_last_read := 0; c_last_dwr := 0; c_auth := [4]; c_acct := []; c_hbh := 100;
     c_sock_open := true; c_stalled := false; c_out := []; c_workers := true |}.
Definition ex_app : app := {| a_id := 4; a_auth := true; a_acct := false; a_ready := true; a_waiting := [] |}.
Definition ex_node : node :=
  {| n_cfg := ex_cfg; n_now := 0; n_io_deadline := 6; n_stopping := false;
     n_peers := [ex_peer]; n_conns := [ex_conn]; n_next_cid := 1%nat;
     n_half_ready := []; n_socket_peers := [0%nat];
     n_routes := [("r"%string, [(RApp 0, ["p"%string])])]; n_apps := [ex_app];
     n_app_waiting := []; n_peer_waiting := []; n_origin_waiting := [];
     n_sent_answers := [("p"%string, [8; 9])]; n_e2e := 500 |}.
(* an application request (command 272, application 4, realm "r") from "p"; the application's handler
   does not raise on it (tag 4) *)
Definition ex_req (appid e2e : Z) (t : bool) (realm : pres string) (missing : list (Z * Z)) : msg :=
  {| m_cmd := App 272; m_req := true; m_p := true; m_e := false; m_t := t;
     m_app := appid; m_hbh := 7; m_e2e := e2e; m_origin := Present "p"%string; m_drealm := realm;
     m_result := Undeclared; m_missing := missing; m_has_failed_avp_slot := true;
     m_auth := []; m_acct := []; m_tag := 4 |}.
Definition ex_good : msg := ex_req 4 11 false (Present "r"%string) [].
(* the same request, on which the application's handler raises (tag TAG_HANDLER_RAISES) *)
Definition ex_raises : msg :=
  {| m_cmd := App 272; m_req := true; m_p := true; m_e := false; m_t := false;
     m_app := 4; m_hbh := 7; m_e2e := 11; m_origin := Present "p"%string; m_drealm := Present "r"%string;
     m_result := Undeclared; m_missing := []; m_has_failed_avp_slot := true;
     m_auth := []; m_acct := []; m_tag := TAG_HANDLER_RAISES |}.
Definition ex_dwr : msg :=
  {| m_cmd := DW; m_req := true; m_p := false; m_e := false; m_t := false;
     m_app := 0; m_hbh := 21; m_e2e := 22; m_origin := Present "p"%string; m_drealm := Undeclared;
     m_result := Undeclared; m_missing := []; m_has_failed_avp_slot := true;
     m_auth := []; m_acct := []; m_tag := 2 |}.
Definition ex_dwa : msg :=
  {| m_cmd := DW; m_req := false; m_p := false; m_e := false; m_t := false;
     m_app := 0; m_hbh := 21; m_e2e := 22; m_origin := Present "p"%string; m_drealm := Undeclared;
     m_result := Present 2001; m_missing := []; m_has_failed_avp_slot := false;
     m_auth := []; m_acct := []; m_tag := 3 |}.

(* C07: a watchdog request is answered once, on its connection, with its identifiers; a request for an
   unknown application is answered 3007; a delivered request and a received answer queue nothing; a
   delivered request whose handler raises is answered 5012 once;
   a batch of [request; answer; unknown-application request] queues exactly two answers *)
Example C07_example :
  snd (dispatch ex_node 0 ex_dwr) = [OQueue 0%nat (answer_of ex_dwr (Some 2001) [])]
  /\ snd (dispatch ex_node 0 (ex_req 5 11 false (Present "r"%string) []))
     = [OQueue 0%nat (answer_of (ex_req 5 11 false (Present "r"%string) []) (Some 3007) [])]
  /\ snd (dispatch ex_node 0 ex_good) = [ODeliver 0%nat ex_good]
  /\ snd (dispatch ex_node 0 ex_raises) = [ODeliver 0%nat ex_raises; OQueue 0%nat (answer_of ex_raises (Some 5012) [])]
  /\ snd (dispatch ex_node 0 ex_dwa) = []
  /\ List.length (List.filter is_queue
       (snd (dispatch_all ex_node 0 [ex_dwr; ex_dwa; ex_req 5 11 false (Present "r"%string) []]))) = 2%nat
  /\ List.filter is_queue (snd (step ex_node [] (ETick 37)))
     = [OQueue 0%nat {| o_cmd := DW; o_req := true; o_app := 0; o_hbh := 101; o_e2e := 501;
                        o_result := None; o_failed := []; o_tag := 0 |}].
Proof. vm_compute. repeat split. Qed.

(* C08: the routing function on the example node, and receive_message agreeing with it *)
Example C08_example :
  get_conn ex_node 0 = Some ex_conn
  /\ spec_route ex_node ex_conn ex_good = Deliver 0
  /\ snd (receive_message ex_node 0 ex_good) = [ODeliver 0%nat ex_good]
  /\ handler_raises ex_good = false /\ handler_raises ex_raises = true
  /\ spec_route ex_node ex_conn ex_raises = Deliver 0
  /\ route_outputs 0 ex_raises (Deliver 0)
     = [ODeliver 0%nat ex_raises; OQueue 0%nat (answer_of ex_raises (Some 5012) [])]
  /\ snd (receive_message ex_node 0 ex_raises)
     = [ODeliver 0%nat ex_raises; OQueue 0%nat (answer_of ex_raises (Some 5012) [])]
  /\ spec_route ex_node ex_conn (ex_req 5 11 false (Present "r"%string) []) = Reject 3007 []
  /\ spec_route ex_node ex_conn (ex_req 4 11 false (Present "x"%string) []) = Reject 3003 []
  /\ spec_route ex_node ex_conn (ex_req 4 11 false Absent []) = Reject 5012 []
  /\ spec_route ex_node ex_conn (ex_req 4 11 false Undeclared []) = Reject 3007 []
  /\ spec_route ex_node ex_conn (ex_req 4 11 false (Present "r"%string) [(263, 0)]) = Reject 5005 [(263, 0)]
  /\ spec_route ex_node ex_conn (ex_req 4 9 true (Present "r"%string) []) = Reject 5012 []
  /\ snd (receive_message ex_node 0 (ex_req 4 11 false (Present "r"%string) [(263, 0)]))
     = [OQueue 0%nat (answer_of (ex_req 4 11 false (Present "r"%string) [(263, 0)]) (Some 5005) [(263, 0)])]
  /\ dispatch ex_node 0 ex_good = receive_message ex_node 0 ex_good.
Proof. vm_compute. repeat split. Qed.

(* C17: window arithmetic; a T-flagged request with an answered end-to-end id (9) is rejected, with a
   fresh one (11) or without the flag it is delivered; answering a recorded request slides the window *)
Example C17_example :
  bounded_append 2 [8; 9] 10 = [9; 10]
  /\ bounded_append 2 [8] 9 = [8; 9]
  /\ sa_get (sa_append 2 [("p"%string, [8; 9]); ("q"%string, [1])] "p"%string 10) "p"%string = [9; 10]
  /\ sa_get (sa_append 2 [("p"%string, [8; 9]); ("q"%string, [1])] "p"%string 10) "q"%string = [1]
  /\ List.NoDup (List.map fst (n_sent_answers ex_node))
  /\ sa_mem (n_sent_answers ex_node) "p"%string 9 = true
  /\ snd (receive_message ex_node 0 (ex_req 4 9 true (Present "r"%string) []))
     = [OQueue 0%nat (answer_of (ex_req 4 9 true (Present "r"%string) []) (Some 5012) [])]
  /\ snd (receive_message ex_node 0 (ex_req 4 11 true (Present "r"%string) []))
     = [ODeliver 0%nat (ex_req 4 11 true (Present "r"%string) [])]
  /\ snd (receive_message ex_node 0 (ex_req 4 9 false (Present "r"%string) []))
     = [ODeliver 0%nat (ex_req 4 9 false (Present "r"%string) [])]
  /\ receive_message ex_node 0 (clear_t (ex_req 4 11 true (Present "r"%string) []))
     = (fst (receive_message ex_node 0 (ex_req 4 11 true (Present "r"%string) [])),
        List.map out_clear_t (snd (receive_message ex_node 0 (ex_req 4 11 true (Present "r"%string) []))))
  /\ (let n1 := fst (receive_message ex_node 0 ex_good) in
      ow_get (n_origin_waiting n1) 0 7 11 = Some "p"%string
      /\ sa_get (n_sent_answers (record_answer n1 0 7 11)) "p"%string = [9; 11]
      /\ n_origin_waiting (record_answer n1 0 7 11) = []
      /\ record_answer n1 0 7 12 = n1
      /\ record_answer n1 1 7 11 = n1).
Proof.
  vm_compute. repeat split.
  constructor; [intros []|constructor].
Qed.

(* ====================================================================== *)
Print Assumptions send_message_out.
Print Assumptions C07_dispatch_answers.
Print Assumptions C07_no_answer_to_answer.
Print Assumptions C07_no_request_from_dispatch.
Print Assumptions C07_delivered_not_answered.
Print Assumptions C07_delivered_answered_only_on_failure.
Print Assumptions C07_answers_only_from.
Print Assumptions C07_dispatch_all_answers.
Print Assumptions C08_route_refines.
Print Assumptions C08_exactly_once.
Print Assumptions C08_handler_failure_answered.
Print Assumptions C08_handler_failure_answered_dispatch.
Print Assumptions C08_base_never_delivered.
Print Assumptions C08_gate_then_route.
Print Assumptions bounded_append_spec.
Print Assumptions C17_window.
Print Assumptions C17_sa_mem_get.
Print Assumptions C17_sa_nodup.
Print Assumptions C17_dup_iff.
Print Assumptions C17_record.
Print Assumptions C17_record_other_conn.
Print Assumptions C07_example.
Print Assumptions C08_example.
Print Assumptions C17_example.
