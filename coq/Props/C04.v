(* C04 — decoding hostile bytes terminates and raises only library decode errors.
   Every statement is for ALL byte strings (no length bound). *)
From DV Require Import Prelude.Base Model.Wire Model.Types Model.Cost Model.Exn
     Proofs.WireP Proofs.TypesP Proofs.CostP.

(* totality: each decoder returns, or raises ConversionError (wire level) / AvpDecodeError (value
   level) -- the model has no other outcome, in particular fuel never runs out *)
Theorem C04_avp_total : forall bs, (exists a rest, dec_avp bs = Ok (a, rest)) \/ dec_avp bs = Err ConversionError.
Proof. exact dec_avp_total. Qed.
Theorem C04_avps_total : forall bs, (exists l, dec_avps bs = Ok l) \/ dec_avps bs = Err ConversionError.
Proof. exact dec_avps_total. Qed.
Theorem C04_msg_total : forall bs, (exists h l, dec_msg bs = Ok (h, l)) \/ dec_msg bs = Err ConversionError.
Proof. exact dec_msg_total. Qed.
Theorem C04_value_total : forall t p, (exists v, dec_val rfc_time t p = Ok v) \/ dec_val rfc_time t p = Err AvpDecodeError.
Proof. exact dec_val_total. Qed.
Theorem C04_tree_total : forall d fuel a, (List.length (a_payload a) < fuel)%nat ->
  (exists t, to_tree d fuel a = Ok t) \/ to_tree d fuel a = Err AvpDecodeError.
Proof.
  intros d fuel a Hf. destruct (to_tree_total d fuel a) as [H|[H|H]]; [left; exact H|right; exact H|].
  exfalso. exact (to_tree_enough_fuel d fuel a Hf H).
Qed.

(* progress: a successful AVP decode consumes at least 8 bytes plus its payload *)
Theorem C04_progress : forall bs a rest, dec_avp bs = Ok (a, rest) -> blen rest + 8 + blen (a_payload a) <= blen bs.
Proof. exact dec_avp_consumes. Qed.
(* no over-read: what is left is a suffix of the input; payloads are slices of it *)
Theorem C04_no_overread : forall bs a rest, dec_avp bs = Ok (a, rest) -> exists pre, bs = pre ++ rest /\ 8 <= blen pre.
Proof. exact dec_avp_suffix. Qed.
Theorem C04_no_overread_list : forall bs l, dec_avps bs = Ok l -> Forall (fun a => blen (a_payload a) + 8 <= blen bs) l.
Proof. exact dec_avps_each. Qed.
Theorem C04_hdr_no_overread : forall bs h r, dec_hdr bs = Ok (h, r) -> exists pre, bs = pre ++ r /\ blen pre = 20.
Proof. exact dec_hdr_suffix. Qed.

(* linear time: instrumented step counts (loop iterations + bytes copied into payload slices) *)
Theorem C04_linear_flat : forall bs, 0 <= dec_avps_cost bs <= blen bs.
Proof. exact dec_avps_cost_tight. Qed.
Theorem C04_linear_msg : forall bs, 0 <= dec_msg_cost bs <= blen bs + 6.
Proof. exact dec_msg_cost_linear. Qed.
(* per nesting level for grouped AVPs: depth x |payload| *)
Theorem C04_linear_tree : forall d fuel a, 0 <= tree_cost d fuel a <= Z.of_nat fuel * blen (a_payload a).
Proof. exact tree_cost_tight. Qed.

(* exception discipline of the typed getters, for ANY handler table: if no primitive exception
   escapes any row then the table is closed -- Link/LinkGetters.v proves this for the table
   regenerated from avp.py on every run *)
Theorem C04_getters_closed_spec : forall rows, getters_closed rows = true ->
  forall r, In r rows -> escapes r = [].
Proof.
  intros rows H r Hin. unfold getters_closed in H. rewrite forallb_forall in H. specialize (H r Hin).
  destruct (escapes r); [reflexivity|discriminate].
Qed.

Print Assumptions C04_avp_total.
Print Assumptions C04_avps_total.
Print Assumptions C04_msg_total.
Print Assumptions C04_value_total.
Print Assumptions C04_tree_total.
Print Assumptions C04_progress.
Print Assumptions C04_no_overread.
Print Assumptions C04_no_overread_list.
Print Assumptions C04_hdr_no_overread.
Print Assumptions C04_linear_flat.
Print Assumptions C04_linear_msg.
Print Assumptions C04_linear_tree.
Print Assumptions C04_getters_closed_spec.
