(* Model of diameter.node._helpers.SequenceGenerator / SessionGenerator (C16).
   Functional part: next, initial value, session-id format.
   Concurrent part: a small step machine whose atomic steps are source lines;
   the step programs are regenerated from the source by tools/translate.py
   (Gen/GenIds.v) and tied to the programs below by Link/LinkIds.v. *)
From DV Require Import Prelude.Base.
From Coq Require Import String.

Definition next (mn mx s : Z) : Z := if s =? mx then mn else s + 1.

(* SequenceGenerator.__init__ with include_now: ((now << 20) | r) & MAX *)
Definition seq_init (mx now r : Z) : Z := Z.land (Z.lor (Z.shiftl now 20) r) mx.

(* SessionGenerator.next_id formatting: hex of the 8-byte big-endian counter,
   cut in two 8-character halves; base = hex of the 4-byte start time. *)
Definition hex8 (x : Z) : string := tohex (be_enc 4 x).
Definition session_parts (ident : string) (start seqv : Z) (opt : list string) : list string :=
  let h := tohex (be_enc 8 seqv) in
  [ident; hex8 start; String.substring 0 8 h; String.substring 8 8 h] ++ opt.
Definition session_id (ident : string) (start seqv : Z) (opt : list string) : string :=
  String.concat ";"%string (session_parts ident start seqv opt).

(* ---- step machine --------------------------------------------------- *)
Inductive instr : Set :=
| IAcq                  (* with self._lock:  (enter) *)
| IRel                  (* leaving the with block *)
| IIfMax (els : nat)    (* if self._sequence == self.MAX_SEQUENCE: ; else-branch at pc els *)
| ISetMin (nxt : nat)   (* self._sequence = self.MIN_SEQUENCE ; continue at nxt *)
| IInc                  (* self._sequence += 1 *)
| ILoad                 (* local := f(self._sequence) *)
| IRetSeq               (* return self._sequence *)
| IRetLoc.              (* return g(local) *)

Definition instr_eqb (a b : instr) : bool :=
  match a, b with
  | IAcq, IAcq | IRel, IRel | IInc, IInc | ILoad, ILoad | IRetSeq, IRetSeq | IRetLoc, IRetLoc => true
  | IIfMax x, IIfMax y | ISetMin x, ISetMin y => Nat.eqb x y
  | _, _ => false
  end.

Record thr : Type := { pc : nat; loc : Z; lidx : nat; pend : bool; todo : nat }.
Record mach : Type :=
  { sq : Z; lk : option nat; th : nat -> thr; cnt : nat; ret : list (Z * nat) }.
(* cnt, lidx, and the second components of ret are ghost: the number of
   modifications of the counter so far / at the time a value was read. *)

Definition upd (f : nat -> thr) (i : nat) (x : thr) : nat -> thr :=
  fun j => if Nat.eqb j i then x else f j.
Definition setpc (t : thr) (p : nat) : thr :=
  {| pc := p; loc := loc t; lidx := lidx t; pend := pend t; todo := todo t |}.

Definition step (prog : list instr) (mn mx : Z) (m : mach) (i : nat) : mach :=
  let t := th m i in
  match nth_error prog (pc t) with
  | None =>
      match todo t with
      | O => m
      | S k => {| sq := sq m; lk := lk m; cnt := cnt m; ret := ret m;
                  th := upd (th m) i {| pc := 0; loc := loc t; lidx := lidx t; pend := pend t; todo := k |} |}
      end
  | Some IAcq =>
      match lk m with
      | Some _ => m
      | None => {| sq := sq m; lk := Some i; cnt := cnt m; ret := ret m;
                   th := upd (th m) i (setpc t (S (pc t))) |}
      end
  | Some IRel => {| sq := sq m; lk := None; cnt := cnt m; ret := ret m;
                    th := upd (th m) i (setpc t (S (pc t))) |}
  | Some (IIfMax e) => {| sq := sq m; lk := lk m; cnt := cnt m; ret := ret m;
                          th := upd (th m) i (setpc t (if sq m =? mx then S (pc t) else e)) |}
  | Some (ISetMin n) => {| sq := mn; lk := lk m; cnt := S (cnt m); ret := ret m;
                           th := upd (th m) i (setpc t n) |}
  | Some IInc => {| sq := sq m + 1; lk := lk m; cnt := S (cnt m); ret := ret m;
                    th := upd (th m) i (setpc t (S (pc t))) |}
  | Some ILoad => {| sq := sq m; lk := lk m; cnt := cnt m; ret := ret m;
                     th := upd (th m) i {| pc := S (pc t); loc := sq m; lidx := cnt m; pend := true; todo := todo t |} |}
  | Some IRetSeq => {| sq := sq m; lk := lk m; cnt := cnt m; ret := ret m ++ [(sq m, cnt m)];
                       th := upd (th m) i (setpc t (S (pc t))) |}
  | Some IRetLoc => {| sq := sq m; lk := lk m; cnt := cnt m; ret := ret m ++ [(loc t, lidx t)];
                       th := upd (th m) i {| pc := S (pc t); loc := loc t; lidx := lidx t; pend := false; todo := todo t |} |}
  end.

Definition run (prog : list instr) (mn mx : Z) (m : mach) (sched : list nat) : mach :=
  fold_left (step prog mn mx) sched m.

(* every thread idle (pc past the end), with draws i calls still to make *)
Definition init (prog : list instr) (s0 : Z) (draws : nat -> nat) : mach :=
  {| sq := s0; lk := None; cnt := 0; ret := [];
     th := fun i => {| pc := List.length prog; loc := 0; lidx := 0; pend := false; todo := draws i |} |}.

(* the programs the proofs are about *)
Definition locked_next_seq : list instr := [IAcq; IIfMax 3; ISetMin 4; IInc; IRetSeq; IRel].
Definition locked_next_id  : list instr := [IAcq; IIfMax 3; ISetMin 4; IInc; ILoad; IRel; IRetLoc].
(* the generator as it was before the repair (no lock) *)
Definition unlocked_next_seq : list instr := [IIfMax 2; ISetMin 3; IInc; IRetSeq].

(* ---- replay of an implementation trace (correspondence) -------------- *)
(* event (t, k): thread t is about to execute the source line that became
   instruction k.  Silent progress (release, restart of the next call, a
   pending acquire that can now succeed) is caught up first. *)
Fixpoint advance (prog : list instr) (mn mx : Z) (fuel : nat) (m : mach) (t k : nat) : mach :=
  match fuel with
  | O => m
  | S f => if Nat.eqb (pc (th m t)) k then step prog mn mx m t
           else advance prog mn mx f (step prog mn mx m t) t k
  end.
Definition replay (prog : list instr) (mn mx s0 : Z) (draws : nat) (evs : list (nat * nat)) : mach :=
  fold_left (fun m e => advance prog mn mx (S (S (List.length prog))) m (fst e) (snd e))
            evs (init prog s0 (fun _ => draws)).

(* closed form used to compare long runs without building them *)
Definition nth_draw (mx s : Z) (k : Z) : Z := (s - 1 + k) mod mx + 1.
