"""C02 — message codec is byte-exact; class dispatch and AVP search are correct."""
from __future__ import annotations

import random

import implobs as O
import vlib
from props import c01

FILES = ["Link/LinkWire.v", "Link/LinkRegistry.v", "Props/C02.v"]
PRE = ("From DV Require Import Prelude.Base Model.Wire Model.Types Model.Obs Model.Msg "
       "Gen.GenDict Gen.GenConst Gen.GenRegistry.\nFrom Coq Require Import String.\n")

B32 = [0, 1, 0x7fffffff, 0x80000000, 0xffffffff]
B24 = [0, 1, 257, 272, 0x7fffff, 0xffffff]
B8 = [0, 1, 0x7f, 0x80, 0xff]


def coq_hdr(v, ln, f, c, app, hbh, e2e):
    return (f"{{| h_version := {v}; h_length := {ln}; h_flags := {f}; h_code := {c}; "
            f"h_app := {app}; h_hbh := {hbh}; h_e2e := {e2e} |}}")


def gen_avps(rng, rows_by_ty, nmax, depth):
    objs, canon = [], []
    A = O.A
    for _ in range(rng.randrange(0, nmax + 1)):
        tn = rng.choice(list(rows_by_ty))
        code, vendor = rng.choice(rows_by_ty[tn])
        cv, ob = c01.gen_value(tn, rng, depth if tn == "TGrouped" else 0, rows_by_ty)
        try:
            a = A.Avp.new(code, vendor, value=ob, is_mandatory=rng.choice([None, True, False]),
                          is_private=rng.choice([None, None, True]))
        except Exception:   # noqa
            continue
        objs.append(a)
        canon.append((a.code, a.flags, a.vendor_id, bytes(a.payload)))
        if rng.random() < 0.15:      # repeated AVP
            objs.append(a)
            canon.append(canon[-1])
        if rng.random() < 0.2:       # the same code under a different vendor (or none): a different AVP
            v2 = rng.choice([10415, 9999999]) if a.vendor_id == 0 else rng.choice([0, 0, a.vendor_id + 1])
            pl = bytes(rng.getrandbits(8) for _ in range(rng.choice([0, 4, 5, 12])))
            import implobs as _O
            if _O.dict_entry(a.code, v2) is not None:
                continue             # a defined pair would need a payload of its own type
            # reserved flag bits travel unchanged through a generic decode / re-encode
            t = A.Avp(a.code, v2, pl, (0x80 if v2 else 0) | rng.choice([0, 0x40]) | rng.choice([0, 0, 0x01, 0x08, 0x1f]))
            if rng.random() < 0.5:
                objs.insert(rng.randrange(len(objs) + 1), t)
            else:
                objs.append(t)
            canon[:] = [(x.code, x.flags, x.vendor_id, bytes(x.payload)) for x in objs]
    return objs, canon


def coq_avps(canon):
    return "[" + "; ".join(O.coq_avp(*a) for a in canon) + "]"


def expected_class(code, rbit, plain):
    """the property's rule, from the registry itself"""
    from diameter.message.commands import all_commands
    if code not in all_commands:
        return "UndefinedMessage"
    base = all_commands[code]
    if plain:
        return base.__name__
    want = base.__name__ + ("Request" if rbit else "Answer")
    for sub in base.__subclasses__():
        if sub.__name__ == want:
            return want
    return base.__name__


def check(run):
    from diameter.message import Message, MessageHeader
    from diameter.message.commands import all_commands
    thorough = run.tier == "thorough"
    rng = random.Random(run.seed)
    run.rule = ("headers with boundary field values; every registered command code x R bit plus unknown codes; generic "
                "messages with 0..40 dictionary AVPs (nesting <= 6, repeats) encoded, decoded (typed and plain), re-encoded; "
                "sequences of distinct search paths; all compared with the Coq model and with an independent RFC parser; "
                "non-trivial = distinct (header, AVP list) or (message, path sequence)")
    run.assumptions = ["AVP-sequence identity is checked on the generic decode (plain_msg=True / commands without a typed "
                       "class); typed classes regenerate their AVP list from attributes (documented), which is C03's subject"]
    run.obligations(FILES)

    rows = O.dict_rows()
    rows_by_ty = {}
    for code, vendor, tn, m, name, vf in rows:
        rows_by_ty.setdefault(tn, []).append((code, vendor))
    grouped = rows_by_ty.get("TGrouped", [])

    hdr_cases, hdr_meta = [], []
    msg_cases, msg_meta = [], []
    dec_cases, dec_meta = [], []
    find_cases, find_meta = [], []

    # ---- headers --------------------------------------------------------
    combos = []
    for v in B8:
        for f in B8:
            combos.append((v, rng.choice(B24), f, rng.choice(B24), rng.choice(B32), rng.choice(B32), rng.choice(B32)))
    for x in B32:
        combos.append((1, 20, 0x80, 272, x, x, x))
    for x in B24:
        combos.append((1, x, 0, x, 0, 0, 0))
    for _ in range(200 if thorough else 40):
        combos.append((rng.randrange(256), rng.randrange(1 << 24), rng.randrange(256), rng.randrange(1 << 24),
                       rng.getrandbits(32), rng.getrandbits(32), rng.getrandbits(32)))
    for (v, ln, f, c, app, hbh, e2e) in combos:
        h = MessageHeader(v, ln, f, c, app, hbh, e2e)
        wire = h.as_bytes()
        ref = bytes([v]) + ln.to_bytes(3, "big") + bytes([f]) + c.to_bytes(3, "big") + app.to_bytes(4, "big") \
            + hbh.to_bytes(4, "big") + e2e.to_bytes(4, "big")
        case = {"op": "header", "fields": [v, ln, f, c, app, hbh, e2e]}
        run.count(1, [("hdr", v, ln, f, c, app, hbh, e2e)])
        if wire != ref:
            run.violation("header-layout", case, wire.hex(), ref.hex())
        h2 = MessageHeader.from_bytes(wire + b"trailing")
        got = (h2.version, h2.length, h2.command_flags, h2.command_code, h2.application_id,
               h2.hop_by_hop_identifier, h2.end_to_end_identifier)
        if got != (v, ln, f, c, app, hbh, e2e):
            run.violation("header-roundtrip", case, got)
        flagprops = (h2.is_request, h2.is_proxyable, h2.is_error, h2.is_retransmit)
        if flagprops != (bool(f & 0x80), bool(f & 0x40), bool(f & 0x20), bool(f & 0x10)):
            run.violation("header-flag-bits", case, flagprops)
        hdr_cases.append(f"({coq_hdr(v, ln, f, c, app, hbh, e2e)}, {O.hx(wire)})")
        hdr_meta.append(case)

    # ---- commands registered at run time: histories in which the code was decoded BEFORE it was registered ----------
    from diameter.message import DefinedMessage
    from diameter.message import commands as _cmds

    def _mk(name, code):
        base = type(name, (DefinedMessage,), {"code": code, "name": name, "avp_def": (),
                                              "__post_init__": lambda self: (setattr(self.header, "command_code", code),
                                                                             DefinedMessage.__post_init__(self))[1]})
        req = type(name + "Request", (base,), {})
        ans = type(name + "Answer", (base,), {})
        base.type_factory = classmethod(lambda cls, header: req if header.is_request else ans)
        return base, req, ans
    for code in (999, 283, 8388700):
        saved = _cmds.all_commands.get(code)
        try:
            wires = {r: MessageHeader(1, 20, 0x80 if r else 0, code, 0, 7, 9).as_bytes() for r in (0, 1)}
            before = {r: type(Message.from_bytes(wires[r])).__name__ for r in (0, 1)}
            hist = {"op": "register-history", "code": code, "before": before}
            run.count(1, [("cmd-register-history", code)])
            for gen in ("VerifFirst", "VerifSecond"):
                base, req, ans = _mk(gen + str(code), code)
                _cmds.register(base)
                got = (type(Message.from_bytes(wires[1])).__name__, type(Message.from_bytes(wires[0])).__name__,
                       type(Message.from_bytes(wires[1], plain_msg=True)).__name__)
                want = (req.__name__, ans.__name__, base.__name__)
                if got != want:
                    run.violation("class-dispatch-after-register", dict(hist, registered=base.__name__), got, want,
                                  what="a command class registered at run time is not used for a code that was decoded before")
        finally:
            if saved is None:
                _cmds.all_commands.pop(code, None)
            else:
                _cmds.all_commands[code] = saved

    # ---- messages ---------------------------------------------------------
    codes = sorted(all_commands) + [1, 999, 8388607, 16777215]
    n_random = 600 if thorough else 60
    plan = [(c, r) for c in codes for r in (0, 1)] + [(rng.choice(codes), rng.randrange(2)) for _ in range(n_random)]
    for idx, (code, rbit) in enumerate(plan):
        flags = (0x80 if rbit else 0) | rng.choice([0, 0x40, 0x20, 0x10, 0x60, 0x70, 0x0f])
        nmax = rng.choice([0, 1, 3, 8, 40]) if idx % 7 == 0 else rng.choice([0, 2, 5])
        objs, canon = gen_avps(rng, rows_by_ty, nmax, rng.choice([0, 1, 2, 6]))
        if idx % 4 == 1:     # the same AVP at the top level and inside a group
            vsai = O.A.Avp.new(260, 0, value=[O.A.Avp.new(266, 0, value=10415), O.A.Avp.new(258, 0, value=4)])
            top = O.A.Avp.new(258, 0, value=5)
            for extra_a in (vsai, top) if idx % 8 == 1 else (top, vsai):
                objs.append(extra_a)
                canon.append((extra_a.code, extra_a.flags, extra_a.vendor_id, bytes(extra_a.payload)))
        if idx % 50 == 49:   # a large message (up to ~64 KiB)
            big = O.A.Avp.new(O.A.AvpOctetString and 1, 0, value="x" * 100) if False else None
            blob = bytes(rng.getrandbits(8) for _ in range(rng.choice([4096, 20000, 60000])))
            a = O.A.AvpOctetString(44, payload=blob)
            objs.append(a)
            canon.append((a.code, a.flags, a.vendor_id, blob))
        app, hbh, e2e = rng.choice(B32 + [4, 16777238]), rng.getrandbits(32), rng.getrandbits(32)
        hd = MessageHeader(1, 0, flags, code, app, hbh, e2e)
        m = Message(hd, list(objs))
        case = {"op": "message", "code": code, "flags": flags, "n_avps": len(canon)}
        try:
            wire = m.as_bytes()
        except Exception as e:   # noqa
            run.violation("encode", case, O.err_kind(e))
            continue
        run.count(1, [("msg", code, flags, len(canon), wire[:48])])
        body = b"".join(O.ref_avp(*a[:3], a[3]) for a in canon)
        ref = bytes([1]) + (20 + len(body)).to_bytes(3, "big") + bytes([flags]) + code.to_bytes(3, "big") \
            + app.to_bytes(4, "big") + hbh.to_bytes(4, "big") + e2e.to_bytes(4, "big") + body
        if wire != ref:
            run.violation("message-layout", case, wire.hex()[:300], ref.hex()[:300],
                          what="encoded message differs from header + AVPs with length = total byte count")
        msg_cases.append(f"({coq_hdr(1, 0, flags, code, app, hbh, e2e)}, {coq_avps(canon)}, {O.hx(wire)})")
        msg_meta.append(case)

        # decode: typed dispatch
        case_d = {"op": "decode", "code": code, "flags": flags, "wire": wire.hex()[:200]}
        try:
            t = Message.from_bytes(wire)
            cname = type(t).__name__
            th = t.header
            got_h = (th.version, th.length, th.command_flags, th.command_code, th.application_id,
                     th.hop_by_hop_identifier, th.end_to_end_identifier)
        except Exception as e:   # noqa
            # a typed class may fail on AVPs that do not fit its definitions -- C03/C04 territory
            cname, got_h = "ERR:" + O.err_kind(e), None
        want_cls = expected_class(code, rbit, False)
        if not cname.startswith("ERR:"):
            if cname != want_cls:
                run.violation("class-dispatch", case_d, cname, want_cls)
            if got_h != (1, len(wire), flags, code, app, hbh, e2e):
                run.violation("decoded-header", case_d, got_h, (1, len(wire), flags, code, app, hbh, e2e),
                              what="decoded header fields differ from the wire")
        # decode: generic
        p = Message.from_bytes(wire, plain_msg=True)
        pname = type(p).__name__
        ph = p.header
        got_ph = (ph.version, ph.length, ph.command_flags, ph.command_code, ph.application_id,
                  ph.hop_by_hop_identifier, ph.end_to_end_identifier)
        got_avps = [(a.code, a.flags, a.vendor_id, bytes(a.payload)) for a in p.avps]
        if pname != expected_class(code, rbit, True):
            run.violation("class-dispatch-plain", case_d, pname, expected_class(code, rbit, True))
        if got_ph != (1, len(wire), flags, code, app, hbh, e2e):
            run.violation("decoded-header", case_d, got_ph, what="decoded (plain) header fields differ from the wire")
        try:
            ref_avps = O.ref_parse_avps(wire[20:])
        except ValueError as e:
            # the bytes the library itself produced are not RFC 6733 framing
            ref_avps = None
            run.violation("encoded-wire-wellformed", case_d, str(e), "AVP framing per RFC 6733 4.1",
                          what="the encoder emits an AVP whose length field is inconsistent with its header (" + str(e) + ")")
        if ref_avps is not None and got_avps != ref_avps:
            run.violation("decoded-avps", case_d, len(got_avps), len(canon),
                          what="decoded AVP sequence differs from the wire")
        try:
            re = p.as_bytes()
        except Exception as e:   # noqa
            re = None
        if re != wire:
            run.violation("re-encode", case_d, None if re is None else re.hex()[:200], wire.hex()[:200],
                          what="re-encoding a generically decoded message does not reproduce the input")
        run.count(1, [("dec", wire[:64], len(wire))])
        # histories: a message that has been decoded / encoded once is changed and encoded again
        if idx % 3 == 0:
            extra_avp = O.A.Avp(99999977, 0, b"\x01\x02\x03", 0)
            extra_wire = O.ref_avp(99999977, 0, 0, b"\x01\x02\x03")
            want2 = wire[:1] + (len(wire) + len(extra_wire)).to_bytes(3, "big") + wire[4:] + extra_wire
            for label, obj in (("decoded", Message.from_bytes(wire, plain_msg=True)), ("encoded", m)):
                if isinstance(obj, DefinedMessage):
                    continue     # typed base classes keep decoded AVPs apart from appended ones (C03 territory)
                try:
                    obj.append_avp(extra_avp)
                    w2 = obj.as_bytes()
                except Exception as e:   # noqa
                    w2 = None
                if w2 != want2:
                    run.violation("re-encode-after-change", dict(case_d, history=f"{label} once, one AVP appended, encoded again"),
                                  None if w2 is None else {"length_field": int.from_bytes(w2[1:4], "big"), "bytes": len(w2)},
                                  {"length_field": len(want2), "bytes": len(want2)},
                                  what="after appending an AVP to a message that was already decoded / encoded, the emitted length field or bytes are wrong")
        if not cname.startswith("ERR:"):
            dec_cases.append(f"({O.hx(wire)}, {vlib.coq_string(cname)}, {coq_hdr(*got_h)}, "
                             f"{vlib.coq_string(pname)}, {coq_hdr(*got_ph)}, {coq_avps(got_avps)})")
            dec_meta.append(case_d)

        # search paths on the generically decoded message
        if canon and idx % 2 == 0 and ref_avps is not None:
            tree = ref_avps
            paths = []
            for _ in range(rng.randrange(1, 6)):
                pth = []
                level = tree
                for d in range(rng.randrange(1, 5)):
                    if level and rng.random() < 0.85:
                        a = rng.choice(level)
                        pth.append((a[0], a[2]))
                        try:
                            level = O.ref_parse_avps(a[3]) if O.is_grouped(a[0], a[2]) else []
                        except ValueError:
                            level = []
                    else:
                        pth.append(rng.choice(grouped) if grouped and rng.random() < 0.5 else (rng.randrange(1, 700), rng.choice([0, 10415])))
                if pth not in paths:
                    paths.append(pth)
            # a code that occurs INSIDE a group searched at the top level (and the other way round): the search is anchored
            for a in tree:
                if O.is_grouped(a[0], a[2]):
                    try:
                        kids = O.ref_parse_avps(a[3])
                    except ValueError:
                        kids = []
                    if kids:
                        kid = rng.choice(kids)
                        for pth in ([(kid[0], kid[2])], [(a[0], a[2]), (a[0], a[2])], [(a[0], a[2]), (kid[0], kid[2])]):
                            if pth not in paths:
                                paths.append(pth)
                        break
            if rng.random() < 0.3:
                paths.append(list(paths[0]))     # a repeated query: must return the same answer
            q = Message.from_bytes(wire, plain_msg=True)
            results = []
            okq = True
            for pth in paths:
                try:
                    r = q.find_avps(*pth)
                    got = [(a.code, a.flags, a.vendor_id, bytes(a.payload)) for a in r]
                    results.append(("ok", got))
                    try:
                        want = O.ref_find(tree, pth)
                    except ValueError:
                        want = None
                    if want is not None and got != want:
                        run.violation("find-avps", {"op": "find", "wire": wire.hex()[:200], "path": pth},
                                      len(got), len(want), what="find_avps result differs from the AVPs located at that path")
                except Exception as e:   # noqa
                    results.append(("err", O.err_kind(e)))
            run.count(1, [("find", wire[:48], str(paths))])
            res_txt = "[" + "; ".join((f"Ok {coq_avps(g)}" if k == "ok" else f"Err {O.coq_err(g)}") for k, g in results) + "]"
            paths_txt = "[" + "; ".join("[" + "; ".join(f"({c}, {v})" for c, v in pth) + "]" for pth in paths) + "]"
            find_cases.append(f"({coq_avps(got_avps)}, {paths_txt}, {res_txt})")
            find_meta.append({"op": "find", "wire": wire.hex()[:200], "paths": paths})
    run.sample({"message": msg_meta[3] if len(msg_meta) > 3 else None, "find": find_meta[0] if find_meta else None})

    ok_hdr = ("Definition ok (c : hdr * bytes) : bool := let '(h, w) := c in\n"
              "  res_eqb bytes_eqb (enc_hdr h) (Ok w) &&\n"
              "  match dec_hdr (w ++ [1; 2; 3])%list with Ok (h', r) => hdr_eqb h h' && bytes_eqb r [1; 2; 3] | Err _ => false end.\n")
    ok_msg = ("Definition ok (c : hdr * list avp * bytes) : bool := let '(h, l, w) := c in\n"
              "  res_eqb bytes_eqb (enc_msg h l) (Ok w).\n")
    ok_dec = ("Definition ok (c : bytes * string * hdr * string * hdr * list avp) : bool :=\n"
              "  let '(w, cn, h, pn, ph, l) := c in\n"
              "  match dec_msg w with\n"
              "  | Ok (mh, ml) =>\n"
              "      String.eqb (class_of registry_rows false (h_code mh) (h_flags mh)) cn &&\n"
              "      hdr_eqb (decoded_header class_rows cn mh) h &&\n"
              "      String.eqb (class_of registry_rows true (h_code mh) (h_flags mh)) pn &&\n"
              "      hdr_eqb (decoded_header class_rows pn mh) ph && list_eqb avp_eqb ml l &&\n"
              "      res_eqb bytes_eqb (enc_msg ph l) (Ok w)\n"
              "  | Err _ => false end.\n")
    ok_find = ("Definition ok (c : list avp * list path * list (result (list avp))) : bool :=\n"
               "  let '(l, ps, rs) := c in\n"
               "  list_eqb (res_eqb (list_eqb avp_eqb)) (find_seq (dict_of dict_rows) [] l ps) rs.\n")
    for texts, meta, okd, tag, chunk in ((hdr_cases, hdr_meta, ok_hdr, "hdr", 400), (msg_cases, msg_meta, ok_msg, "msg", 60),
                                         (dec_cases, dec_meta, ok_dec, "dec", 60), (find_cases, find_meta, ok_find, "find", 60)):
        mism, errs = vlib.eval_mismatches(run.workdir, PRE, okd, texts, chunk=chunk, tag=tag)
        for i in mism:
            run.mismatch(f"model vs implementation ({tag})", meta[i], texts[i][-300:])
        for e in errs:
            run.mismatch("coq evaluation", {}, e)
    return run.finish()


def replay(r):
    print("replay: re-run ./check C02 (cases are regenerated deterministically from the seed)")
    return False
