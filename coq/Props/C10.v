(* C10 — application requests: eligible peer, fresh identifiers, answer correlation
   Statements copied from the proof files; each is closed by `exact`. *)
From DV Require Prelude.Base Model.Ids Proofs.IdsP Model.Node Proofs.NodeA Proofs.NodeC Proofs.NodeD Proofs.NodeF.
From Coq Require String List Lia Bool Arith ZArith.

Module FromNodeC.
Import DV.Prelude.Base DV.Model.Ids DV.Proofs.IdsP DV.Model.Node DV.Proofs.NodeC.
Local Open Scope Z_scope.

(* route_request: the peers offered are exactly the usable peers named in the chosen list;
   no list is offered iff no (non-empty) list can be chosen *)
Theorem route_request_spec n i realm :
  (forall l, route_request n i realm = Some l ->
     exists names, chosen_list n i realm names /\ names <> [] /\
       forall p, List.In p l <->
                 exists nm, List.In nm names /\ get_peer n nm = Some p /\ usable_peer n p) /\
  (route_request n i realm = None <-> forall names, chosen_list n i realm names -> names = []).
Proof. exact (@NodeC.route_request_spec n i realm). Qed.

(* shape of the reaction to Application.send_request: NotRoutable, or the request handed to the
   connection of the peer chosen from route_request's list, followed only by what the I/O thread
   does on its own.  n4 is the node before the I/O thread settles. *)
Theorem C10_request_shape n ds i m realm pick timeout n' outs :
  step n ds (EAppRequest i m realm pick timeout) = (n', outs) ->
  outs = [ONotRoutable] \/
  exists usable p cid c m' n4 rest,
    route_request n i realm = Some usable /\ usable <> [] /\ choose usable pick = Some p /\
    p_conn p = Some cid /\ get_conn n cid = Some c /\
    outs = OQueue cid m' :: rest /\ settle_app' n4 ds = (n', rest) /\ List.Forall (sysout (pmap n)) rest /\
    o_req m' = true /\ o_cmd m' = o_cmd m /\ o_tag m' = o_tag m /\
    o_hbh m' = (if o_hbh m =? 0 then seq_next (c_hbh c) else o_hbh m) /\
    o_e2e m' = (if o_e2e m =? 0 then seq_next (n_e2e n) else o_e2e m) /\
    (exists c4, get_conn n4 cid = Some c4 /\
                c_hbh c4 = (if o_hbh m =? 0 then seq_next (c_hbh c) else c_hbh c) /\
                c_out c4 = (c_out c ++ [m'])%list /\ c_state c4 = c_state c) /\
    n_e2e n4 = (if o_e2e m =? 0 then seq_next (n_e2e n) else n_e2e n) /\
    List.In (o_hbh m', o_e2e m', i) (n_app_waiting n4).
Proof. exact (@NodeC.C10_request_shape n ds i m realm pick timeout n' outs). Qed.

(* C10: whatever is handed to a connection is a request; it is either the I/O thread's own
   CER / DWR, or the application's request and then the connection is the one of the peer
   selected from route_request's list (the only one, or the pick-th modulo the length) *)
Theorem C10_eligible n ds i m realm pick timeout n' outs cid m' :
  step n ds (EAppRequest i m realm pick timeout) = (n', outs) ->
  List.In (OQueue cid m') outs ->
  o_req m' = true /\
  (own_req m' \/
   exists usable p,
     route_request n i realm = Some usable /\ List.In p usable /\ p_conn p = Some cid /\
     (forall q, usable = [q] -> p = q) /\
     (List.length usable <> 1%nat -> List.nth_error usable (Nat.modulo pick (List.length usable)) = Some p) /\
     o_cmd m' = o_cmd m /\ o_tag m' = o_tag m).
Proof. exact (@NodeC.C10_eligible n ds i m realm pick timeout n' outs cid m'). Qed.

(* C10: no route, or no usable peer: NotRoutable and nothing else *)
Theorem C10_none_is_error n ds i m realm pick timeout :
  route_request n i realm = None \/ route_request n i realm = Some [] ->
  step n ds (EAppRequest i m realm pick timeout) = (fst (e2e_prep n m), [ONotRoutable]).
Proof. exact (@NodeC.C10_none_is_error n ds i m realm pick timeout). Qed.

(* C10: a hop-by-hop id left 0 by the caller is drawn from the chosen connection's generator:
   it is the successor of the generator state, the state is advanced to it, it lies in
   1 .. 2^32-1 (so it is not 0) and differs from the previous state (so from the previous draw) *)
Theorem C10_hbh_fresh n ds i m realm pick timeout n' outs :
  step n ds (EAppRequest i m realm pick timeout) = (n', outs) ->
  o_hbh m = 0 -> outs <> [ONotRoutable] ->
  exists cid c m' rest n4 c4,
    outs = OQueue cid m' :: rest /\ get_conn n cid = Some c /\
    o_hbh m' = seq_next (c_hbh c) /\
    settle_app' n4 ds = (n', rest) /\ get_conn n4 cid = Some c4 /\ c_hbh c4 = seq_next (c_hbh c) /\
    (1 <= c_hbh c <= 4294967295 ->
     1 <= o_hbh m' <= 4294967295 /\ o_hbh m' <> 0 /\ o_hbh m' <> c_hbh c /\
     seq_next (c_hbh c4) <> o_hbh m').
Proof. exact (@NodeC.C10_hbh_fresh n ds i m realm pick timeout n' outs). Qed.

(* C10: an answer is handed to the blocked caller of the application that sent the request
   (and to no other application), or reported as unexpected to that application when nobody is
   blocked on it any more; an answer nobody asked for produces nothing.  In the first two
   cases the record is dropped. *)
Theorem C10_correlation n m :
  (forall i a, aw_lookup n m = Some i -> List.nth_error (n_apps n) i = Some a ->
     (mem_z (m_hbh m) (List.map fst (a_waiting a)) = true ->
      exists n', recv_app_answer n m = (n', [OAnswerTo i m]) /\ aw_lookup n' m = None /\
                 (exists a', List.nth_error (n_apps n') i = Some a' /\
                             mem_z (m_hbh m) (List.map fst (a_waiting a')) = false) /\
                 (forall j, j <> i -> List.nth_error (n_apps n') j = List.nth_error (n_apps n) j)) /\
     (mem_z (m_hbh m) (List.map fst (a_waiting a)) = false ->
      exists n', recv_app_answer n m = (n', [OUnexpected i m]) /\ aw_lookup n' m = None /\
                 n_apps n' = n_apps n)) /\
  (aw_lookup n m = None -> recv_app_answer n m = (n, [])).
Proof. exact (@NodeC.C10_correlation n m). Qed.

(* C10: a second copy of an answer is ignored *)
Theorem C10_duplicate_ignored n m i a n1 o1 :
  aw_lookup n m = Some i -> List.nth_error (n_apps n) i = Some a ->
  recv_app_answer n m = (n1, o1) ->
  (o1 = [OAnswerTo i m] \/ o1 = [OUnexpected i m]) /\ recv_app_answer n1 m = (n1, []).
Proof. exact (@NodeC.C10_duplicate_ignored n m i a n1 o1). Qed.
End FromNodeC.

Module FromNodeF.
Import DV.Prelude.Base DV.Model.Node DV.Proofs.NodeC DV.Proofs.NodeF.
Import Coq.micromega.Lia.
Local Open Scope Z_scope.

(* the trace agrees with run: same outputs, event by event *)
Theorem trace_run n evs :
  List.map snd (trace n evs) = snd (run n evs) /\ List.map fst (trace n evs) = List.map snd evs.
Proof. exact (@NodeF.trace_run n evs). Qed.

(* C10 (history): an answer handed to application i (to its blocked caller, or as unexpected) is preceded by a send_request of the SAME application i whose step handed a request with the answer's hop-by-hop and end-to-end ids to a connection *)
Theorem C10_history_answer_to_sender n0 evs tr1 e outs tr2 i m :
  n_app_waiting n0 = [] ->
  trace n0 evs = (tr1 ++ (e, outs) :: tr2)%list ->
  List.In (OAnswerTo i m) outs \/ List.In (OUnexpected i m) outs ->
  exists a realm pick tmo cid m' rest,
    List.In (EAppRequest i a realm pick tmo, OQueue cid m' :: rest) tr1 /\
    o_req m' = true /\ o_hbh m' = m_hbh m /\ o_e2e m' = m_e2e m.
Proof. exact (@NodeF.C10_history_answer_to_sender n0 evs tr1 e outs tr2 i m). Qed.

(* C10 (history): for every (hop-by-hop, end-to-end) pair, the node hands out no more answers with that pair than the applications sent requests with it *)
Theorem C10_history_answers_le_requests n0 evs h e :
  n_app_waiting n0 = [] -> (nans h e (trace n0 evs) <= nreq h e (trace n0 evs))%nat.
Proof. exact (@NodeF.C10_history_answers_le_requests n0 evs h e). Qed.

(* C10 (history): when the pairs of the requests the node sent are pairwise distinct, at most one answer with a given pair is handed to an application in the whole history (copies of an answer are ignored) *)
Theorem C10_history_answer_once n0 evs h e :
  n_app_waiting n0 = [] -> List.NoDup (req_keys (trace n0 evs)) ->
  (List.length (List.filter (ans_key h e) (List.concat (List.map snd (trace n0 evs)))) <= 1)%nat.
Proof. exact (@NodeF.C10_history_answer_once n0 evs h e). Qed.

(* C10 (history): at every send_request of the history, either nothing but NotRoutable happens, or the request is the first output, it is handed to a connection that is ready in the state in which the event starts, and everything after it is the I/O thread's own doing (its CER / DWR, writes, closes, dials) *)
Theorem C10_history_requests_only_to_ready n0 evs nk i a realm pick tmo outs :
  List.In (nk, (EAppRequest i a realm pick tmo, outs)) (strace n0 evs) ->
  outs = [ONotRoutable] \/
  exists cid c m' rest,
    outs = OQueue cid m' :: rest /\ List.Forall (sysout (pmap nk)) rest /\
    o_req m' = true /\ o_cmd m' = o_cmd a /\ o_tag m' = o_tag a /\
    get_conn nk cid = Some c /\ is_ready_state (c_state c) = true.
Proof. exact (@NodeF.C10_history_requests_only_to_ready n0 evs nk i a realm pick tmo outs). Qed.

(* C10 (history): whatever is handed to a connection during a send_request is a request; unless it is one of the I/O thread's own CER / DWR, the connection is ready in the state in which the event starts *)
Theorem C10_history_requests_only_to_ready_in n0 evs nk i a realm pick tmo outs cid m' :
  List.In (nk, (EAppRequest i a realm pick tmo, outs)) (strace n0 evs) ->
  List.In (OQueue cid m') outs ->
  o_req m' = true /\
  (own_req m' \/ exists c, get_conn nk cid = Some c /\ is_ready_state (c_state c) = true).
Proof. exact (@NodeF.C10_history_requests_only_to_ready_in n0 evs nk i a realm pick tmo outs cid m'). Qed.
End FromNodeF.

Print Assumptions FromNodeC.route_request_spec.
Print Assumptions FromNodeC.C10_request_shape.
Print Assumptions FromNodeC.C10_eligible.
Print Assumptions FromNodeC.C10_none_is_error.
Print Assumptions FromNodeC.C10_hbh_fresh.
Print Assumptions FromNodeC.C10_correlation.
Print Assumptions FromNodeC.C10_duplicate_ignored.
Print Assumptions FromNodeF.trace_run.
Print Assumptions FromNodeF.C10_history_answer_to_sender.
Print Assumptions FromNodeF.C10_history_answers_le_requests.
Print Assumptions FromNodeF.C10_history_answer_once.
Print Assumptions FromNodeF.C10_history_requests_only_to_ready.
Print Assumptions FromNodeF.C10_history_requests_only_to_ready_in.
