"""C15 — outbound bytes = queued messages concatenated FIFO, intact, exactly once."""
from __future__ import annotations

import ast
import errno
import random

import nodesim as NS
import translate
import vlib
from vsim import Sim
from diameter.message import Message
from diameter.message.commands import CreditControlRequest

FILES = ["Link/LinkWrite.v", "Props/C15.v"]


class Unencodable(Message):
    """a message whose encoding fails at once (as_bytes raises before anything was packed)"""
    def as_bytes(self):
        raise ValueError("cannot encode")


def _spoil(m):
    """make the library's OWN encoder fail half-way through the message: after its regular AVPs comes one whose vendor id
    does not fit 32 bits.  Whatever was packed for it must not leak into the next message."""
    from diameter.message.avp import Avp
    bad = Avp()
    bad.code = 999
    bad.vendor_id = 1 << 33
    bad.payload = b"\x01\x02\x03\x04"
    m.append_avp(bad)
    m._verif_spoilt = True
    try:
        m.as_bytes()
    except Exception:   # noqa
        return m
    raise AssertionError("harness: the spoilt message encodes")


def _unencodable(m):
    return isinstance(m, Unencodable) or getattr(m, "_verif_spoilt", False)


def _msg(i, size):
    if size < 0:        # a watchdog request among the application messages: no message jumps the queue
        from diameter.message.commands import DeviceWatchdogRequest
        m = DeviceWatchdogRequest()
        m.header.hop_by_hop_identifier = 7000 + i
        m.header.end_to_end_identifier = 9000 + i
        m.origin_host = b"srv.example.net"
        m.origin_realm = b"example.net"
        return m
    m = CreditControlRequest()
    m.header.hop_by_hop_identifier = 7000 + i
    m.header.end_to_end_identifier = 9000 + i
    m.session_id = "s;%d;%s" % (i, "x" * size)
    m.origin_host = b"srv.example.net"
    m.origin_realm = b"example.net"
    m.destination_realm = b"example.net"
    m.auth_application_id = 4
    m.service_context_id = "ctx"
    m.cc_request_type = 1
    m.cc_request_number = i
    return m


def _window():
    """source lines of Node._handle_connections that touch the write buffer: from the emptiness test to the end of the
    `for wsock in ready_w` body.  Only there (and in the writer / producers) are scheduling decisions taken."""
    path, tree = translate._parse("node/node.py")
    fn = translate._find_func(translate._find_class(tree, "Node", path), "_handle_connections", path)
    for n in ast.walk(fn):
        if isinstance(n, ast.For) and isinstance(n.iter, ast.Name) and n.iter.id == "ready_w":
            lo = None
            for st in n.body:
                if isinstance(st, ast.If) and "write_buffer" in ast.dump(st.test):
                    lo = st.lineno
                    break
            if lo is None:
                lo = n.body[0].lineno
            return lo, n.body[-1].end_lineno
    return 0, 10 ** 9


class Scen:
    """one connected peer; producers queue messages on its connection"""
    def __init__(self, spec):
        self.spec = spec
        self.sim = sim = Sim(seed=1, t0=NS.T0)
        sim.script_random([77, 12345])
        N = sim.node_mod
        self.node = node = N.Node("srv.example.net", "example.net", ip_addresses=["10.0.0.1"], tcp_port=3868)
        app = sim.app_mod.SimpleThreadingApplication(4, is_auth_application=True, request_handler=lambda a, m: None)
        peer = node.add_peer("aaa://cli0.example.net", "example.net")
        node.add_application(app, [peer])
        node.start()
        sim.run()
        sim.script_random([1000])
        self.remote = r = sim.connect_in()
        sim.run()
        r.feed(NS.build_message(dict(kind="cer", host="cli0.example.net", hbh=1, e2e=1)))
        sim.run()
        r.take_sent()
        self.conn = next(iter(node.connections.values()))
        self.put_order = []
        q = self.conn._write_msg_queue
        real_put = q.put

        def put(m, *a, **kw):
            # the moment a message enters the connection's queue is what "queued" means; should the queue carry
            # wrappers (tuples, records) the message inside is what counts
            inner = m if isinstance(m, Message) else next((x for x in (m if isinstance(m, (tuple, list)) else ()) if isinstance(x, Message)), m)
            self.put_order.append(inner)
            return real_put(m, *a, **kw)
        q.put = put
        self.msgs = []
        for i, (size, good) in enumerate(spec["messages"]):
            m = _msg(i, size)
            if not good:
                if i % 2 and size >= 0:
                    _spoil(m)
                else:
                    m.__class__ = Unencodable
            self.msgs.append(m)
        r.script_send([tuple(x) if isinstance(x, list) else x for x in spec["sends"]])

    def launch(self, chooser):
        sim, conn = self.sim, self.conn
        P = sim.peer_mod.PeerConnection
        lo, hi = WINDOW
        self.decisions = []
        state = {"prev": None}

        def interesting(name):
            w = sim.where(name)
            if w is None:
                return True      # resumed from a blocking operation
            fn, func, line = w
            if func == "_handle_connections":
                return lo <= line <= hi
            if func == "as_bytes":
                # as_bytes does not touch the connection: one decision point inside it (between the load and the
                # store of `buf += msg.as_bytes()`) represents them all
                return line == AS_BYTES_FIRST
            return True

        def ch(runnable):
            prev = state["prev"]
            if prev in runnable and not interesting(prev):
                pick = prev
            else:
                # threads parked at an uninteresting line of the I/O loop are still candidates
                pick = chooser(list(runnable), prev)
            state["prev"] = pick
            return pick
        sim.line_mode([P.work_write_queue, P.remove_out_bytes, P.add_out_msg, Message.as_bytes,
                       sim.node_mod.Node._handle_connections], ch)
        for t, idxs in enumerate(self.spec["threads"]):
            def prod(idxs=idxs):
                for i in idxs:
                    conn.add_out_msg(self.msgs[i])
            sim.spawn(prod, name="P%d" % t)
        sim.run()
        # let soft errors be retried: the I/O loop re-selects only when woken, so nudge until the buffer drains
        for _ in range(50):
            if not conn.write_buffer and conn._write_msg_queue.empty():
                break
            sim.advance(1)

    def finish(self):
        conn = self.conn
        sent = self.remote.take_sent()
        expected = b"".join(Message.as_bytes(m) for m in self.put_order if not _unencodable(m))
        roles = self.sim.live_threads_by_role()
        obs = dict(sent=sent, expected=expected, left=bytes(conn.write_buffer), queued=conn._write_msg_queue.qsize(),
                   deaths=list(self.sim.thread_deaths), writer_alive=roles.get("work_write_queue", 0) >= 1,
                   n_put=len(self.put_order))
        self.sim.shutdown()
        return obs


WINDOW = (0, 10 ** 9)
_c = Message.as_bytes.__code__
AS_BYTES_FIRST = min(l for (_a, _b, l) in _c.co_lines() if l is not None and l > _c.co_firstlineno)


def closing_partial(run):
    """Output that is pending when a connection is told to close (the 3010 answer to an unknown peer's CER, the DPA): every
    pattern of partial writes still hands the whole encoding to the socket before the socket is closed."""
    for label, host, sends in (("CEA 3010 to an unknown peer", "stranger.example.org", [16, 16, 1, ("err", errno.EAGAIN), 7, "all"]),
                               ("CEA 3010 to an unknown peer", "stranger.example.org", [1] * 40 + ["all"]),
                               ("CEA 3010 to an unknown peer", "stranger.example.org", ["all"])):
        sim = Sim(seed=1, t0=NS.T0)
        try:
            sim.script_random([77, 12345])
            node = sim.node_mod.Node("srv.example.net", "example.net", ip_addresses=["10.0.0.1"], tcp_port=3868)
            app = sim.app_mod.SimpleThreadingApplication(4, is_auth_application=True, request_handler=lambda a, m: None)
            node.add_application(app, [node.add_peer("aaa://cli0.example.net", "example.net")])
            node.start()
            sim.run()
            sim.script_random([1000])
            r = sim.connect_in()
            sim.run()
            r.script_send([tuple(x) if isinstance(x, list) else x for x in sends])
            r.feed(NS.build_message(dict(kind="cer", host=host, hbh=1, e2e=1)))
            sim.run()
            for _ in range(8):
                if r.closed_by_node:
                    break
                sim.advance(1)
            sent = r.take_sent()
            run.count(1, [("closing-partial", label, len(sends))])
            whole = len(sent) >= 20 and int.from_bytes(sent[1:4], "big") == len(sent)
            rc = None
            if whole:
                try:
                    rc = getattr(Message.from_bytes(sent), "result_code", None)
                except Exception:   # noqa
                    whole = False
            if not whole or rc != 3010 or not r.closed_by_node or sim.thread_deaths:
                run.violation("stream", {"scenario": label, "sends": [str(x) for x in sends[:8]]},
                              {"bytes_handed_to_the_socket": len(sent), "one_whole_frame": whole, "result_code": rc, "closed": r.closed_by_node},
                              "the whole encoding of the pending answer, then the close",
                              what="output pending on a closing connection reaches the socket truncated (or not at all)")
        finally:
            sim.shutdown()


def run_schedule(spec, prefix, record):
    """run the scenario following `prefix` (thread names at decision points), then run-to-completion without switching.
    record: list receiving (runnable, chosen, preemptions so far)"""
    s = Scen(spec)

    def chooser(runnable, prev):
        i = len(record)
        pre = record[-1][2] if record else 0
        if i < len(prefix) and prefix[i] in runnable:
            c = prefix[i]
        else:
            c = prev if prev in runnable else runnable[0]
        p = pre + (1 if (prev in runnable and c != prev) else 0)
        record.append((runnable, c, p))
        return c
    try:
        s.launch(chooser)
    except Exception as e:   # noqa
        try:
            s.sim.shutdown()
        except Exception:   # noqa
            pass
        return dict(error=f"{type(e).__name__}: {e}")
    return s.finish()


def judge(o):
    if "error" in o:
        return "harness: " + o["error"]
    if o["deaths"]:
        return f"thread {o['deaths'][0][0]} died: {o['deaths'][0][1]}"
    if not o["writer_alive"]:
        return "the connection's writer thread is gone"
    if o["sent"] != o["expected"]:
        s, e = o["sent"], o["expected"]
        k = next((i for i in range(min(len(s), len(e))) if s[i] != e[i]), min(len(s), len(e)))
        return (f"bytes handed to the socket differ from the queued encodings at offset {k} "
                f"(sent {len(s)} bytes, expected {len(e)}; {len(o['left'])} left in the buffer, {o['queued']} messages still queued)")
    return None


def explore(run, spec, max_pre, cap, rng=None):
    """all schedules with <= max_pre pre-emptions (depth first), at most `cap`"""
    stack = [[]]
    n = 0
    run.extra.setdefault("exhausted_specs", 0)
    run.extra.setdefault("capped_specs", 0)
    while True:
        if not stack:
            run.extra["exhausted_specs"] += 1
            break
        if n >= cap:
            run.extra["capped_specs"] += 1
            break
        prefix = stack.pop() if rng is None else stack.pop(rng.randrange(len(stack)))
        rec = []
        o = run_schedule(spec, prefix, rec)
        n += 1
        sched = [d[1] for d in rec]
        multi = len(set(sched)) > 1
        run.count(1, [("sched", tuple(sched))] if multi else ())
        why = judge(o)
        if why:
            run.violation("stream", dict(spec, schedule=sched), why, "sent == concatenation of encodable messages in queueing order",
                          what=why)
            return n
        for i in range(len(prefix), len(rec)):
            runnable, chosen, _p = rec[i]
            prev = rec[i - 1][1] if i else None
            before = rec[i - 1][2] if i else 0
            for alt in runnable:
                if alt == chosen:
                    continue
                if before + (1 if (prev in runnable and alt != prev) else 0) > max_pre:
                    continue
                stack.append(sched[:i] + [alt])
    return n


def random_schedule(run, spec, rng, p_switch):
    rec = []
    s = Scen(spec)

    def chooser(runnable, prev):
        if prev in runnable and rng.random() > p_switch:
            c = prev
        else:
            c = rng.choice(runnable)
        rec.append((runnable, c, 0))
        return c
    try:
        s.launch(chooser)
        o = s.finish()
    except Exception as e:   # noqa
        try:
            s.sim.shutdown()
        except Exception:   # noqa
            pass
        o = dict(error=f"{type(e).__name__}: {e}")
    sched = [d[1] for d in rec]
    run.count(1, [("sched", tuple(sched))])
    why = judge(o)
    if why:
        run.violation("stream", dict(spec, schedule=sched), why, "sent == concatenation of encodable messages in queueing order", what=why)


def gen_spec(rng, big=False):
    nm = rng.randrange(2, 7 if big else 5)
    nt = rng.randrange(1, 4)
    msgs = [(rng.choice([0, 3, 40, -1]), rng.random() > 0.2) for _ in range(nm)]
    threads = [[] for _ in range(nt)]
    for i in range(nm):
        threads[rng.randrange(nt)].append(i)
    threads = [t for t in threads if t]
    sends = []
    for _ in range(rng.randrange(0, 10)):
        k = rng.random()
        if k < 0.25:
            sends.append(("err", rng.choice([errno.EAGAIN, errno.EINTR, errno.ENOBUFS])))
        elif k < 0.85:
            sends.append(rng.choice([1, 2, 7, 19, 20, 21, 60, 100, 150]))
        else:
            sends.append("all")
    return dict(messages=msgs, threads=threads, sends=sends)


def check(run):
    global WINDOW
    thorough = run.tier == "thorough"
    rng = random.Random(run.seed)
    run.rule = ("the real node under vsim with one connected peer; 2..6 messages (some unencodable) queued from 1..3 producer "
                "threads; scripted partial writes and soft errors on the virtual socket; pre-emption before every source line "
                "of work_write_queue, remove_out_bytes, add_out_msg, Message.as_bytes and the send window of the I/O loop; "
                "all schedules with <= N pre-emptions (N = 2 quick / 3 thorough, capped) plus random schedules; oracle: bytes "
                "accepted by the socket == concatenation of the encodable messages in put order; non-trivial = schedule in "
                "which more than one thread ran")
    run.assumptions = ["pre-emption points are source lines, including those of Message.as_bytes (which runs between the "
                       "load and the store of `buf += msg.as_bytes()`)",
                       "lock and queue semantics as implemented by vsim"]
    run.obligations(FILES)
    try:
        WINDOW = _window()
    except translate.TranslationError as e:
        run.notes.append(f"send window not located: {e}")
    fixed = [
        dict(messages=[(0, True), (3, True)], threads=[[0, 1]], sends=[5, ("err", errno.EAGAIN), 30]),
        dict(messages=[(0, True), (0, False), (3, True)], threads=[[0], [1, 2]], sends=[1, 200, ("err", errno.EINTR), 7]),
        dict(messages=[(3, True), (0, True), (40, True)], threads=[[0], [1], [2]], sends=[20, 21, ("err", errno.ENOBUFS), "all"]),
        dict(messages=[(40, True), (3, True), (-1, True), (0, True)], threads=[[0, 1, 2, 3]], sends=[("err", errno.EAGAIN), 9, "all"]),
    ]
    total = 0
    pre = 3 if thorough else 2
    cap = 6000 if thorough else 350
    for spec in fixed:
        total += explore(run, spec, pre, cap)
        if run.violations:
            break
    nspec = 40 if thorough else 8
    for _ in range(nspec):
        if run.violations:
            break
        spec = gen_spec(rng, big=True)
        total += explore(run, spec, pre, 600 if thorough else 40, rng=rng)
    for _ in range(2000 if thorough else 150):
        if run.violations:
            break
        random_schedule(run, gen_spec(rng, big=True), rng, rng.choice([0.05, 0.2, 0.5]))
        total += 1
    run.extra["schedules_explored"] = total
    closing_partial(run)
    if (run.broken or run.mismatches) and not run.violations and not thorough:
        run.notes.append("obligation broken: escalating the schedule search")
        for spec in fixed:
            explore(run, spec, 3, 4000)
            if run.violations:
                break
    return run.finish(known_matcher=lambda v, k: False)


def replay(r):
    global WINDOW
    WINDOW = _window()
    case = r["case"]
    spec = {k: case[k] for k in ("messages", "threads", "sends")}
    rec = []
    o = run_schedule(spec, list(case.get("schedule", [])), rec)
    why = judge(o)
    print("replay:", why or "stream intact")
    return why is None
