(* Tie between the source of Application.send_request / receive_answer and the two thread programs of Model/Handoff.v
   (C10, the part about schedules). *)
From DV Require Import Prelude.Base Model.Handoff Gen.GenHandoff.

Theorem sender_prog_is_source : sender_prog_gen = sender_prog.
Proof. reflexivity. Qed.

Theorem disp_prog_is_source : disp_prog_gen = disp_prog.
Proof. reflexivity. Qed.
