"""Regenerates /verif/MANIFEST.json from the table below (run after adding a check)."""
import json

NOTE_COMMON = ("Trusted: Coq 8.16.1 kernel + vm_compute; no axioms (Print Assumptions audited each run); "
               "translator/tables (tools/translate.py, tools/tables.py) and Prelude semantics of CPython primitives, "
               "both guarded by the differential correspondence; Python oracles and harness.")

CHECKS = {
 "C03": dict(
   engine="coq-codec",
   technique="Coq proof: attribute<->AVP generator/assigner model with shape/round-trip theorems; exhaustive class-table well-formedness by vm_compute over regenerated avp_def tables; differential correspondence on every definition",
   text=("Model/Defs.v mirrors generate_avps_from_defs / assign_attr_from_defs / UndefinedMessage attribute naming over the avp_def tables of all "
         "typed message classes and grouped containers, re-introspected each run. Link/LinkDefs.v: every class well-formed (each definition has a "
         "dictionary entry, grouped iff container, no duplicate attribute or key, no class-object defaults) modulo the recorded known finding "
         "(with a _refuted lemma). Link/LinkDecl.v: the attributes every class declares (annotations) are exactly the names its definitions use. Proofs/DefsP.v: shape of the generated AVP list, round trip and encode-decode-encode for shaped objects. "
         "Correspondence: every class x {none, each single attribute, random subsets, all} encoded/decoded/re-encoded, compared with a "
         "one-AVP-per-attribute reference and with the Coq model; commands without a typed class against undef_attrs."),
   design_ref="DESIGN.md section 6 C03",
   note=NOTE_COMMON),
 "C04": dict(
   engine="coq-codec",
   technique="Coq proof: totality, progress, no-over-read and linear step-count theorems for all byte strings; translated exception-handler table of every typed getter closed by vm_compute; systematic hostile-input correspondence",
   text=("Props/C04.v: every decoder returns or raises ConversionError/AvpDecodeError for ALL inputs (fuel never runs out), each AVP consumes >= 8 "
         "bytes + payload, remainders are suffixes, instrumented step counts are <= |input| (flat) and depth*|payload| (grouped). "
         "Link/LinkGetters.v: the (primitive, caught exceptions) table translated from every typed value getter lets nothing escape. PARTIAL for "
         "'never raises any other exception' outside the translated getters: observed on prefixes, bit flips, every length field x boundary "
         "values, every type x payload length 0..20, random bytes, nesting 16 (6.4k quick), not proved."),
   design_ref="DESIGN.md section 6 C04",
   note=NOTE_COMMON + " Stray CPython exceptions in code that is not translated can only be observed."),
 "C05": dict(
   engine="coq-node",
   technique="Coq proof: chunking-invariance by induction over reads, progress for every buffer, trichotomy; refutation witnesses for the pre-repair loop; correspondence on the real work_read_queue over exhaustive 1-/2-cuts",
   text=("Model/Framing.v transcribes work_read_queue's reassembly loop; Proofs/FramingP.v proves for all frame lists and ALL ways of cutting the "
         "stream that exactly the decodable frames are delivered in order, once, and that no buffer whatever makes the loop spin; the loop as it was "
         "before the repair is refuted by witnesses. Correspondence: the real PeerConnection.work_read_queue is driven with every 1-cut (and 2-cut "
         "for short streams), byte-at-a-time, random cuts, corrupted length fields at every position; delivered sequence, close, leftover buffer and "
         "spin compared with the model (5.6k pairs quick). The same at socket level: a running node under vsim fed streams cut around its recv size, in both ready sub-states."),
   design_ref="DESIGN.md section 6 C05",
   note=NOTE_COMMON + " The message handler is assumed not to raise (C14)."),
 "C01": dict(
   engine="coq-codec",
   technique="Coq proof: RFC 6733 layout and round-trip theorems over a byte-level model (unbounded payloads), exhaustive dictionary table obligations by vm_compute; differential correspondence on every dictionary entry",
   text=("Theorems (Props/C01.v): enc_avp is exactly the RFC 6733 4.1 layout, length/padding/V-bit facts, dec(enc a ++ rest) = (a, rest), "
         "re-encoding a decoded well-formed wire AVP reproduces the bytes, value-level round trips and rejections for every type "
         "(two's-complement ints, strict UTF-8 both directions, NTP-era Time with the 2036 rollover, Address family prefix), all for "
         "unbounded sizes. Known finding C01-time-wrap is carried as C01_time_rejects_refuted + _partial. Dictionary obligations "
         "(Link/LinkDict.v): every entry consistent and reachable, exhaustive. Tie: dictionary/constants regenerated each run; the model is "
         "evaluated in Coq on ~6.4k (quick) cases covering every (code,vendor) entry and compared with the implementation and an "
         "independent RFC reference encoder."),
   design_ref="DESIGN.md section 6 C01",
   note=NOTE_COMMON + " Modelled, not verified: inet_pton/ntop text forms, datetime<->seconds, double<->bits inside struct (observed by correspondence only)."),
 "C02": dict(
   engine="coq-codec",
   technique="Coq proof: header/message round-trip theorems, dispatch lemma for any registry + exhaustive registry table obligations (vm_compute); differential correspondence incl. find_avps sequences",
   text=("Theorems (Props/C02.v): header is the RFC layout and round-trips in both directions for all field values; the length field equals "
         "the byte count; generic decode of an encoded message returns the same header and AVP sequence (any number of AVPs); decoded "
         "flags are the received flags; class dispatch for ANY registry. Link/LinkRegistry.v: for every registered command code the "
         "<Base>Request/<Base>Answer rule and forced command codes hold (exhaustive). find_avps = declarative path search and cache "
         "transparency: Proofs/FindP.v. Correspondence: every registered code x R bit, unknown codes, messages up to 64 KiB, typed and "
         "plain decode, re-encode, path sequences, all evaluated by the Coq model."),
   design_ref="DESIGN.md section 6 C02",
   note=NOTE_COMMON + " AVP-sequence identity is stated for the generic decode (typed classes regenerate their AVP list from attributes: C03)."),
 "C20": dict(
   engine="coq-codec",
   technique="Coq proof: to_answer header/flag/class theorems for any class table + exhaustive table obligations over every Message subclass (vm_compute); exhaustive differential correspondence over classes x flag octets",
   text=("Theorems (Props/C20.v, Link/LinkRegistry.v C20_every_library_class): for every class the library defines and every header "
         "(all flag values, all ids) the answer has the paired answer class by the declarative rule, copies version/code/app/hop-by-hop/"
         "end-to-end, keeps P and clears R/E/T. Class tables (MRO, subclasses, __post_init__ flag masks on all 256 octets, forced codes) are "
         "re-introspected each run. Correspondence: every class x 16 (quick) / 256 (thorough) flag octets x boundary ids through the real "
         "to_answer vs the Coq model; Node._generate_answer / Application.generate_answer origin/session/proxy copying by oracle."),
   design_ref="DESIGN.md section 6 C20",
   note=NOTE_COMMON),
 "C16": dict(
   engine="coq-conc",
   technique="Coq proof: inductive invariant over all interleavings of translated step programs + closed form of the counter; Link lemmas by reflexivity; line-level schedule replay as correspondence",
   text=("Theorems (Props/C16.v): closed form of k successive draws, pairwise distinct until wrap, never zero, wrap to 1, "
         "e2e initial value layout, session-id format and injectivity, and uniqueness for ANY number of threads/draws and ANY "
         "interleaving of the line-granular step programs (inductive invariant). The step programs and constants are "
         "regenerated from node/_helpers.py on every run and tied to the model by Link lemmas (reflexivity); the real "
         "generators are run under all schedules with <=3 pre-emptions and each trace is replayed on the Coq machine."),
   design_ref="DESIGN.md section 6 C16",
   note=NOTE_COMMON + " Pre-emption granularity = source lines (as the property states).")
}

NODE_TECH = ("Coq proof over an executable state-machine model of the node (Model/Node.v); state-for-state correspondence with the real "
             "diameter.node under the deterministic harness tools/vsim after every event of adaptive random histories; property oracle on the implementation trace")
NODE_NOTE = (NOTE_COMMON + " Modelled, not verified: the node model is hand-written (macro-step semantics: one external event, then the I/O thread and "
             "reader threads run to quiescence); its tie to the code is the state-by-state correspondence (peers, connections, tables, outputs, "
             "threads, sockets) on generated histories, whose generator quality bounds it. vsim (virtual time/sockets/select/threads) is trusted.")


def node(pid, what, thms, extra=""):
    return dict(engine="coq-node", technique=NODE_TECH + ("; " + extra if extra else ""),
                text=f"Props/{pid}.v ({thms}). {what}", design_ref=f"DESIGN.md section 6 {pid}", note=NODE_NOTE)


CHECKS.update({
 "C06": node("C06", "Gate: in CONNECTED only a CE message of the expected direction is dispatched, in CLOSING/CLOSED nothing; CER of a known peer with a "
             "common application (or relay) -> CEA 2001 + READY, unknown peer -> 3010 + CLOSING then closed once flushed, nothing shared -> 5010 and "
             "state unchanged; outbound connection queues its CER first; CEA other than 2001 closes; CER/CEA timeout closes; a connection becomes "
             "ready only through a good CER / CEA 2001 (direction-exact from CONNECTED).",
             "C06_gate_connected/_closing, C06_cer_known/_unknown/_no_common/_election_won/_election_lost/_ignored_unless_connected, C06_unknown_then_closed, "
             "C06_outbound_first_is_cer, C06_cea_accepted/_rejected/_wrong_identity/_without_origin/_ignored_unless_connected, C06_timeout, "
             "C06_ready_only_from_connected, C06_direction(_inbound/_outbound), C06_cea_never_revives; over whole histories (Proofs/NodeH.v): C06_history_gate, "
             "C06_history_gate_connected (C06_history_gate_ready_refuted: the gate is also open in DISCONNECTING)"),
 "C07": node("C07", "One dispatched message yields at most one queued message, an answer on the same connection to a REQUEST with its command/app/ids; a "
             "non-request is never answered; events other than a network read or an application answer queue requests only; every dispatched request that "
             "passes the gate is answered or delivered.",
             "C07_dispatch_answers, C07_no_answer_to_answer, C07_answers_only_from, C07_dispatch_all_answers; over whole histories: C07_history_node_answers, "
             "C07_history_app_answers, C07_history_answers_le_requests, C07_history_at_most_once, C07_history_no_answer_to_answer; Link/LinkWrite.v (the write path hands every queued answer to the socket exactly once: translated thread programs) with the C15 schedule search behind it"),
 "C08": node("C08", "route_app refines a declarative routing specification (realm, application id, peer configured for the app); a delivered message goes to "
             "exactly one application, base-protocol commands are never delivered, nothing is delivered unless the gate passes.",
             "C08_route_refines, C08_exactly_once, C08_base_never_delivered, C08_gate_then_route"),
 "C09": node("C09", "An application's answer is handed to exactly one READY connection under whose host identity the (hop-by-hop, end-to-end) pair was "
             "waiting, otherwise NotRoutable; entries arise only from delivered requests; second submission fails; entries go with the connection.",
             "C09_answer_shape, C09_to_requester, C09_entry_from_delivery, C09_entry_host, C09_gone_is_error, C09_second_fails, C09_second_is_error, C09_removed_on_close, C09_unroutable_releases_origin; over whole histories: C07_history_app_answers (the answer goes out on the connection that read the request); "
             "the atomic submission step is checked against every line interleaving (bounded pre-emptions) of concurrent route_answer/send_message calls"),
 "C10": node("C10", "route_request refines its specification (application's peers for the realm, else defaults, ready only); the request goes to a peer "
             "chosen from the usable list, identifiers fresh from the generators (bridge to the C16 counter theorems), NotRoutable when none; the "
             "answer is correlated to the recorded application once, duplicates ignored.",
             "route_request_spec, C10_request_shape, C10_eligible, C10_none_is_error, C10_hbh_fresh, C10_correlation, C10_duplicate_ignored; over whole histories: "
             "C10_history_answer_to_sender, C10_history_answer_once, C10_history_requests_only_to_ready",
             extra="Link/LinkIds.v ties the hop-by-hop generator to node/_helpers.py; concurrent senders are searched with the C16 schedule exploration; the hand-over of an answer to the blocked sender is a second Coq model (Model/Handoff.v: the statements of send_request and receive_answer as two thread programs regenerated from application.py by tools/translate.py, Link/LinkHandoff.v by reflexivity) with theorems for every schedule (Props/C10Handoff.v: C10_handoff_never_raises, _handler_only_after_timeout, _sender_gets_answer, _final, _sender_wakes, _no_timeout_answer; _send_first_refuted, _test_then_index_refuted, _set_first_refuted) proved by a computed, closed finite reachable set lifted by induction on the schedule; behind it the real send_request / receive_answer / send_message run under every source-line interleaving with <= 1-2 pre-emptions (tools/racelib.py: 700 schedules quick, 7000 thorough) as failing-input search"),
 "C11": node("C11", "check_timers unfolded as a decision table over state x timers with per-peer override; exactly one DWR when idle, none while waiting, "
             "DWA restores READY, silence closes with the watchdog reason, no DWR while traffic arrives, DWR answered 2001 in both ready sub-states, "
             "timer check idempotent.",
             "check_timers_unfold, C11_peer_overrides, C11_idle_sends_one, C11_no_second_dwr, C11_dwa_restores, C11_silence_closes, C11_no_dwr_while_busy, C11_dwr_answered, C11_timers_idempotent; over whole histories (Proofs/NodeH.v): C11_history_one_dwr (a DWA is read between any two DWRs of a connection), C11_history_quiet_until_dwa"),
 "C12": node("C12", "DPR -> DPA 2001, DISCONNECTING (not offered by route_request), reason recorded; reconnect_all dials exactly the peers satisfying the "
             "declarative policy (persistent, no connection, wait elapsed, not after DPR unless always-reconnect, not stopping); non-persistent "
             "peers are never dialled by any event; invariant: at most one self-initiated connection per peer in every reachable state.",
             "C12_dpr, C12_dpr_not_routed, C06_cea_never_revives, wants_reconnect_spec, C12_reconnect_iff, C12_never_nonpersistent, C12_dial_needs_no_connection, C12_outbound_owned, C12_single_outbound, C12_history_no_routing_after_dpr"),
 "C13": node("C13", "Inductive invariants over every reachable state, proved per atomic step of a decomposition of the model: connection ids unique, "
             "socket / half-ready tables are subsets of the connections, a closed connection is in no table and stays closed, removal sets disconnect "
             "reason and time; peer.connection references a live connection of that peer, conversely a ready connection of a peer IS its connection, "
             "at most one established connection per peer (election), no connections => no table entries and no peer.connection. The last group holds "
             "under two stated hypotheses (no peer named the empty string; a second CER with another Origin-Host after a 5010 on the same connection is "
             "excluded - the property text leaves second CERs unspecified), each shown necessary by a vm_compute witness.",
             "I_ids, C13_tables_subset, C13_closed_nowhere, C13_closed_stays_closed, C13_reason_set, remove_conn_sets_reason, C13_peer_conn_live(_strong), "
             "C13_peer_conn_exact, C13_one_conn_per_peer, C13_no_conns_no_peer_conn, C13_election_clears_rivals, C13_ready_flag_partial/_removed, "
             "cer_guard_syn_sufficient, *_refuted witnesses"),
 "C14": dict(engine="coq-node",
             technique="Coq proof: inductive invariant of the threading application's slot/queue transition system over every interleaving and handler outcome; correspondence of the real ThreadingApplication under vsim with the model after every event; fault histories with thread-death observation",
             text=("Props/C14.v: slots held = handlers running + responses queued in every reachable state; capacity returns; both consumers survive every "
                   "handler outcome and unroutable answers; thread limit respected. Correspondence: random histories (answer / none / raise / slow "
                   "handlers, limits 0..3, connection loss, clock) compared with Model/Slots.v after every event; node fault histories: no thread "
                   "death, no spin; serve-after-fault probe (incl. two connections breaking in one I/O round, stalled handshakes closed by the timer; one reader and one writer per live connection afterwards). PARTIAL: absence of exceptions the model does not contain is observed, not proved."),
             design_ref="DESIGN.md section 6 C14", note=NODE_NOTE),
 "C15": dict(engine="coq-conc",
             technique="Coq proof: inductive invariant over ALL interleavings (load/store granularity) of the writer and I/O thread programs translated from the source, for all partial-write/soft-error patterns and any encoder; Link lemmas by reflexivity; bounded-preemption schedule exploration of the real node as failing-input search",
             text=("Props/C15.v: accepted bytes are always a prefix of the concatenated encodings of the stored messages; messages are stored in queueing "
                   "order; at quiescence the stream equals the concatenation of the encodable messages, each once; an unencodable message contributes "
                   "nothing and leaves the writer unblocked with the lock free; without the lock the statement is refuted (witness schedules). The two "
                   "thread programs are regenerated from peer.py/node.py each run (Gen/GenWrite.v) and proved equal to the model's. Exploration: the real "
                   "node under vsim, pre-emption before every line of the writer, remove_out_bytes, add_out_msg, inside as_bytes and in the send window, "
                   "scripted partial writes / EAGAIN / EINTR / ENOBUFS, 1..3 producers."),
             design_ref="DESIGN.md section 6 C15",
             note=NOTE_COMMON + " The meaning of each micro-instruction (attribute load/store, lock, queue, socket send accepting 1..n bytes) is the model's; SCTP send is not exercised."),
 "C17": node("C17", "The per-origin window is a bounded FIFO: append keeps the newest `size` identifiers in order, membership after a record, duplicates "
             "answered exactly when (T flag and identifier still in the window).",
             "bounded_append_spec, C17_window, C17_sa_mem_get, C17_sa_nodup, C17_dup_iff, C17_record; over whole histories: C17_history_window, "
             "C17_history_duplicate_rejected, C17_history_no_false_duplicate",
             extra="the recording step under concurrency is a second Coq model (Model/Record.v: the statements of Node._record_answer on _sent_answers regenerated from node.py by tools/translate.py, Link/LinkRecord.v by reflexivity) with C17_record_every_schedule (Props/C17Record.v: every schedule of two recording threads, any identifiers, any initial window: nothing raises, both identifiers recorded; inductive invariant) and C17_record_test_then_create_refuted; behind it the real Node._record_answer is run under every source-line interleaving of 2-4 answering threads with <= 1-2 pre-emptions, followed by T-flagged repeats (tools/racelib.py) - a search, not a proof"),
 "C18": node("C18", "stop: one DPR to every ready connection (none when forced), stopping flag; while stopping no timers fire, nothing is dialled, newcomers "
             "are closed unserved; DPA closes once output is flushed; stop-finish closes every connection.",
             "C18_dpr_to_ready, C18_quiet_while_stopping, C18_newcomers_refused, C18_all_closed, C18_close_after_dpa; over whole histories (Proofs/NodeH.v): "
             "C18_history_stopping_is_forever, C18_history_quiet, C18_history_newcomers_refused (C18_history_quiet_start_refuted / _conn_done_refuted: the two exceptions)",
             extra="thread termination and socket closure are observed on the implementation (threads are not in the model): partial"),
 "C19": node("C19", "Bounded windows in every reachable state; per-connection and per-transaction entries leave the tables with the connection / the answer. "
             "Every entry of the origin table is backed by an entry of the per-host waiting table in every reachable state (C19_origin_backed), so all four transaction tables are empty once no connection is left. Implementation: 29 kinds of transaction / connection-attempt histories at N = 1, 10, 100 (1000 thorough); sizes of all containers reachable "
             "from the Node (structural discovery), live threads by role and unclosed sockets must not depend on N.",
             "C19_windows_bounded, C19_waiting_hosts, C19_no_conns_no_waiting, C19_no_conns_no_tables, C19_origin_backed, C19_no_conns_no_origin (C19_origin_backed_request_flag_refuted: needed discipline), C09_unroutable_releases_origin, C13_closed_stays_closed, C09_removed_on_close, C10_correlation, C10_duplicate_ignored",
             extra="N-scaling comparison of retained objects and threads on the real node (threads and sockets are outside the model: partial)"),
})

NOT_YET = "check not yet built in this revision (planned, see DESIGN.md section 6)"


def main():
    props = [json.loads(l) for l in open('/verif/properties.jsonl')]
    checks = []
    for p in props:
        pid = p["id"]
        if pid not in CHECKS:
            continue
        c = CHECKS[pid]
        checks.append({
            "property_id": pid,
            "quick_cmd": f"./check {pid} --tier quick",
            "thorough_cmd": f"./check {pid} --tier thorough",
            "evidence_file": f"evidence/{pid}.json",
            "replay_cmd_template": "./check replay {path}",
            "engine": c["engine"],
            "level_claimed": {"category": "proof", "text": c["text"], "design_ref": c["design_ref"]},
            "level_note": c["note"],
            "technique": c["technique"],
        })
    m = {"version": 1,
         "setup_cmd": "./check setup",
         "hooks": {"guard": "DIAMETER_VERIF",
                   "enable": "no source hooks: instrumentation is applied from outside by module substitution (tools/vsim) and sys.settrace (tools/linesched); guard name reserved",
                   "baseline_off_cmd": "cd /repo && /venv/bin/python -m pytest -ra -q -p no:cacheprovider --timeout=900 --continue-on-collection-errors",
                   "source_commits": [], "add_only": True},
         "engines": [
             {"name": "coq-codec", "path": "coq/", "serves_properties": ["C01", "C02", "C03", "C04", "C20"],
              "kind_free_text": "Coq model of the wire codec + generated tables + differential correspondence"},
             {"name": "coq-conc", "path": "coq/", "serves_properties": ["C15", "C16"],
              "kind_free_text": "Coq step machine over translated line-level programs + schedule exploration of the real code"},
             {"name": "coq-node", "path": "coq/", "serves_properties": ["C05", "C06", "C07", "C08", "C09", "C10", "C11", "C12", "C13", "C14", "C17", "C18", "C19"],
              "kind_free_text": "Coq state-machine model of the node + deterministic harness (tools/vsim) correspondence"}],
         "checks": checks,
         "not_applicable": [{"property_id": p["id"], "reason": NOT_YET} for p in props if p["id"] not in CHECKS],
         "notes": "Machine-checked proof in Coq 8.16.1 over an executable model tied to /repo by regenerated tables / translated kernels and a differential correspondence check. See DESIGN.md."}
    json.dump(m, open('/verif/MANIFEST.json', 'w'), indent=1)


if __name__ == "__main__":
    main()
