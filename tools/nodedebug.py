"""usage: nodedebug.py <prop> <scenario seed>   -- show the first model/implementation disagreement"""
import os, re, sys, importlib, logging, shutil
sys.path.insert(0, '/verif/tools'); sys.path.insert(0, '/repo/src')
logging.disable(logging.CRITICAL)
import nodegen, nodesim as NS, nodecheck, vlib
prop, seed = sys.argv[1], int(sys.argv[2])
if len(sys.argv) > 3:
    # summary mode over a range of seeds
    mod = importlib.import_module(f"props.{prop.lower()}")
    NAMES = ["sends", "deliv", "unexp", "closed", "dials", "notroutable", "peers", "conns", "half", "sockpeers", "peer_waiting",
             "app_waiting", "origin_waiting", "sent_answers", "ready", "stopping"]
    cases, evs = [], []
    for sd in range(seed, int(sys.argv[3])):
        cfg, events, obs = nodegen.run_random(sd, mod.PROFILE, mod.W, mod.LENGTH)
        cases.append(NS.coq_case(cfg, events, obs)); evs.append(events)
    w = '/tmp/scratch/nd'; shutil.rmtree(w, ignore_errors=True); os.makedirs(w)
    out = vlib.eval_terms(w, nodecheck.PRE, [f"List.firstn 1 (check_run 0 (fst {c}) (snd {c}))" for c in cases])
    for sd, m, events in zip(range(seed, int(sys.argv[3])), re.findall(r"=\s*\[([^\]]*)\]", out), evs):
        m = m.strip()
        if m:
            k, code = divmod(int(m), 100000)
            e = events[k]
            fr = [NS.abstract(f)["cmd"] + ("R" if NS.abstract(f)["req"] else "A") for f in e.get("frames", [])]
            print(sd, "event", k, e["ev"], fr, [NAMES[i] for i in range(16) if code >> i & 1])
    sys.exit(0)
mod = importlib.import_module(f"props.{prop.lower()}")
cfg, events, obs = nodegen.run_random(seed, mod.PROFILE, mod.W, mod.LENGTH)
case = NS.coq_case(cfg, events, obs)
w = '/tmp/scratch/nd'; shutil.rmtree(w, ignore_errors=True); os.makedirs(w)
out = vlib.eval_terms(w, nodecheck.PRE, [f"check_run 0 (fst {case}) (snd {case})"])
codes = [int(x) for x in re.findall(r"\d+", out.split(":")[0])] if "=" in out else []
print("codes", codes)
NAMES = ["sends", "deliv", "unexp", "closed", "dials", "notroutable", "peers", "conns", "half", "sockpeers", "peer_waiting",
         "app_waiting", "origin_waiting", "sent_answers", "ready", "stopping"]
if codes:
    k, code = divmod(codes[0], 100000)
    print("first disagreement at event", k, [NAMES[i] for i in range(16) if code >> i & 1])
    for i in range(max(0, k - 3), k + 1):
        e = events[i]
        d = {kk: v for kk, v in e.items() if kk not in ("frames", "msg")}
        if "frames" in e:
            d["frames"] = [{kk: v for kk, v in NS.abstract(f).items() if kk in ("cmd", "req", "hbh", "e2e", "t", "origin", "result", "missing", "auth", "drealm", "app")} for f in e["frames"]]
        if "msg" in e:
            d["answer_for"] = (e["msg"].header.hop_by_hop_identifier, e["msg"].header.end_to_end_identifier)
        print(i, d)
    o = obs[k]
    print("IMPL outputs:", {kk: v for kk, v in o.items() if kk != "snap" and v})
    print("IMPL snap:", o["snap"])
    pre = f"(List.map fst (snd {case}))"
    t = (f"let r := run (fst {case}) (List.firstn {k + 1} {pre}) in "
         f"(List.last (snd r) [], snap_peers (fst r), snap_conns (fst r), n_half_ready (fst r), n_socket_peers (fst r), "
         f"n_peer_waiting (fst r), n_app_waiting (fst r), n_origin_waiting (fst r), n_sent_answers (fst r), List.map a_ready (n_apps (fst r)), n_now (fst r), n_io_deadline (fst r))")
    print("MODEL:", vlib.eval_terms(w, nodecheck.PRE, [t])[:3000])
print("cfg:", {k: v for k, v in cfg.items()})
