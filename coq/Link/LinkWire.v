(* Tie 1 for the codec family: introspected constants coincide with the model's. *)
From DV Require Import Prelude.Base Model.Wire Model.Types Gen.GenConst.

Lemma link_time_consts : time_k = rfc_time.
Proof. reflexivity. Qed.
Lemma link_avp_flag_bits : avp_flag_v = FLAG_V /\ avp_flag_m = FLAG_M /\ avp_flag_p = FLAG_P.
Proof. repeat split; reflexivity. Qed.
Lemma link_hdr_flag_bits : hdr_flag_r = HF_R /\ hdr_flag_p = HF_P /\ hdr_flag_e = HF_E /\ hdr_flag_t = HF_T.
Proof. repeat split; reflexivity. Qed.
