"""vsim - deterministic simulation harness for the real `diameter.node`.

See README.md.  Typical use::

    from vsim import Sim
    with Sim(seed=1) as sim:
        node = sim.node_mod.Node("srv.example.net", "example.net",
                                 ip_addresses=["10.0.0.1"], tcp_port=3868)
        node.start()
        r = sim.connect_in()
        sim.run()
"""
from .core import (Sim, SpinDetected, HarnessError, HarnessStuck,
                   scripted_chooser, SpawnHandle)
from .net import Remote, VSocket

__all__ = ["Sim", "SpinDetected", "HarnessError", "HarnessStuck",
           "scripted_chooser", "SpawnHandle", "Remote", "VSocket"]
