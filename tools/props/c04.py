"""C04 — decoding hostile bytes terminates and raises only library decode errors."""
from __future__ import annotations

import random
import sys

import implobs as O
import vlib
from props import c01, c02

FILES = ["Link/LinkGetters.v", "Link/LinkDict.v", "Props/C04.v"]
PRE = ("From DV Require Import Prelude.Base Model.Wire Model.Types Model.Obs Model.Msg Model.Defs "
       "Gen.GenDict Gen.GenConst Gen.GenRegistry.\nFrom Coq Require Import String.\n")
LIB_ERRS = ("ConversionError", "AvpDecodeError")
BOUNDARY = [0, 1, 7, 8, 11, 12]


def valid_corpus(rng, rows_by_ty, n):
    """valid messages: typed base/application commands and generic ones"""
    from diameter.message import Message, MessageHeader
    from diameter.message.commands import (CapabilitiesExchangeRequest, CapabilitiesExchangeAnswer,
                                           DeviceWatchdogRequest, CreditControlRequest, DisconnectPeerRequest)
    from diameter.message.avp.grouped import SubscriptionId, MultipleServicesCreditControl, RequestedServiceUnit
    out = []
    cer = CapabilitiesExchangeRequest()
    cer.origin_host = b"cli0.example.net"
    cer.origin_realm = b"example.net"
    cer.host_ip_address = ["10.0.0.1"]
    cer.vendor_id = 99
    cer.product_name = "x"
    cer.auth_application_id = [4]
    out.append(cer.as_bytes())
    cea = CapabilitiesExchangeAnswer()
    cea.result_code = 2001
    cea.origin_host = b"srv.example.net"
    cea.origin_realm = b"example.net"
    cea.host_ip_address = ["10.0.0.2", "::1"]
    cea.vendor_id = 1
    cea.product_name = "y"
    out.append(cea.as_bytes())
    dwr = DeviceWatchdogRequest()
    dwr.origin_host = b"a"
    dwr.origin_realm = b"b"
    out.append(dwr.as_bytes())
    dpr = DisconnectPeerRequest()
    dpr.origin_host = b"a"
    dpr.origin_realm = b"b"
    dpr.disconnect_cause = 0
    out.append(dpr.as_bytes())
    ccr = CreditControlRequest()
    ccr.session_id = "s;1;2"
    ccr.origin_host = b"cli0.example.net"
    ccr.origin_realm = b"example.net"
    ccr.destination_realm = b"example.net"
    ccr.service_context_id = "ctx"
    ccr.cc_request_type = 1
    ccr.cc_request_number = 0
    ccr.subscription_id = [SubscriptionId(subscription_id_type=0, subscription_id_data="4178")]
    ccr.multiple_services_credit_control = [MultipleServicesCreditControl(
        requested_service_unit=RequestedServiceUnit(cc_time=10), rating_group=7)]
    ccr.header.application_id = 4
    out.append(ccr.as_bytes())
    codes = [272, 257, 280, 282, 271, 258, 999, 8388000, 316, 300]
    while len(out) < n:
        objs, canon = c02.gen_avps(rng, rows_by_ty, rng.choice([1, 3, 6]), rng.choice([0, 1, 2, 3]))
        h = MessageHeader(1, 0, rng.choice([0x80, 0x00, 0xc0, 0x40]), rng.choice(codes), rng.choice([0, 4]), rng.getrandbits(32), rng.getrandbits(32))
        try:
            out.append(Message(h, list(objs)).as_bytes())
        except Exception:   # noqa
            pass
    return out


def undeclared_member_inputs(rng, every_path):
    """For every typed command and every grouped holder class its avp_def reaches: a message of that command in which the
    (possibly nested) grouped AVP carries one member its class does not declare.  A decoder must keep or drop such a
    member; it may not fail with a foreign exception because the holder has nowhere to put it."""
    from diameter.message import Message

    def subs(c):
        for x in c.__subclasses__():
            yield x
            yield from subs(x)
    out, seen_holders = [], set()
    stranger = O.ref_avp(99999990, 0, 0, b"\x01\x02\x03\x04")
    twin = lambda d: O.ref_avp(d.avp_code, 0x80 if not d.vendor_id else 0, 0 if d.vendor_id else 9999999, b"\0\0\0\1")   # noqa

    def walk(cls, hdr, defs, path, on_path):
        for d in defs:
            t = d.type_class
            if t is None or t in on_path:
                continue
            p2 = path + [d]
            if every_path or t not in seen_holders:
                seen_holders.add(t)
                for inner in (stranger, twin(t.avp_def[0]) if getattr(t, "avp_def", None) else stranger):
                    body = inner
                    for q in reversed(p2):
                        body = O.ref_avp(q.avp_code, (0x80 if q.vendor_id else 0) | 0x40, q.vendor_id, body)
                    m = bytearray(hdr + body)
                    m[1:4] = len(m).to_bytes(3, "big")
                    out.append((bytes(m), f"{cls.__name__}: undeclared member in " + "/".join(x.attr_name for x in p2)))
            walk(cls, hdr, getattr(t, "avp_def", ()), p2, on_path | {t})
    for cls in sorted(set(subs(Message)), key=lambda c: (c.__module__, c.__name__)):
        if not getattr(cls, "avp_def", None):
            continue
        try:
            h = cls().header
            hdr = bytes([1, 0, 0, 20, h.command_flags]) + h.command_code.to_bytes(3, "big") + h.application_id.to_bytes(4, "big") + bytes(8)
        except Exception:   # noqa
            continue
        walk(cls, hdr, cls.avp_def, [], set())
    return out


def length_field_offsets(wire):
    """offsets of every 3-byte length field: message, AVPs, nested AVPs (by the RFC layout)"""
    offs = [1]

    def walk(base, data, depth):
        i = 0
        while i + 8 <= len(data):
            ln = int.from_bytes(data[i + 5:i + 8], "big")
            flags = data[i + 4]
            hdr = 12 if flags & 0x80 else 8
            offs.append(base + i + 5)
            if ln < hdr or i + ln > len(data):
                break
            code = int.from_bytes(data[i:i + 4], "big")
            vendor = int.from_bytes(data[i + 8:i + 12], "big") if flags & 0x80 else 0
            if depth < 16 and O.is_grouped(code, vendor):
                walk(base + i + hdr, data[i + hdr:i + ln], depth + 1)
            i += ln + (-ln % 4)
    walk(20, wire[20:], 0)
    return offs


class LineBudget:
    """counts executed source lines of the library (linear-time proxy, spin detector)"""
    def __init__(self, limit):
        self.limit = limit
        self.n = 0

    def __enter__(self):
        self.n = 0

        def tr(frame, event, arg):
            if "/diameter/" in frame.f_code.co_filename:
                return loc
            return None

        def loc(frame, event, arg):
            if event == "line":
                self.n += 1
                if self.n > self.limit:
                    raise O.__dict__.setdefault("Spin", type("Spin", (BaseException,), {}))()
            return loc
        sys.settrace(tr)
        return self

    def __exit__(self, *a):
        sys.settrace(None)
        return False


class WallGuard:
    """wall-clock guard for inputs that run without the line budget: a decoder that loops is interrupted (SIGALRM raises
    Spin in the main thread) instead of eating memory until the check is killed"""
    def __init__(self, seconds=4.0):
        self.seconds = seconds

    def __enter__(self):
        import signal
        spin = O.__dict__.setdefault("Spin", type("Spin", (BaseException,), {}))

        def on_alarm(signum, frame):
            raise spin()
        self.old = signal.signal(signal.SIGALRM, on_alarm)
        signal.setitimer(signal.ITIMER_REAL, self.seconds)
        return self

    def __exit__(self, *a):
        import signal
        signal.setitimer(signal.ITIMER_REAL, 0)
        signal.signal(signal.SIGALRM, self.old)
        return False


def check(run):
    from diameter.message import Message, MessageHeader
    thorough = run.tier == "thorough"
    rng = random.Random(run.seed)
    run.rule = ("valid corpus -> every prefix, bit flips in header and body, every message/AVP/nested length field set to "
                "{0,1,7,8,11,12,len-1,len+1,2^24-1}, every AVP type x payload length 0..20 x invalid content, random bytes, "
                "nesting 16; observed: result or exception class of Message.from_bytes (typed and plain), Avp.from_bytes, "
                ".value, str(); executed-line budget; non-trivial = distinct input bytes")
    run.assumptions = ["linear time is observed as executed source lines of the package (sys.settrace) on a sample; the Coq "
                       "bound is on the model's instrumented step count",
                       "exceptions the model does not model (stray CPython exceptions outside the translated getters) can "
                       "only be observed, not proved absent: this part of the claim is partial"]
    run.obligations(FILES)
    rows = O.dict_rows()
    rows_by_ty = {}
    for code, vendor, tn, m, name, vf in rows:
        rows_by_ty.setdefault(tn, []).append((code, vendor))
    corpus = valid_corpus(rng, rows_by_ty, 200 if thorough else 40)
    inputs = []   # (bytes, origin)
    for w in corpus:
        step = 1 if (len(w) <= 300 or thorough) else max(1, len(w) // 150)
        for k in range(0, len(w), step):
            inputs.append((w[:k], "prefix"))
        for pos in list(range(20)) + [rng.randrange(20, len(w)) for _ in range(12 if not thorough else 60) if len(w) > 20]:
            for bit in ((rng.randrange(8),) if not thorough else range(8)):
                b = bytearray(w)
                b[pos] ^= 1 << bit
                inputs.append((bytes(b), "bitflip"))
        for _ in range(3):
            b = bytearray(w)
            for _ in range(rng.randrange(2, 6)):
                b[rng.randrange(len(b))] ^= 1 << rng.randrange(8)
            inputs.append((bytes(b), "multiflip"))
        offs = length_field_offsets(w)
        if not thorough and len(offs) > 12:
            offs = offs[:4] + rng.sample(offs[4:], 8)
        for off in offs:
            cur = int.from_bytes(w[off:off + 3], "big")
            for v in BOUNDARY + [cur - 1, cur + 1, (1 << 24) - 1]:
                if 0 <= v < (1 << 24) and v != cur:
                    inputs.append((w[:off] + v.to_bytes(3, "big") + w[off + 3:], "length-field"))
    hdr20 = bytes.fromhex("010000148000011000000000000000010000000200000000"[:40])
    for tn, ents in sorted(rows_by_ty.items()):
        for (code, vendor) in (ents[0], ents[-1]):
            for plen in range(0, 21):
                for content in ("rand", "ff", "zero"):
                    data = {"rand": bytes(rng.getrandbits(8) for _ in range(plen)), "ff": b"\xff" * plen, "zero": b"\0" * plen}[content]
                    a = O.ref_avp(code, (0x80 if vendor else 0) | 0x40, vendor, data)
                    m = bytearray(hdr20[:20] + a)
                    m[1:4] = len(m).to_bytes(3, "big")
                    m[5:8] = (8388000).to_bytes(3, "big")
                    inputs.append((bytes(m), "typed-payload"))
    for fam, raw in ((1, b"\x01\x02\x03"), (1, b"12345"), (2, b"\0" * 15), (2, b"\0" * 17), (8, b"\xff\xfe"), (3, b"xyz"), (0xffff, b"")):
        data = fam.to_bytes(2, "big") + raw
        inputs.append((hdr20[:20] + O.ref_avp(257, 0x40, 0, data), "bad-address"))
    for _ in range(2000 if thorough else 300):
        n = rng.choice([0, 1, 7, 19, 20, 21, 28, 40, 100, 1000])
        inputs.append((bytes(rng.getrandbits(8) for _ in range(n)), "random"))
    nest = b"\x00\x00\x00\x01\x40\x00\x00\x0cabcd"
    g = rows_by_ty["TGrouped"][0]
    for _ in range(16):
        nest = O.ref_avp(g[0], (0x80 if g[1] else 0) | 0x40, g[1], nest)
    inputs.append((hdr20[:20] + nest, "nesting-16"))
    inputs.append((hdr20[:20] + nest[:-3], "nesting-16-truncated"))
    um = undeclared_member_inputs(rng, thorough)
    run.extra["undeclared_member_inputs"] = len(um)
    for b, why in um:
        inputs.append((b, "undeclared-member"))
    seen = set()
    uniq = []
    for b, o in inputs:
        if b not in seen:
            seen.add(b)
            uniq.append((b, o))
    inputs = uniq
    dist = {}
    cases, meta = [], []
    acase, ameta = [], []
    sampled = set(rng.sample(range(len(inputs)), min(len(inputs), 400 if not thorough else 3000)))
    max_ratio = 0.0
    kinds = {}
    spins = 0
    for idx, (b, origin) in enumerate(inputs):
        dist[origin] = dist.get(origin, 0) + 1
        case = {"input": b.hex()[:400], "len": len(b), "origin": origin}
        run.count(1, [b])
        budget = LineBudget(200 * len(b) + 4000) if idx in sampled else None
        guard = WallGuard()
        try:
            guard.__enter__()
            if budget:
                budget.__enter__()
            try:
                # ---- plain decode + every value + str -----------------------------------
                try:
                    p = Message.from_bytes(b, plain_msg=True)
                    res = "ok"
                except Exception as e:   # noqa
                    p, res = None, O.err_kind(e)
                if res != "ok" and res not in LIB_ERRS:
                    run.violation("only-decode-errors", case, res,
                                  what=f"Message.from_bytes raises {res} on hostile input")
                vals = []
                if p is not None:
                    try:
                        _ = str(p.header)
                        _ = str(p)
                    except Exception as e:   # noqa
                        run.violation("str-never-raises", case, O.err_kind(e))
                    for a in p.avps:
                        try:
                            _ = a.value
                            vals.append(True)
                        except Exception as e:   # noqa
                            vals.append(False)
                            # reading again (also after str()) must fail again: no half-built result may be cached
                            try:
                                _ = str(a)
                                again = a.value
                                run.violation("value-raises-decode-error", dict(case, history="value read twice"),
                                              f"second read returned {type(again).__name__}", "AvpDecodeError again",
                                              what=f"{O.tyname_of(a)} .value raises on the first read of a malformed payload but returns a value on the second")
                            except Exception:   # noqa
                                pass
                            if O.err_kind(e) != "AvpDecodeError":
                                run.violation("value-raises-decode-error", case, O.err_kind(e),
                                              what=f"{O.tyname_of(a)} .value raises {O.err_kind(e)} instead of AvpDecodeError")
                        try:
                            _ = str(a)
                        except Exception as e:   # noqa
                            run.violation("str-never-raises", case, O.err_kind(e),
                                          what=f"str(avp) raises {O.err_kind(e)}")
                # ---- typed decode ---------------------------------------------------------
                try:
                    t = Message.from_bytes(b)
                    tres = "ok"
                    _ = str(t)
                except Exception as e:   # noqa
                    tres = O.err_kind(e)
                if tres != "ok" and tres not in LIB_ERRS:
                    run.violation("only-decode-errors", case, tres,
                                  what=f"Message.from_bytes (typed) raises {tres} on hostile input")
            finally:
                if budget:
                    budget.__exit__()
                guard.__exit__()
        except BaseException as e:   # the line budget / the wall-clock guard
            if type(e).__name__ != "Spin":
                raise
            run.violation("terminates-linear", case, "line budget / wall-clock guard exhausted",
                          what="decoder executes more than 200 lines per input byte or runs for seconds (spin or super-linear)")
            spins += 1
            if spins >= 3:
                run.notes.append("three non-terminating inputs found: remaining inputs skipped")
                break
            continue
        if budget:
            max_ratio = max(max_ratio, budget.n / (len(b) + 20))
        kinds[res] = kinds.get(res, 0) + 1
        exp = f"(Err {O.coq_err(res)})" if res != "ok" else "(Ok [" + "; ".join("true" if v else "false" for v in vals) + "])"
        cases.append(f"({O.hx(b)}, {exp})")
        meta.append(case)
        # ---- single AVP decode of the body (C01's observation on hostile bytes) -----------
        if origin in ("typed-payload", "bad-address", "random") and len(b) > 20:
            body = b[20:]
            g2 = WallGuard()
            g2.__enter__()
            try:
                a = O.A.Avp.from_bytes(body)
                tn = O.tyname_of(a)
                try:
                    _, canon = O.canon_value(a)
                    val = f"(Ok {O.coq_value(tn, canon)})"
                    if tn == "TFloat32" or tn == "TFloat64":
                        val = f"(Ok (VFloat {int.from_bytes(a.payload, 'big')}))"
                except Exception as e:   # noqa
                    val = f"(Err {O.coq_err(O.err_kind(e))})"
                try:
                    re = f"(Ok {O.hx(a.as_bytes())})"
                except Exception as e:   # noqa
                    re = f"(Err {O.coq_err(O.err_kind(e))})"
                impl = f"(Ok ({tn}, {O.coq_avp(a.code, a.flags, a.vendor_id, bytes(a.payload))}, {val}, {re}))"
            except Exception as e:   # noqa
                impl = f"(Err {O.coq_err(O.err_kind(e))})"
                if O.err_kind(e) not in LIB_ERRS:
                    run.violation("only-decode-errors", case, O.err_kind(e), what="Avp.from_bytes raises a foreign exception")
            except BaseException as e:   # noqa
                if type(e).__name__ != "Spin":
                    raise
                impl = "(Err EOther)"
                run.violation("terminates-linear", case, "wall-clock guard exhausted", what="Avp.from_bytes does not terminate")
            finally:
                g2.__exit__()
            acase.append(f"({O.hx(body)}, {impl})")
            ameta.append(case)
    run.extra["input_distribution"] = dict(sorted(dist.items()))
    run.extra["outcome_kinds"] = kinds
    run.extra["max_lines_per_byte_sampled"] = round(max_ratio, 1)
    run.sample(meta[5] if len(meta) > 5 else None)
    run.sample(meta[len(meta) // 2])
    ok_msg = ("Definition ok (c : bytes * result (list bool)) : bool := let '(w, exp) := c in\n"
              "  let got := match dec_msg w with\n"
              "    | Ok (h, l) =>\n"
              "        (* commands without a typed class read every value eagerly (UndefinedMessage.__post_init__) *)\n"
              "        let cn := class_of registry_rows true (h_code h) (h_flags h) in\n"
              "        let eager := match cls_lookup class_rows cn with Some r => match c_kind r with KUndefined => true | _ => false end | None => true end in\n"
              "        match (if eager then undef_attrs dict_rows time_k 40 l else Ok []) with\n"
              "        | Err e => Err e\n"
              "        | Ok _ => Ok (List.map (fun a => is_ok (dec_val time_k (type_of (dict_of dict_rows) a) (a_payload a))) l)\n"
              "        end\n"
              "    | Err e => Err e end in\n"
              "  res_eqb (list_eqb Bool.eqb) got exp.\n")
    ok_avp = ("Definition ok (c : bytes * result (ty * avp * result value * result bytes)) : bool :=\n"
              "  let '(bs, exp) := c in obs_dec_eqb (obs_dec dict_rows time_k bs) exp.\n")
    for texts, mt, okd, tag, chunk in ((cases, meta, ok_msg, "hmsg", 500), (acase, ameta, ok_avp, "havp", 500)):
        mism, errs = vlib.eval_mismatches(run.workdir, PRE, okd, texts, chunk=chunk, tag=tag)
        for i in mism:
            run.mismatch(f"model vs implementation ({tag})", mt[i], texts[i][-300:])
        for e in errs:
            run.mismatch("coq evaluation", {}, e)
    return run.finish()


def replay(r):
    from diameter.message import Message
    b = bytes.fromhex(r["case"]["input"])
    if len(b) != r["case"]["len"]:
        print("replay: input truncated in the replay file; re-run ./check C04")
        return False
    try:
        m = Message.from_bytes(b)
        print("replay: returned", type(m).__name__)
        return True
    except Exception as e:   # noqa
        print("replay: raised", type(e).__name__)
        return O.err_kind(e) in LIB_ERRS
