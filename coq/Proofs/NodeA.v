(* Proofs about Model/Node.v: C06 (capabilities exchange gates all traffic), C11 (watchdog),
   C18 (shutdown).  Every theorem is closed under the global context (see the end). *)
From DV Require Import Prelude.Base Model.Node.
From Coq Require Import String.
From Hammer Require Import Tactics.
Open Scope string_scope.
Open Scope list_scope.
Open Scope Z_scope.

(* ================================================================================== *)
(* Part 1: setters and getters                                                        *)
(* ================================================================================== *)

Definition idp (f : conn -> conn) : Prop := forall c, c_id (f c) = c_id c.

Lemma find_upd (l : list conn) (i j : nat) (f : conn -> conn) :
  idp f ->
  List.find (fun c => Nat.eqb (c_id c) j) (upd_conn l i f) =
  if Nat.eqb j i then option_map f (List.find (fun c => Nat.eqb (c_id c) j) l)
  else List.find (fun c => Nat.eqb (c_id c) j) l.
Proof.
  intros Hf. induction l as [|c r IH]; cbn [upd_conn List.find].
  - destruct (Nat.eqb j i); reflexivity.
  - destruct (Nat.eqb (c_id c) i) eqn:Eci.
    + apply Nat.eqb_eq in Eci. cbn [List.find]. rewrite Hf.
      destruct (Nat.eqb j i) eqn:Eji.
      * apply Nat.eqb_eq in Eji. subst. rewrite Nat.eqb_refl. reflexivity.
      * destruct (Nat.eqb (c_id c) j) eqn:Ecj; [|reflexivity].
        apply Nat.eqb_eq in Ecj. apply Nat.eqb_neq in Eji. congruence.
    + cbn [List.find]. destruct (Nat.eqb (c_id c) j) eqn:Ecj.
      * apply Nat.eqb_eq in Ecj. subst j. rewrite Eci. reflexivity.
      * exact IH.
Qed.

Lemma get_conn_set_conns n l i :
  get_conn (set_conns n l) i = List.find (fun c => Nat.eqb (c_id c) i) l.
Proof. reflexivity. Qed.

Lemma get_conn_upd n i j f :
  idp f ->
  get_conn (set_conns n (upd_conn (n_conns n) i f)) j =
  if Nat.eqb j i then option_map f (get_conn n j) else get_conn n j.
Proof. intros Hf. unfold get_conn. cbn [n_conns set_conns]. apply find_upd, Hf. Qed.

Lemma get_conn_upd_same n i f c :
  idp f -> get_conn n i = Some c ->
  get_conn (set_conns n (upd_conn (n_conns n) i f)) i = Some (f c).
Proof. intros Hf Hc. rewrite get_conn_upd by exact Hf. rewrite Nat.eqb_refl, Hc. reflexivity. Qed.

Lemma get_conn_upd_other n i j f :
  idp f -> j <> i ->
  get_conn (set_conns n (upd_conn (n_conns n) i f)) j = get_conn n j.
Proof.
  intros Hf Hne. rewrite get_conn_upd by exact Hf.
  apply Nat.eqb_neq in Hne. rewrite Hne. reflexivity.
Qed.

Lemma upd_conn_none l i f :
  List.find (fun c => Nat.eqb (c_id c) i) l = None -> upd_conn l i f = l.
Proof.
  induction l as [|c r IH]; cbn [upd_conn List.find]; [reflexivity|].
  destruct (Nat.eqb (c_id c) i); [discriminate|]. intros H. rewrite IH by exact H. reflexivity.
Qed.

Lemma get_conn_id n i c : get_conn n i = Some c -> c_id c = i.
Proof.
  unfold get_conn. intros H. apply List.find_some in H. destruct H as [_ H].
  apply Nat.eqb_eq in H. exact H.
Qed.

Lemma get_conn_in n i c : get_conn n i = Some c -> List.In c (n_conns n).
Proof. unfold get_conn. intros H. apply List.find_some in H. tauto. Qed.

Lemma find_filter_ne (l : list conn) i j :
  List.find (fun c => Nat.eqb (c_id c) j) (List.filter (fun x => negb (Nat.eqb (c_id x) i)) l) =
  if Nat.eqb j i then None else List.find (fun c => Nat.eqb (c_id c) j) l.
Proof.
  induction l as [|c r IH]; cbn [List.filter List.find].
  - destruct (Nat.eqb j i); reflexivity.
  - destruct (Nat.eqb (c_id c) i) eqn:Eci; cbn [negb List.find].
    + rewrite IH. destruct (Nat.eqb j i) eqn:Eji; [reflexivity|].
      destruct (Nat.eqb (c_id c) j) eqn:Ecj; [|reflexivity].
      apply Nat.eqb_eq in Ecj, Eci. apply Nat.eqb_neq in Eji. congruence.
    + destruct (Nat.eqb (c_id c) j) eqn:Ecj.
      * apply Nat.eqb_eq in Ecj. subst j. rewrite Eci. reflexivity.
      * exact IH.
Qed.

Lemma find_app_conn (l : list conn) c j :
  List.find (fun c => Nat.eqb (c_id c) j) (l ++ [c]) =
  match List.find (fun c => Nat.eqb (c_id c) j) l with
  | Some x => Some x
  | None => if Nat.eqb (c_id c) j then Some c else None
  end.
Proof.
  induction l as [|a r IH]; cbn [List.app List.find]; [reflexivity|].
  destruct (Nat.eqb (c_id a) j); [reflexivity|exact IH].
Qed.

(* the setters on connections preserve the id *)
Lemma idp_cstate s : idp (fun c => set_cstate c s).  Proof. intro; reflexivity. Qed.
Lemma idp_cout f : idp (fun c => set_cout c (f c)).  Proof. intro; reflexivity. Qed.
Lemma idp_ctimes f g : idp (fun c => set_ctimes c (f c) (g c)).  Proof. intro; reflexivity. Qed.
Lemma idp_chbh f : idp (fun c => set_chbh c (f c)).  Proof. intro; reflexivity. Qed.
#[local] Hint Resolve idp_cstate idp_cout idp_ctimes idp_chbh : idp.

(* ---- send_message ------------------------------------------------------------------ *)
Definition qout (m : omsg) : conn -> conn := fun c => set_cout c (c_out c ++ [m]).
Lemma idp_qout m : idp (qout m).  Proof. intro; reflexivity. Qed.
#[local] Hint Resolve idp_qout : idp.

Lemma send_message_spec n cid m :
  n_conns (fst (send_message n cid m)) = upd_conn (n_conns n) cid (qout m) /\
  n_peers (fst (send_message n cid m)) = n_peers n /\
  n_next_cid (fst (send_message n cid m)) = n_next_cid n /\
  n_stopping (fst (send_message n cid m)) = n_stopping n /\
  n_now (fst (send_message n cid m)) = n_now n /\
  n_cfg (fst (send_message n cid m)) = n_cfg n /\
  n_apps (fst (send_message n cid m)) = n_apps n /\
  n_e2e (fst (send_message n cid m)) = n_e2e n /\
  snd (send_message n cid m) = [OQueue cid m].
Proof.
  unfold send_message, queue_out, record_answer, qout.
  destruct (o_req m); [cbn; repeat split|].
  destruct (get_conn n cid); cbn [fst snd];
    match goal with |- context [List.find ?f ?l] => destruct (List.find f l) as [[[? ?] ?]|] end;
    cbn; repeat split.
Qed.

Lemma send_message_out n cid m : snd (send_message n cid m) = [OQueue cid m].
Proof. apply send_message_spec. Qed.

Lemma send_message_get n cid m j :
  get_conn (fst (send_message n cid m)) j =
  if Nat.eqb j cid then option_map (qout m) (get_conn n j) else get_conn n j.
Proof.
  unfold get_conn at 1. destruct (send_message_spec n cid m) as [H _]. rewrite H.
  apply find_upd. auto with idp.
Qed.

Ltac solve_idp :=
  let x := fresh "x" in
  intros x; repeat match goal with |- context [if ?b then _ else _] => destruct b end; reflexivity.

Lemma get_conn_ext n n' j : n_conns n = n_conns n' -> get_conn n j = get_conn n' j.
Proof. unfold get_conn. intros ->. reflexivity. Qed.

Lemma assign_peer_conn_conns n cid : n_conns (assign_peer_conn n cid) = n_conns n.
Proof.
  unfold assign_peer_conn. destruct (get_conn n cid) as [c|]; [|reflexivity].
  destruct (String.eqb (c_host c) ""); [reflexivity|].
  destruct (get_peer n (c_host c)); [|reflexivity].
  destruct (mem_nat cid (n_half_ready n)); reflexivity.
Qed.

Lemma flag_ready_conns n cid :
  n_conns (flag_ready n cid) = upd_conn (n_conns n) cid (fun c => set_cstate c SReady).
Proof. reflexivity. Qed.

(* ================================================================================== *)
(* C06: capabilities exchange gates all traffic                                        *)
(* ================================================================================== *)

(* C06: a CONNECTED connection drops every message that is not the expected CER / CEA *)
Theorem C06_gate_connected n cid c m :
  get_conn n cid = Some c -> c_state c = SConnected ->
  (m_cmd m <> CE \/ (c_recv c = true /\ m_req m = false) \/ (c_recv c = false /\ m_req m = true)) ->
  dispatch n cid m = (n, []).
Proof.
  intros Hc Hs Hm. unfold dispatch. rewrite Hc. unfold gate_passes. rewrite Hs.
  destruct Hm as [Hm | [[Hr Hq] | [Hr Hq]]].
  - destruct (m_cmd m); try reflexivity. congruence.
  - rewrite Hr, Hq, Bool.andb_false_r. reflexivity.
  - rewrite Hr, Hq, Bool.andb_false_r. reflexivity.
Qed.

(* C06: a CLOSING or CLOSED connection drops every message *)
Theorem C06_gate_closing n cid c m :
  get_conn n cid = Some c -> (c_state c = SClosing \/ c_state c = SClosed) ->
  dispatch n cid m = (n, []).
Proof.
  intros Hc Hs. unfold dispatch. rewrite Hc. unfold gate_passes.
  destruct Hs as [-> | ->]; reflexivity.
Qed.

Lemma cer_accept_get n1 cid c1 h sa sc a :
  get_conn n1 cid = Some c1 ->
  let n2 := set_conns n1 (upd_conn (n_conns n1) cid (fun c => set_cident c (c_node_name c) h sa sc)) in
  exists c', get_conn (fst (send_message (flag_ready (assign_peer_conn n2 cid) cid) cid a)) cid = Some c'
             /\ c_state c' = SReady /\ c_host c' = h /\ c_recv c' = c_recv c1.
Proof.
  intros Hc n2. rewrite send_message_get, Nat.eqb_refl.
  unfold get_conn at 1. rewrite flag_ready_conns, assign_peer_conn_conns.
  rewrite find_upd by solve_idp. rewrite Nat.eqb_refl.
  fold (get_conn n2 cid). unfold n2. rewrite get_conn_upd by solve_idp.
  rewrite Nat.eqb_refl, Hc. cbn [option_map]. eexists. split; [reflexivity|].
  cbn. auto.
Qed.

(* C06: a CER of a configured peer sharing an application is answered 2001 and the connection becomes READY *)
Theorem C06_cer_known n cid c m h p :
  get_conn n cid = Some c -> m_origin m = Present h -> get_peer n h = Some p ->
  (inter_z (node_auth n) (m_auth m) <> [] \/ inter_z (node_acct n) (m_acct m) <> [] \/
   mem_z APP_RELAY (m_auth m) || mem_z APP_RELAY (m_acct m) = true) ->
  snd (recv_cer n cid m) = [OQueue cid (answer_of m (Some 2001) [])] /\
  exists c', get_conn (fst (recv_cer n cid m)) cid = Some c' /\ c_state c' = SReady /\ c_host c' = h.
Proof.
  intros Hc Ho Hp Hsh. unfold recv_cer. rewrite Ho. cbn [pres_get]. rewrite Hp.
  set (n1 := set_conns n _).
  assert (Hc1 : exists c1, get_conn n1 cid = Some c1).
  { unfold n1. rewrite get_conn_upd by solve_idp. rewrite Nat.eqb_refl, Hc. cbn. eauto. }
  destruct Hc1 as [c1 Hc1].
  change (node_auth n1) with (node_auth n). change (node_acct n1) with (node_acct n).
  unfold RC_SUCCESS.
  destruct (inter_z (node_auth n) (m_auth m)) as [|x xs] eqn:Ea;
  destruct (inter_z (node_acct n) (m_acct m)) as [|y ys] eqn:Eb;
  destruct (mem_z APP_RELAY (m_auth m) || mem_z APP_RELAY (m_acct m)) eqn:Er;
  try (exfalso; destruct Hsh as [H|[H|H]]; congruence);
  (split; [apply send_message_out|]);
  match goal with |- context [set_cident _ _ h ?sa ?sc] =>
    destruct (cer_accept_get n1 cid c1 h sa sc (answer_of m (Some 2001) []) Hc1) as [c' [H1 [H2 [H3 _]]]] end;
  exists c'; auto.
Qed.

(* C06: a CER of an unknown peer is answered 3010 and the connection is CLOSING *)
Theorem C06_cer_unknown n cid c m h :
  get_conn n cid = Some c -> m_origin m = Present h -> get_peer n h = None ->
  snd (recv_cer n cid m) = [OQueue cid (answer_of m (Some 3010) [])] /\
  exists c', get_conn (fst (recv_cer n cid m)) cid = Some c' /\ c_state c' = SClosing.
Proof.
  intros Hc Ho Hp. unfold recv_cer. rewrite Ho. cbn [pres_get]. rewrite Hp.
  split; [apply send_message_out|].
  rewrite send_message_get, Nat.eqb_refl, get_conn_upd by solve_idp.
  rewrite Nat.eqb_refl, Hc. cbn [option_map]. eexists. split; [reflexivity|reflexivity].
Qed.

(* C06: a CER of a configured peer with no common application is answered 5010; the state is unchanged *)
Theorem C06_cer_no_common n cid c m h p :
  get_conn n cid = Some c -> m_origin m = Present h -> get_peer n h = Some p ->
  inter_z (node_auth n) (m_auth m) = [] -> inter_z (node_acct n) (m_acct m) = [] ->
  mem_z APP_RELAY (m_auth m) || mem_z APP_RELAY (m_acct m) = false ->
  snd (recv_cer n cid m) = [OQueue cid (answer_of m (Some 5010) [])] /\
  exists c', get_conn (fst (recv_cer n cid m)) cid = Some c' /\ c_state c' = c_state c.
Proof.
  intros Hc Ho Hp Ha Hb Hr. unfold recv_cer. rewrite Ho. cbn [pres_get]. rewrite Hp.
  set (n1 := set_conns n _).
  change (node_auth n1) with (node_auth n). change (node_acct n1) with (node_acct n).
  rewrite Ha, Hb, Hr.
  split; [apply send_message_out|].
  rewrite send_message_get, Nat.eqb_refl. unfold n1. rewrite get_conn_upd by solve_idp.
  rewrite Nat.eqb_refl, Hc. cbn [option_map]. eexists. split; [reflexivity|].
  cbn. destruct (String.eqb (c_node_name c) ""); reflexivity.
Qed.

(* ---- remove_conn / close_conn ------------------------------------------------------------ *)
Lemma filter_ne_none (l : list conn) i :
  List.find (fun c => Nat.eqb (c_id c) i) l = None ->
  List.filter (fun x => negb (Nat.eqb (c_id x) i)) l = l.
Proof.
  induction l as [|c r IH]; cbn [List.find List.filter]; [reflexivity|].
  destruct (Nat.eqb (c_id c) i); [discriminate|]. cbn [negb]. intros H. rewrite IH by exact H. reflexivity.
Qed.

Lemma upd_peer_names l nm f :
  (forall p, p_name (f p) = p_name p) -> List.map p_name (upd_peer l nm f) = List.map p_name l.
Proof.
  intros Hf. induction l as [|p r IH]; cbn [upd_peer List.map]; [reflexivity|].
  destruct (String.eqb (p_name p) nm); cbn [List.map]; [rewrite Hf; reflexivity|rewrite IH; reflexivity].
Qed.

Definition pnames (n : node) : list string := List.map p_name (n_peers n).

Lemma remove_conn_spec n cid r :
  n_conns (remove_conn n cid r) = List.filter (fun x => negb (Nat.eqb (c_id x) cid)) (n_conns n) /\
  pnames (remove_conn n cid r) = pnames n /\
  n_next_cid (remove_conn n cid r) = n_next_cid n /\
  n_stopping (remove_conn n cid r) = n_stopping n /\
  n_now (remove_conn n cid r) = n_now n /\
  n_cfg (remove_conn n cid r) = n_cfg n.
Proof.
  unfold remove_conn, pnames. destruct (get_conn n cid) as [c|] eqn:Hc.
  - destruct (find_conn_peer n c) as [p|]; [destruct (p_conn p) as [k|]; [destruct (Nat.eqb k cid)|]|];
      cbn; repeat split; try reflexivity.
    apply upd_peer_names. reflexivity.
  - repeat split; try reflexivity. symmetry. apply filter_ne_none. exact Hc.
Qed.

Lemma remove_conn_get n cid r j :
  get_conn (remove_conn n cid r) j = if Nat.eqb j cid then None else get_conn n j.
Proof.
  unfold get_conn at 1. destruct (remove_conn_spec n cid r) as [H _]. rewrite H. apply find_filter_ne.
Qed.

Lemma close_conn_get n cid r j :
  get_conn (fst (close_conn n cid r)) j = if Nat.eqb j cid then None else get_conn n j.
Proof.
  unfold close_conn. destruct (get_conn n cid) eqn:Hc; cbn [fst].
  - apply remove_conn_get.
  - destruct (Nat.eqb j cid) eqn:E; [|reflexivity]. apply Nat.eqb_eq in E. subst. exact Hc.
Qed.

Lemma close_conn_some n cid r c :
  get_conn n cid = Some c -> close_conn n cid r = (remove_conn n cid r, [OClose cid r]).
Proof. intros H. unfold close_conn. rewrite H. reflexivity. Qed.

(* ---- flush ---------------------------------------------------------------------------------- *)
Definition flush_one (n : node) (cid : nat) : node * list output :=
  match get_conn n cid with
  | None => (n, [])
  | Some c =>
      if c_stalled c || negb (c_sock_open c) then (n, [])
      else
        let outs := List.map (OSend cid) (c_out c) in
        let n' := set_conns n (upd_conn (n_conns n) cid (fun c => set_cout c [])) in
        match c_out c with
        | [] => (n', [])
        | _ => if cstate_eqb (c_state c) SClosing
               then let '(n'', oc) := close_conn n' cid R_CLEAN in (n'', (outs ++ oc)%list)
               else (n', outs)
        end
  end.

Lemma flush_conns_cons n cid r :
  flush_conns n (cid :: r) =
  let '(n1, o1) := flush_one n cid in let '(n2, o2) := flush_conns n1 r in (n2, o1 ++ o2).
Proof. reflexivity. Qed.

Lemma flush_one_other n j i : i <> j -> get_conn (fst (flush_one n j)) i = get_conn n i.
Proof.
  intros Hne. unfold flush_one. destruct (get_conn n j) as [c|] eqn:Hc; [|reflexivity].
  destruct (c_stalled c || negb (c_sock_open c)); [reflexivity|].
  assert (Hu : get_conn (set_conns n (upd_conn (n_conns n) j (fun c => set_cout c []))) i = get_conn n i)
    by (apply get_conn_upd_other; [solve_idp|exact Hne]).
  destruct (c_out c); [exact Hu|].
  destruct (cstate_eqb (c_state c) SClosing); [|exact Hu].
  destruct (close_conn _ j R_CLEAN) as [n'' oc] eqn:Ecl. cbn [fst].
  change n'' with (fst (n'', oc)). rewrite <- Ecl, close_conn_get.
  apply Nat.eqb_neq in Hne. rewrite Hne. exact Hu.
Qed.

Lemma flush_one_none n j i : get_conn n i = None -> get_conn (fst (flush_one n j)) i = None.
Proof.
  intros Hn. destruct (Nat.eq_dec i j) as [->|Hne].
  - unfold flush_one. rewrite Hn. exact Hn.
  - rewrite flush_one_other by exact Hne. exact Hn.
Qed.

Lemma flush_conns_none l : forall n i, get_conn n i = None -> get_conn (fst (flush_conns n l)) i = None.
Proof.
  induction l as [|j r IH]; intros n i Hn; [exact Hn|].
  rewrite flush_conns_cons. destruct (flush_one n j) as [n1 o1] eqn:E1.
  destruct (flush_conns n1 r) as [n2 o2] eqn:E2. cbn [fst].
  change n2 with (fst (n2, o2)). rewrite <- E2. apply IH.
  change n1 with (fst (n1, o1)). rewrite <- E1. apply flush_one_none, Hn.
Qed.

Lemma flush_one_closing n cid c :
  get_conn n cid = Some c -> c_state c = SClosing -> c_stalled c = false -> c_sock_open c = true ->
  c_out c <> [] ->
  snd (flush_one n cid) = List.map (OSend cid) (c_out c) ++ [OClose cid R_CLEAN] /\
  get_conn (fst (flush_one n cid)) cid = None.
Proof.
  intros Hc Hs Hst Hso Hout. unfold flush_one. rewrite Hc, Hst, Hso, Hs. cbn [orb negb cstate_eqb].
  destruct (c_out c) as [|o os] eqn:Eo; [congruence|].
  erewrite close_conn_some by (apply get_conn_upd_same; [solve_idp|exact Hc]).
  cbn [fst snd]. split; [reflexivity|]. rewrite remove_conn_get, Nat.eqb_refl. reflexivity.
Qed.

Lemma flush_conns_closing cid c l : forall n,
  List.In cid l ->
  get_conn n cid = Some c -> c_state c = SClosing -> c_stalled c = false -> c_sock_open c = true ->
  c_out c <> [] ->
  (exists pre post, snd (flush_conns n l) = pre ++ List.map (OSend cid) (c_out c) ++ [OClose cid R_CLEAN] ++ post) /\
  get_conn (fst (flush_conns n l)) cid = None.
Proof.
  induction l as [|j r IH]; intros n Hin Hc Hs Hst Hso Hout; [destruct Hin|].
  rewrite flush_conns_cons. destruct (flush_one n j) as [n1 o1] eqn:E1.
  destruct (flush_conns n1 r) as [n2 o2] eqn:E2. cbn [fst snd].
  destruct (Nat.eq_dec j cid) as [->|Hne].
  - destruct (flush_one_closing n cid c Hc Hs Hst Hso Hout) as [Ho Hg]. rewrite E1 in Ho, Hg. cbn [fst snd] in Ho, Hg.
    split.
    + exists [], o2. rewrite Ho, <- List.app_assoc. reflexivity.
    + change n2 with (fst (n2, o2)). rewrite <- E2. apply flush_conns_none, Hg.
  - assert (Hin' : List.In cid r) by (destruct Hin; [congruence|assumption]).
    assert (Hc1 : get_conn n1 cid = Some c).
    { change n1 with (fst (n1, o1)). rewrite <- E1, flush_one_other by congruence. exact Hc. }
    destruct (IH n1 Hin' Hc1 Hs Hst Hso Hout) as [[pre [post Hp]] Hg]. rewrite E2 in Hp, Hg. cbn [fst snd] in Hp, Hg.
    split; [|exact Hg]. exists (o1 ++ pre), post. rewrite Hp, <- List.app_assoc. reflexivity.
Qed.

(* C06: the I/O thread writes the buffered answer of a CLOSING connection, then closes it (CLEAN) and removes it *)
Theorem C06_unknown_then_closed n cid c :
  get_conn n cid = Some c -> c_state c = SClosing -> c_stalled c = false -> c_sock_open c = true ->
  c_out c <> [] ->
  (exists pre post, snd (flush n) = pre ++ List.map (OSend cid) (c_out c) ++ [OClose cid R_CLEAN] ++ post) /\
  get_conn (fst (flush n)) cid = None.
Proof.
  intros Hc. unfold flush. apply flush_conns_closing; [|exact Hc].
  rewrite <- (get_conn_id n cid c Hc). apply List.in_map, (get_conn_in n cid), Hc.
Qed.

(* ---- frames: what an operation leaves alone ------------------------------------------------ *)
Definition frame (n n' : node) : Prop :=
  n_peers n' = n_peers n /\ n_next_cid n' = n_next_cid n /\ n_stopping n' = n_stopping n /\
  n_now n' = n_now n /\ n_cfg n' = n_cfg n.

Lemma frame_refl n : frame n n.
Proof. repeat split. Qed.
Lemma frame_trans a b c : frame a b -> frame b c -> frame a c.
Proof. unfold frame. intros [? [? [? [? ?]]]] [? [? [? [? ?]]]]. repeat split; congruence. Qed.

Lemma send_message_frame n cid m : frame n (fst (send_message n cid m)).
Proof. destruct (send_message_spec n cid m) as [_ [? [? [? [? [? _]]]]]]. repeat split; assumption. Qed.

(* the connection-wise effect of an operation: connection i is mapped by F, the others are kept *)
Definition cupd (n n' : node) (i : nat) (F : conn -> conn) : Prop :=
  forall j, get_conn n' j = if Nat.eqb j i then option_map F (get_conn n j) else get_conn n j.

Lemma cupd_trans a b c i F G : cupd a b i F -> cupd b c i G -> cupd a c i (fun x => G (F x)).
Proof.
  intros H1 H2 j. unfold cupd in H1, H2. rewrite H2, !H1. destruct (Nat.eqb j i); [|reflexivity].
  destruct (get_conn a j); reflexivity.
Qed.

Lemma cupd_upd n i F : idp F -> cupd n (set_conns n (upd_conn (n_conns n) i F)) i F.
Proof. intros HF j. apply get_conn_upd, HF. Qed.

Lemma cupd_ext n n' i F G c :
  get_conn n i = Some c -> F c = G c -> cupd n n' i F -> cupd n n' i G.
Proof.
  intros Hc HFG H j. rewrite H. destruct (Nat.eqb j i) eqn:E; [|reflexivity].
  apply Nat.eqb_eq in E. subst j. rewrite Hc. cbn. rewrite HFG. reflexivity.
Qed.

Lemma cupd_none n n' i F G : get_conn n i = None -> cupd n n' i F -> cupd n n' i G.
Proof.
  intros Hc H j. rewrite H. destruct (Nat.eqb j i) eqn:E; [|reflexivity].
  apply Nat.eqb_eq in E. subst j. rewrite Hc. reflexivity.
Qed.

Lemma cupd_id n i : cupd n n i (fun c => c).
Proof. intros j. destruct (Nat.eqb j i); [|reflexivity]. destruct (get_conn n j); reflexivity. Qed.

Lemma send_message_cupd n cid m : cupd n (fst (send_message n cid m)) cid (qout m).
Proof. intros j. apply send_message_get. Qed.

(* ---- node originated requests ------------------------------------------------------------------- *)
Definition bump (c : conn) : conn := set_chbh c (seq_next (c_hbh c)).

Lemma own_request_spec n cid k :
  cupd n (fst (own_request n cid k)) cid bump /\
  frame n (fst (own_request n cid k)) /\
  o_cmd (snd (own_request n cid k)) = k /\ o_req (snd (own_request n cid k)) = true.
Proof.
  unfold own_request. destruct (get_conn n cid) as [cn|] eqn:Hc; cbn [fst snd o_cmd o_req].
  - split; [|repeat split].
    apply (cupd_ext _ _ _ (fun c => set_chbh c (seq_next (c_hbh cn))) bump cn Hc); [reflexivity|].
    intros j. change (get_conn (set_misc ?a _ _ _) j) with (get_conn a j).
    apply get_conn_upd. solve_idp.
  - split; [|repeat split]. apply (cupd_none _ _ _ (fun c => c)); [exact Hc|apply cupd_id].
Qed.

Lemma send_cer_spec n cid :
  exists m, snd (send_cer n cid) = [OQueue cid m] /\ o_cmd m = CE /\ o_req m = true /\
            cupd n (fst (send_cer n cid)) cid (fun c => qout m (bump c)) /\
            frame n (fst (send_cer n cid)).
Proof.
  unfold send_cer. destruct (own_request_spec n cid CE) as [Hu [Hf [Hk Hr]]].
  destruct (own_request n cid CE) as [n1 m]. cbn [fst snd] in *.
  exists m. split; [apply send_message_out|]. split; [exact Hk|]. split; [exact Hr|]. split.
  - eapply cupd_trans; [exact Hu|apply send_message_cupd].
  - eapply frame_trans; [exact Hf|apply send_message_frame].
Qed.

Definition wdmark (now : Z) (c : conn) : conn :=
  set_ctimes (if is_ready_state (c_state c) then set_cstate c SReadyWaitDwa else c) (c_last_read c) now.

Lemma send_dwr_spec n cid :
  exists m, snd (send_dwr n cid) = [OQueue cid m] /\ o_cmd m = DW /\ o_req m = true /\
            cupd n (fst (send_dwr n cid)) cid (fun c => wdmark (n_now n) (qout m (bump c))) /\
            frame n (fst (send_dwr n cid)).
Proof.
  unfold send_dwr. destruct (own_request_spec n cid DW) as [Hu [Hf [Hk Hr]]].
  destruct (own_request n cid DW) as [n1 m]. cbn [fst snd] in *.
  pose proof (send_message_out n1 cid m) as Ho.
  pose proof (send_message_cupd n1 cid m) as Hu2.
  pose proof (send_message_frame n1 cid m) as Hf2.
  destruct (send_message n1 cid m) as [n2 o]. cbn [fst snd] in *.
  exists m. split; [exact Ho|]. split; [exact Hk|]. split; [exact Hr|].
  assert (Hnow : n_now n2 = n_now n).
  { destruct Hf as [_ [_ [_ [H1 _]]]], Hf2 as [_ [_ [_ [H2 _]]]]. congruence. }
  split.
  - rewrite <- Hnow.
    apply (cupd_trans n n2 _ cid (fun c => qout m (bump c)) (wdmark (n_now n2))).
    + eapply cupd_trans; [exact Hu|exact Hu2].
    + apply cupd_upd. unfold wdmark. solve_idp.
  - eapply frame_trans; [exact Hf|]. eapply frame_trans; [exact Hf2|]. repeat split.
Qed.

Lemma send_dpr_spec n cid :
  exists m, snd (send_dpr n cid) = [OQueue cid m] /\ o_cmd m = DP /\ o_req m = true /\
            cupd n (fst (send_dpr n cid)) cid (fun c => qout m (set_cstate (bump c) SDisconnecting)) /\
            frame n (fst (send_dpr n cid)).
Proof.
  unfold send_dpr. destruct (own_request_spec n cid DP) as [Hu [Hf [Hk Hr]]].
  destruct (own_request n cid DP) as [n1 m]. cbn [fst snd] in *.
  exists m. split; [apply send_message_out|]. split; [exact Hk|]. split; [exact Hr|]. split.
  - eapply (cupd_trans _ _ _ cid (fun c => set_cstate (bump c) SDisconnecting) (qout m)); [|apply send_message_cupd].
    eapply (cupd_trans _ _ _ cid bump (fun c => set_cstate c SDisconnecting)); [exact Hu|].
    apply cupd_upd. solve_idp.
  - eapply frame_trans; [exact Hf|]. eapply frame_trans; [|apply send_message_frame]. repeat split.
Qed.

(* C06: the first thing queued on an outbound connection is a CER; the connection is CONNECTED and outbound *)
Theorem C06_outbound_first_is_cer n name h0 p :
  get_peer n name = Some p -> p_conn p = None -> p_has_addr p = true ->
  get_conn n (n_next_cid n) = None ->
  exists cer c',
    snd (connect_to_peer n name h0 DialOk) = [ODial name; OQueue (n_next_cid n) cer] /\
    o_cmd cer = CE /\ o_req cer = true /\
    get_conn (fst (connect_to_peer n name h0 DialOk)) (n_next_cid n) = Some c' /\
    c_state c' = SConnected /\ c_recv c' = false.
Proof.
  intros Hp Hpc Ha Hfresh. unfold connect_to_peer. rewrite Hp, Hpc, Ha. cbn [negb].
  set (cid := n_next_cid n).
  set (c := new_conn cid false SConnecting name (n_now n) h0).
  match goal with |- context [send_cer ?x cid] => set (n4 := x) end.
  assert (H4 : get_conn n4 cid = Some (set_cstate c SConnected)).
  { unfold n4. apply (get_conn_upd_same _ cid (fun x => set_cstate x SConnected) c); [solve_idp|].
    unfold get_conn. cbn [n_conns set_peers set_tables set_misc set_conns].
    rewrite find_app_conn. unfold get_conn in Hfresh. fold cid in Hfresh. rewrite Hfresh. cbn [c_id c new_conn].
    rewrite Nat.eqb_refl. reflexivity. }
  destruct (send_cer_spec n4 cid) as [m [Ho [Hk [Hr [Hu _]]]]].
  destruct (send_cer n4 cid) as [n5 o]. cbn [fst snd] in *. subst o.
  exists m. eexists. split; [reflexivity|]. split; [exact Hk|]. split; [exact Hr|].
  split; [rewrite Hu, Nat.eqb_refl, H4; reflexivity|]. split; reflexivity.
Qed.

(* C06: a CEA whose Result-Code is not 2001 closes the connection (CER_REJECTED) *)
Theorem C06_cea_rejected n cid m :
  m_result m <> Present 2001 ->
  recv_cea n cid m = close_conn n cid R_CER_REJECTED /\
  (forall c, get_conn n cid = Some c -> snd (recv_cea n cid m) = [OClose cid R_CER_REJECTED]).
Proof.
  intros Hr.
  assert (H : recv_cea n cid m = close_conn n cid R_CER_REJECTED).
  { unfold recv_cea. destruct (m_result m) as [| |z]; try reflexivity.
    destruct z as [|q|q]; try reflexivity.
    do 11 (try (destruct q as [q|q|]; try reflexivity)). congruence. }
  split; [exact H|]. intros c Hc. rewrite H. unfold close_conn. rewrite Hc. reflexivity.
Qed.

(* ---- effective timers -------------------------------------------------------------------------- *)
Definition eff (n : node) (c : conn) (sel : peer -> option Z) (d : cfg -> Z) : Z :=
  match find_conn_peer n c with
  | Some p => opt_or (sel p) (d (n_cfg n))
  | None => d (n_cfg n)
  end.
Definition eff_idle n c := eff n c p_idle g_idle.
Definition eff_dwa n c := eff n c p_dwa g_dwa.
Definition eff_cea n c := eff n c p_cea g_cea.
Definition eff_cer n c := eff n c p_cer g_cer.

(* C11: the definitional case analysis of check_timers with the effective timer values named *)
Theorem check_timers_unfold n cid c :
  n_stopping n = false -> get_conn n cid = Some c ->
  check_timers n cid =
  match c_state c with
  | SConnected =>
      if (negb (c_recv c) && (eff_cea n c <? n_now n - c_last_read c))
         || (c_recv c && (eff_cer n c <? n_now n - c_last_read c))
      then close_conn n cid R_FAILED_CE else (n, [])
  | SReadyWaitDwa =>
      if eff_dwa n c <? n_now n - c_last_dwr c then close_conn n cid R_DWA_TIMEOUT else (n, [])
  | SReady => if eff_idle n c <? n_now n - c_last_read c then send_dwr n cid else (n, [])
  | _ => (n, [])
  end.
Proof.
  intros Hs Hc. unfold check_timers, eff_idle, eff_dwa, eff_cea, eff_cer, eff. rewrite Hs, Hc.
  destruct (find_conn_peer n c); reflexivity.
Qed.

(* C11: the peer's own timer values (when set and non-zero) override the node's *)
Theorem C11_peer_overrides n c :
  (forall p, find_conn_peer n c = Some p ->
     eff_idle n c = opt_or (p_idle p) (g_idle (n_cfg n)) /\
     eff_dwa n c = opt_or (p_dwa p) (g_dwa (n_cfg n)) /\
     eff_cea n c = opt_or (p_cea p) (g_cea (n_cfg n)) /\
     eff_cer n c = opt_or (p_cer p) (g_cer (n_cfg n))) /\
  (find_conn_peer n c = None ->
     eff_idle n c = g_idle (n_cfg n) /\ eff_dwa n c = g_dwa (n_cfg n) /\
     eff_cea n c = g_cea (n_cfg n) /\ eff_cer n c = g_cer (n_cfg n)).
Proof.
  unfold eff_idle, eff_dwa, eff_cea, eff_cer, eff. split.
  - intros p ->. repeat split.
  - intros ->. repeat split.
Qed.

Lemma check_timers_stopping n cid : n_stopping n = true -> check_timers n cid = (n, []).
Proof. intros H. unfold check_timers. rewrite H. reflexivity. Qed.

Lemma check_timers_none n cid : get_conn n cid = None -> check_timers n cid = (n, []).
Proof. intros H. unfold check_timers. rewrite H. destruct (n_stopping n); reflexivity. Qed.

(* C06: a CONNECTED connection whose CER / CEA does not arrive within the effective timeout is closed (FAILED_CE) *)
Theorem C06_timeout n cid c :
  n_stopping n = false -> get_conn n cid = Some c -> c_state c = SConnected ->
  let t := if c_recv c then eff_cer n c else eff_cea n c in
  (t < n_now n - c_last_read c -> check_timers n cid = close_conn n cid R_FAILED_CE) /\
  (n_now n - c_last_read c <= t -> check_timers n cid = (n, [])).
Proof.
  intros Hs Hc Hst t. rewrite (check_timers_unfold n cid c Hs Hc), Hst. subst t.
  destruct (c_recv c); cbn [negb andb orb]; split; intros H.
  - apply Z.ltb_lt in H. rewrite H. reflexivity.
  - apply Z.ltb_ge in H. rewrite H. reflexivity.
  - apply Z.ltb_lt in H. rewrite H. reflexivity.
  - apply Z.ltb_ge in H. rewrite H. reflexivity.
Qed.

(* ================================================================================== *)
(* C11: watchdog                                                                      *)
(* ================================================================================== *)

(* C11: an idle READY connection gets exactly one DWR and becomes READY_WAITING_DWA, last_dwr = now *)
Theorem C11_idle_sends_one n cid c :
  n_stopping n = false -> get_conn n cid = Some c -> c_state c = SReady ->
  eff_idle n c < n_now n - c_last_read c ->
  exists dwr c',
    snd (check_timers n cid) = [OQueue cid dwr] /\ o_cmd dwr = DW /\ o_req dwr = true /\
    get_conn (fst (check_timers n cid)) cid = Some c' /\
    c_state c' = SReadyWaitDwa /\ c_last_dwr c' = n_now n.
Proof.
  intros Hs Hc Hst Hidle. rewrite (check_timers_unfold n cid c Hs Hc), Hst.
  apply Z.ltb_lt in Hidle. rewrite Hidle.
  destruct (send_dwr_spec n cid) as [m [Ho [Hk [Hr [Hu _]]]]].
  exists m. eexists. split; [exact Ho|]. split; [exact Hk|]. split; [exact Hr|].
  split; [rewrite Hu, Nat.eqb_refl, Hc; reflexivity|].
  unfold wdmark. cbn. rewrite Hst. cbn. split; reflexivity.
Qed.

(* C11: while the DWA is awaited and its timeout has not expired nothing more is sent *)
Theorem C11_no_second_dwr n cid c :
  get_conn n cid = Some c -> c_state c = SReadyWaitDwa ->
  n_now n - c_last_dwr c <= eff_dwa n c ->
  check_timers n cid = (n, []).
Proof.
  intros Hc Hst Hd. destruct (n_stopping n) eqn:Hs; [apply check_timers_stopping, Hs|].
  rewrite (check_timers_unfold n cid c Hs Hc), Hst. apply Z.ltb_ge in Hd. rewrite Hd. reflexivity.
Qed.

(* C11: a DWA turns READY_WAITING_DWA back into READY and clears last_dwr; nothing is sent *)
Theorem C11_dwa_restores n cid c :
  get_conn n cid = Some c -> c_state c = SReadyWaitDwa ->
  snd (recv_dwa n cid) = [] /\
  exists c', get_conn (fst (recv_dwa n cid)) cid = Some c' /\ c_state c' = SReady /\ c_last_dwr c' = 0.
Proof.
  intros Hc Hst. split; [reflexivity|]. unfold recv_dwa. cbn [fst].
  rewrite get_conn_upd by solve_idp. rewrite Nat.eqb_refl, Hc. cbn [option_map].
  eexists. split; [reflexivity|]. rewrite Hst. cbn. split; reflexivity.
Qed.

(* C11: no DWA within the effective DWA timeout closes the connection (DWA_TIMEOUT) *)
Theorem C11_silence_closes n cid c :
  n_stopping n = false -> get_conn n cid = Some c -> c_state c = SReadyWaitDwa ->
  eff_dwa n c < n_now n - c_last_dwr c ->
  check_timers n cid = close_conn n cid R_DWA_TIMEOUT /\
  snd (check_timers n cid) = [OClose cid R_DWA_TIMEOUT].
Proof.
  intros Hs Hc Hst Hd. rewrite (check_timers_unfold n cid c Hs Hc), Hst.
  apply Z.ltb_lt in Hd. rewrite Hd. split; [reflexivity|].
  rewrite (close_conn_some n cid _ c Hc). reflexivity.
Qed.

(* C11: a READY connection that was read from recently gets no DWR *)
Theorem C11_no_dwr_while_busy n cid c :
  get_conn n cid = Some c -> c_state c = SReady ->
  n_now n - c_last_read c <= eff_idle n c ->
  check_timers n cid = (n, []).
Proof.
  intros Hc Hst Hd. destruct (n_stopping n) eqn:Hs; [apply check_timers_stopping, Hs|].
  rewrite (check_timers_unfold n cid c Hs Hc), Hst. apply Z.ltb_ge in Hd. rewrite Hd. reflexivity.
Qed.

(* C11: a DWR arriving on a ready connection is answered with exactly one DWA 2001 *)
Theorem C11_dwr_answered n cid c m :
  get_conn n cid = Some c -> (c_state c = SReady \/ c_state c = SReadyWaitDwa) ->
  m_cmd m = DW -> m_req m = true -> m_missing m = [] -> m_t m = false ->
  snd (dispatch n cid m) = [OQueue cid (answer_of m (Some 2001) [])].
Proof.
  intros Hc Hst Hk Hr Hmi Ht. unfold dispatch. rewrite Hc.
  assert (Hg : gate_passes c m = true) by (unfold gate_passes; destruct Hst as [-> | ->]; reflexivity).
  rewrite Hg. unfold receive_message. rewrite Hr, Hmi, Ht, Hk.
  match goal with |- context [if ?b then [] else []] => destruct b end;
  destruct (m_origin m); cbn [andb]; unfold recv_dwr, RC_SUCCESS; apply send_message_out.
Qed.

(* C11: a second timer check at the same instant produces nothing *)
Theorem C11_timers_idempotent n cid n1 o1 :
  (forall c, get_conn n cid = Some c -> 0 <= eff_dwa n c) ->
  check_timers n cid = (n1, o1) -> snd (check_timers n1 cid) = [].
Proof.
  intros Hdwa H.
  assert (Hsame : check_timers n cid = (n, []) -> snd (check_timers n1 cid) = []).
  { intros E. rewrite E in H. inversion H; subst. rewrite E. reflexivity. }
  assert (Hclose : forall r, check_timers n cid = close_conn n cid r -> snd (check_timers n1 cid) = []).
  { intros r E. rewrite check_timers_none; [reflexivity|].
    change n1 with (fst (n1, o1)). rewrite <- H, E, close_conn_get, Nat.eqb_refl. reflexivity. }
  destruct (n_stopping n) eqn:Hs; [apply Hsame, check_timers_stopping, Hs|].
  destruct (get_conn n cid) as [c|] eqn:Hc; [|apply Hsame, check_timers_none, Hc].
  pose proof (check_timers_unfold n cid c Hs Hc) as Hu.
  destruct (c_state c) eqn:Hst; try (apply Hsame; exact Hu).
  - (* CONNECTED *)
    match type of Hu with _ = if ?b then _ else _ => destruct b end;
      [eapply Hclose; exact Hu|apply Hsame; exact Hu].
  - (* READY *)
    destruct (eff_idle n c <? n_now n - c_last_read c); [|apply Hsame; exact Hu].
    destruct (send_dwr_spec n cid) as [m [_ [_ [_ [Hcu Hfr]]]]].
    rewrite <- Hu, H in Hcu, Hfr. cbn [fst] in Hcu, Hfr.
    destruct Hfr as [Hp [_ [Hstop [Hnow Hcfg]]]].
    pose proof (Hcu cid) as H1. rewrite Nat.eqb_refl, Hc in H1. cbn [option_map] in H1.
    assert (Hs1 : n_stopping n1 = false) by congruence.
    rewrite (check_timers_unfold n1 cid _ Hs1 H1).
    unfold wdmark at 1. cbn [c_state set_ctimes qout set_cout bump set_chbh]. rewrite Hst.
    cbn [is_ready_state c_state set_cstate].
    assert (Heff : eff_dwa n1 (wdmark (n_now n) (qout m (bump c))) = eff_dwa n c).
    { unfold eff_dwa, eff, find_conn_peer, get_peer, wdmark. rewrite Hp, Hcfg. cbn [c_state qout bump set_cout set_chbh]. rewrite Hst. reflexivity. }
    rewrite Heff. unfold wdmark. cbn [c_last_dwr set_ctimes]. rewrite Hnow.
    specialize (Hdwa c eq_refl).
    destruct (eff_dwa n c <? n_now n - n_now n) eqn:E; [lia|reflexivity].
  - (* READY_WAITING_DWA *)
    destruct (eff_dwa n c <? n_now n - c_last_dwr c);
      [eapply Hclose; exact Hu|apply Hsame; exact Hu].
Qed.

(* ================================================================================== *)
(* C18: shutdown                                                                      *)
(* ================================================================================== *)

(* weak frame: peers keep their names; counters, clock, flag and configuration are kept *)
Definition wframe (n n' : node) : Prop :=
  pnames n' = pnames n /\ n_next_cid n' = n_next_cid n /\ n_stopping n' = n_stopping n /\
  n_now n' = n_now n /\ n_cfg n' = n_cfg n.
Lemma wframe_refl n : wframe n n.
Proof. repeat split. Qed.
Lemma wframe_trans a b c : wframe a b -> wframe b c -> wframe a c.
Proof. unfold wframe. intros [? [? [? [? ?]]]] [? [? [? [? ?]]]]. repeat split; congruence. Qed.
Lemma frame_wframe a b : frame a b -> wframe a b.
Proof. unfold frame, wframe, pnames. intros [-> [? [? [? ?]]]]. repeat split; assumption. Qed.

Lemma remove_conn_wframe n cid r : wframe n (remove_conn n cid r).
Proof. destruct (remove_conn_spec n cid r) as [_ [? [? [? [? ?]]]]]. repeat split; assumption. Qed.

Lemma close_conn_wframe n cid r : wframe n (fst (close_conn n cid r)).
Proof.
  unfold close_conn. destruct (get_conn n cid); cbn [fst]; [apply remove_conn_wframe|apply wframe_refl].
Qed.

Lemma close_conn_conns n cid r :
  n_conns (fst (close_conn n cid r)) = List.filter (fun x => negb (Nat.eqb (c_id x) cid)) (n_conns n).
Proof.
  unfold close_conn. destruct (get_conn n cid) eqn:Hc; cbn [fst].
  - apply remove_conn_spec.
  - symmetry. apply filter_ne_none. exact Hc.
Qed.

(* the OQueue outputs of an output list *)
Definition queued (l : list output) : list (nat * omsg) :=
  List.flat_map (fun o => match o with OQueue c m => [(c, m)] | _ => [] end) l.
Lemma queued_app a b : queued (a ++ b) = queued a ++ queued b.
Proof. apply List.flat_map_app. Qed.
Lemma queued_sends cid l : queued (List.map (OSend cid) l) = [].
Proof. induction l; [reflexivity|exact IHl]. Qed.

Definition dials_of (l : list output) : list string :=
  List.flat_map (fun o => match o with ODial p => [p] | _ => [] end) l.

Lemma flush_one_wframe n j : wframe n (fst (flush_one n j)).
Proof.
  unfold flush_one. destruct (get_conn n j) as [c|]; [|apply wframe_refl].
  destruct (c_stalled c || negb (c_sock_open c)); [apply wframe_refl|].
  destruct (c_out c); [repeat split|].
  destruct (cstate_eqb (c_state c) SClosing); [|repeat split].
  match goal with |- context [close_conn ?a ?b ?r] =>
    pose proof (close_conn_wframe a b r) as H; destruct (close_conn a b r) end.
  cbn [fst] in *. eapply wframe_trans; [|exact H]. repeat split.
Qed.

Lemma flush_one_queued n j : queued (snd (flush_one n j)) = [].
Proof.
  unfold flush_one. destruct (get_conn n j) as [c|]; [|reflexivity].
  destruct (c_stalled c || negb (c_sock_open c)); [reflexivity|].
  destruct (c_out c) as [|o os] eqn:Eo; [reflexivity|].
  destruct (cstate_eqb (c_state c) SClosing); [|apply queued_sends].
  unfold close_conn. match goal with |- context [get_conn ?a ?b] => destruct (get_conn a b) end;
    cbn [snd]; rewrite queued_app, queued_sends; reflexivity.
Qed.

Lemma flush_conns_wframe l : forall n, wframe n (fst (flush_conns n l)).
Proof.
  induction l as [|j r IH]; intros n; [apply wframe_refl|].
  rewrite flush_conns_cons. pose proof (flush_one_wframe n j) as H1.
  destruct (flush_one n j) as [n1 o1]. specialize (IH n1).
  destruct (flush_conns n1 r) as [n2 o2]. cbn [fst] in *. eapply wframe_trans; eassumption.
Qed.

Lemma flush_conns_queued l : forall n, queued (snd (flush_conns n l)) = [].
Proof.
  induction l as [|j r IH]; intros n; [reflexivity|].
  rewrite flush_conns_cons. pose proof (flush_one_queued n j) as H1.
  destruct (flush_one n j) as [n1 o1]. specialize (IH n1).
  destruct (flush_conns n1 r) as [n2 o2]. cbn [fst snd] in *. rewrite queued_app, H1, IH. reflexivity.
Qed.

Lemma timers_all_stopping l : forall n, n_stopping n = true -> timers_all n l = (n, []).
Proof.
  induction l as [|j r IH]; intros n Hs; [reflexivity|].
  cbn [timers_all]. rewrite (check_timers_stopping n j Hs), (IH n Hs). reflexivity.
Qed.

Lemma reconnect_all_stopping names : forall n ds, n_stopping n = true -> reconnect_all n names ds = (n, [], ds).
Proof.
  induction names as [|nm r IH]; intros n ds Hs; [reflexivity|].
  cbn [reconnect_all]. destruct (get_peer n nm) as [p|]; [|apply IH, Hs].
  unfold wants_reconnect. rewrite Hs. cbn [negb andb]. apply IH, Hs.
Qed.

Lemma io_iteration_stopping n ds :
  n_stopping n = true ->
  io_iteration n ds = (set_time n (n_now n) (n_now n + g_wakeup (n_cfg n)), [], ds).
Proof.
  intros Hs. unfold io_iteration. rewrite (timers_all_stopping _ n Hs), (reconnect_all_stopping _ n ds Hs).
  reflexivity.
Qed.

(* C18: while the node is stopping no timer fires, nobody is dialled, the I/O iteration outputs nothing *)
Theorem C18_quiet_while_stopping n :
  n_stopping n = true ->
  (forall cid, check_timers n cid = (n, [])) /\
  (forall names ds, dials_of (snd (fst (reconnect_all n names ds))) = [] /\
                    snd (fst (reconnect_all n names ds)) = []) /\
  (forall ds, snd (fst (io_iteration n ds)) = []).
Proof.
  intros Hs. split; [intros cid; apply check_timers_stopping, Hs|]. split.
  - intros names ds. rewrite (reconnect_all_stopping names n ds Hs). split; reflexivity.
  - intros ds. rewrite (io_iteration_stopping n ds Hs). reflexivity.
Qed.

(* C18: a connection accepted while stopping is closed at once and not registered *)
Theorem C18_newcomers_refused n ds h :
  n_stopping n = true ->
  n_conns (fst (step n ds (EAccept h))) = n_conns n /\
  snd (step n ds (EAccept h)) = [OClose (n_next_cid n) R_SHUTDOWN].
Proof. intros Hs. cbn [step]. rewrite Hs. split; reflexivity. Qed.

(* ---- EStopFinish ------------------------------------------------------------------------------ *)
Fixpoint close_all (cids : list nat) (n : node) (acc : list output) : node * list output :=
  match cids with
  | [] => (n, acc)
  | c :: r => let '(n', o') := close_conn n c R_SHUTDOWN in close_all r n' (acc ++ o')%list
  end.

Lemma step_stop_finish n ds tc te :
  step n ds (EStopFinish tc te) =
  let n0 := set_time n tc (n_io_deadline n) in
  let '(n1, o1) := close_all (List.map c_id (n_conns n0)) n0 [] in
  (set_time (set_apps n1 (List.map (fun a => set_awaiting a []) (n_apps n1))) te (n_io_deadline n1), o1).
Proof. reflexivity. Qed.

Lemma close_all_conns cids : forall n acc x,
  List.In x (n_conns (fst (close_all cids n acc))) -> List.In x (n_conns n) /\ ~ List.In (c_id x) cids.
Proof.
  induction cids as [|a r IH]; intros n acc x Hx; [cbn in Hx; tauto|].
  cbn [close_all] in Hx. pose proof (close_conn_conns n a R_SHUTDOWN) as Hc.
  destruct (close_conn n a R_SHUTDOWN) as [n' o']. cbn [fst] in Hc.
  apply IH in Hx. destruct Hx as [Hin Hnr]. rewrite Hc in Hin. apply List.filter_In in Hin.
  destruct Hin as [Hin Hne]. split; [exact Hin|]. intros [Ha|Hr]; [|tauto].
  subst a. rewrite Nat.eqb_refl in Hne. discriminate.
Qed.

Lemma close_all_acc cids : forall n acc x, List.In x acc -> List.In x (snd (close_all cids n acc)).
Proof.
  induction cids as [|a r IH]; intros n acc x Hx; [exact Hx|].
  cbn [close_all]. destruct (close_conn n a R_SHUTDOWN) as [n' o']. apply IH.
  apply List.in_or_app. left. exact Hx.
Qed.

Lemma find_in_some (l : list conn) c :
  List.In c l -> exists c', List.find (fun x => Nat.eqb (c_id x) (c_id c)) l = Some c'.
Proof.
  intros Hin. destruct (List.find (fun x => Nat.eqb (c_id x) (c_id c)) l) eqn:E; [eauto|].
  exfalso. apply (List.find_none _ _ E) in Hin. rewrite Nat.eqb_refl in Hin. discriminate.
Qed.

Lemma close_all_out cids : forall n acc c,
  List.In (c_id c) cids -> List.In c (n_conns n) ->
  List.In (OClose (c_id c) R_SHUTDOWN) (snd (close_all cids n acc)).
Proof.
  induction cids as [|a r IH]; intros n acc c Hj Hc; [destruct Hj|].
  cbn [close_all]. pose proof (close_conn_conns n a R_SHUTDOWN) as Hcc.
  destruct (Nat.eq_dec a (c_id c)) as [->|Hne].
  - destruct (find_in_some _ c Hc) as [c' Hc']. rewrite (close_conn_some n _ _ c' Hc').
    apply close_all_acc. apply List.in_or_app. right. left. reflexivity.
  - destruct (close_conn n a R_SHUTDOWN) as [n' o']. cbn [fst] in Hcc. apply IH.
    + destruct Hj; [congruence|assumption].
    + rewrite Hcc. apply List.filter_In. split; [exact Hc|].
      apply Bool.negb_true_iff, Nat.eqb_neq. congruence.
Qed.

(* C18: when stop() finishes no connection is left and each one was closed with NODE_SHUTDOWN *)
Theorem C18_all_closed n ds tc te :
  n_conns (fst (step n ds (EStopFinish tc te))) = [] /\
  (forall c, List.In c (n_conns n) -> List.In (OClose (c_id c) R_SHUTDOWN) (snd (step n ds (EStopFinish tc te)))).
Proof.
  rewrite step_stop_finish. cbn zeta.
  set (n0 := set_time n tc (n_io_deadline n)).
  pose proof (close_all_conns (List.map c_id (n_conns n0)) n0 []) as H1.
  pose proof (close_all_out (List.map c_id (n_conns n0)) n0 []) as H2.
  destruct (close_all (List.map c_id (n_conns n0)) n0 []) as [n1 o1]. cbn [fst snd] in *.
  cbn [fst snd n_conns set_time set_apps]. split.
  - destruct (n_conns n1) as [|x xs] eqn:E; [reflexivity|]. exfalso.
    destruct (H1 x (or_introl eq_refl)) as [Hin Hnot]. apply Hnot, List.in_map, Hin.
  - intros c Hc. apply H2; [apply List.in_map|]; exact Hc.
Qed.

(* C18: a DPA closes the connection at once (CLEAN) if nothing is buffered; otherwise the connection is
   CLOSING and the next flush that the socket accepts closes it *)
Theorem C18_close_after_dpa n cid c :
  get_conn n cid = Some c ->
  (c_out c = [] -> snd (recv_dpa n cid) = [OClose cid R_CLEAN] /\ get_conn (fst (recv_dpa n cid)) cid = None) /\
  (c_out c <> [] ->
     snd (recv_dpa n cid) = [] /\
     get_conn (fst (recv_dpa n cid)) cid = Some (set_cstate c SClosing) /\
     (c_stalled c = false -> c_sock_open c = true ->
      (exists pre post, snd (flush (fst (recv_dpa n cid))) =
                        pre ++ List.map (OSend cid) (c_out c) ++ [OClose cid R_CLEAN] ++ post) /\
      get_conn (fst (flush (fst (recv_dpa n cid)))) cid = None)).
Proof.
  intros Hc. unfold recv_dpa.
  pose proof (get_conn_upd_same n cid (fun x => set_cstate x SClosing) c (idp_cstate _) Hc) as H1.
  rewrite H1. cbn [c_out set_cstate]. split; intros Ho.
  - rewrite Ho. rewrite (close_conn_some _ cid _ _ H1). cbn [fst snd]. split; [reflexivity|].
    rewrite remove_conn_get, Nat.eqb_refl. reflexivity.
  - destruct (c_out c) as [|o os] eqn:Eo; [congruence|]. cbn [fst snd].
    split; [reflexivity|]. split; [exact H1|]. intros Hst Hso.
    pose proof (C06_unknown_then_closed _ cid _ H1 eq_refl Hst Hso) as HH.
    cbn [c_out set_cstate] in HH. rewrite Eo in HH. apply HH. discriminate.
Qed.

(* ---- EStop --------------------------------------------------------------------------------------- *)
Fixpoint dpr_all (cids : list nat) (n : node) (acc : list output) : node * list output :=
  match cids with
  | [] => (n, acc)
  | c :: r => match get_conn n c with
              | Some cn => if is_ready_state (c_state cn)
                           then let '(n', o') := send_dpr n c in dpr_all r n' (acc ++ o')%list
                           else dpr_all r n acc
              | None => dpr_all r n acc
              end
  end.

Lemma step_stop n ds force :
  step n ds (EStop force) =
  let n0 := set_misc n true (n_next_cid n) (n_e2e n) in
  if force then (n0, [])
  else let '(n1, o1) := dpr_all (List.map c_id (n_conns n0)) n0 [] in
       let '(n2, o2) := settle' n1 ds in (n2, (o1 ++ o2)%list).
Proof. reflexivity. Qed.

Definition readyb (n : node) (j : nat) : bool :=
  match get_conn n j with Some c => is_ready_state (c_state c) | None => false end.
Definition isdpr (cm : nat * omsg) : Prop := o_cmd (snd cm) = DP /\ o_req (snd cm) = true.

Lemma dpr_all_spec cids : forall n acc,
  List.NoDup cids ->
  List.map fst (queued (snd (dpr_all cids n acc))) = List.map fst (queued acc) ++ List.filter (readyb n) cids /\
  (List.Forall isdpr (queued acc) -> List.Forall isdpr (queued (snd (dpr_all cids n acc)))) /\
  n_stopping (fst (dpr_all cids n acc)) = n_stopping n.
Proof.
  induction cids as [|a r IH]; intros n acc Hnd.
  - cbn [dpr_all snd fst List.filter]. rewrite List.app_nil_r. auto.
  - inversion Hnd as [|? ? Hnotin Hnd']; subst. cbn [dpr_all List.filter]. unfold readyb at 1.
    destruct (get_conn n a) as [cn|] eqn:Hc; [|apply IH, Hnd'].
    destruct (is_ready_state (c_state cn)) eqn:Hr; [|apply IH, Hnd'].
    destruct (send_dpr_spec n a) as [m [Ho [Hk [Hq [Hcu Hfr]]]]].
    destruct (send_dpr n a) as [n' o']. cbn [fst snd] in *. subst o'.
    destruct (IH n' (acc ++ [OQueue a m]) Hnd') as [H1 [H2 H3]].
    assert (Hfilt : List.filter (readyb n') r = List.filter (readyb n) r).
    { apply List.filter_ext_in. intros j Hj. unfold readyb. rewrite Hcu.
      destruct (Nat.eqb j a) eqn:E; [|reflexivity]. apply Nat.eqb_eq in E. subst. contradiction. }
    split; [|split].
    + rewrite H1, Hfilt, queued_app, List.map_app, <- List.app_assoc. reflexivity.
    + intros HF. apply H2. rewrite queued_app. apply List.Forall_app. split; [exact HF|].
      constructor; [split; assumption|constructor].
    + rewrite H3. apply Hfr.
Qed.

Lemma nodup_get_conn n c :
  List.NoDup (List.map c_id (n_conns n)) -> List.In c (n_conns n) -> get_conn n (c_id c) = Some c.
Proof.
  unfold get_conn. induction (n_conns n) as [|x l IH]; intros Hnd Hin; [destruct Hin|].
  cbn [List.map] in Hnd. inversion Hnd as [|? ? Hnotin Hnd']; subst. cbn [List.find].
  destruct Hin as [->|Hin]; [rewrite Nat.eqb_refl; reflexivity|].
  destruct (Nat.eqb (c_id x) (c_id c)) eqn:E; [|apply IH; assumption].
  apply Nat.eqb_eq in E. exfalso. apply Hnotin. rewrite E. apply List.in_map, Hin.
Qed.

Lemma filter_readyb n l :
  (forall c, List.In c l -> get_conn n (c_id c) = Some c) ->
  List.filter (readyb n) (List.map c_id l) = List.map c_id (List.filter (fun c => is_ready_state (c_state c)) l).
Proof.
  induction l as [|x l IH]; intros H; [reflexivity|].
  cbn [List.map List.filter]. unfold readyb at 1. rewrite (H x (or_introl eq_refl)).
  rewrite IH by (intros c Hc; apply H; right; exact Hc).
  destruct (is_ready_state (c_state x)); reflexivity.
Qed.

Lemma settle'_stopping n ds :
  n_stopping n = true ->
  queued (snd (settle' n ds)) = [] /\ n_stopping (fst (settle' n ds)) = true.
Proof.
  intros Hs. unfold settle', settle, flush.
  pose proof (flush_conns_wframe (List.map c_id (n_conns n)) n) as Hw1.
  pose proof (flush_conns_queued (List.map c_id (n_conns n)) n) as Hq1.
  destruct (flush_conns n (List.map c_id (n_conns n))) as [n1 o1]. cbn [fst snd] in *.
  assert (Hs1 : n_stopping n1 = true) by (destruct Hw1 as [_ [_ [H _]]]; congruence).
  rewrite (io_iteration_stopping n1 ds Hs1).
  set (n2 := set_time n1 _ _).
  pose proof (flush_conns_wframe (List.map c_id (n_conns n2)) n2) as Hw2.
  pose proof (flush_conns_queued (List.map c_id (n_conns n2)) n2) as Hq2.
  destruct (flush_conns n2 (List.map c_id (n_conns n2))) as [n3 o3]. cbn [fst snd] in *.
  split.
  - cbn [List.app]. rewrite queued_app, Hq1, Hq2. reflexivity.
  - destruct Hw2 as [_ [_ [H _]]]. rewrite H. exact Hs1.
Qed.

(* C18: stop() queues exactly one DPR for each ready connection, in connection order, and nothing else;
   a forced stop sends nothing; the node is stopping afterwards *)
Theorem C18_dpr_to_ready n ds :
  List.NoDup (List.map c_id (n_conns n)) ->
  (List.map fst (queued (snd (step n ds (EStop false)))) =
     List.map c_id (List.filter (fun c => is_ready_state (c_state c)) (n_conns n)) /\
   List.Forall isdpr (queued (snd (step n ds (EStop false)))) /\
   n_stopping (fst (step n ds (EStop false))) = true) /\
  (snd (step n ds (EStop true)) = [] /\ n_stopping (fst (step n ds (EStop true))) = true).
Proof.
  intros Hnd. split; [|rewrite step_stop; split; reflexivity].
  rewrite step_stop. cbn zeta. cbv iota.
  set (n0 := set_misc n true (n_next_cid n) (n_e2e n)).
  destruct (dpr_all_spec (List.map c_id (n_conns n0)) n0 [] Hnd) as [H1 [H2 H3]].
  destruct (dpr_all (List.map c_id (n_conns n0)) n0 []) as [n1 o1]. cbn [fst snd] in *.
  destruct (settle'_stopping n1 ds H3) as [Hq Hs].
  destruct (settle' n1 ds) as [n2 o2]. cbn [fst snd] in *.
  rewrite queued_app, Hq, List.app_nil_r. split; [|split].
  - rewrite H1. cbn [queued List.flat_map List.map List.app].
    apply (filter_readyb n0 (n_conns n)). intros c Hc. apply (nodup_get_conn n c Hnd Hc).
  - apply H2. constructor.
  - exact Hs.
Qed.

(* ================================================================================== *)
(* C06_ready_only_by_ce: a relation between a node and its successors                  *)
(* ================================================================================== *)

(* per connection: the direction is kept; it is ready afterwards only if it was ready before (escape P);
   a CONNECTED connection stays CONNECTED (escape Q) *)
Definition crel (P Q : nat -> Prop) (j : nat) (c c' : conn) : Prop :=
  c_recv c' = c_recv c /\
  (is_ready_state (c_state c') = true -> is_ready_state (c_state c) = true \/ P j) /\
  (c_state c = SConnected -> c_state c' = SConnected \/ Q j).

(* peers keep their names, connection numbers only grow, and every connection afterwards is either new
   (numbered from the old counter on) or related by crel to the connection of that number before *)
Definition evolves (P Q : nat -> Prop) (n n' : node) : Prop :=
  pnames n' = pnames n /\ (n_next_cid n <= n_next_cid n')%nat /\
  forall j c', get_conn n' j = Some c' ->
    (n_next_cid n <= j < n_next_cid n')%nat \/ exists c, get_conn n j = Some c /\ crel P Q j c c'.

Definition NoP : nat -> Prop := fun _ => False.
Notation ev0 := (evolves NoP NoP).

Lemma crel_refl P Q j c : crel P Q j c c.
Proof. unfold crel. auto. Qed.

Lemma crel_trans P Q j a b c : crel P Q j a b -> crel P Q j b c -> crel P Q j a c.
Proof.
  unfold crel. intros [H1 [H2 H3]] [G1 [G2 G3]]. split; [congruence|]. split.
  - intros Hr. destruct (G2 Hr) as [Hb|Hp]; [apply H2, Hb|right; exact Hp].
  - intros Hs. destruct (H3 Hs) as [Hb|Hq]; [apply G3, Hb|right; exact Hq].
Qed.

Lemma crel_weaken (P Q P' Q' : nat -> Prop) j a b :
  (forall j, P j -> P' j) -> (forall j, Q j -> Q' j) -> crel P Q j a b -> crel P' Q' j a b.
Proof.
  unfold crel. intros HP HQ [H1 [H2 H3]]. split; [exact H1|]. split.
  - intros Hr. destruct (H2 Hr); auto.
  - intros Hs. destruct (H3 Hs); auto.
Qed.

Lemma ev_refl P Q n : evolves P Q n n.
Proof.
  split; [reflexivity|]. split; [lia|]. intros j c' H. right. exists c'. split; [exact H|apply crel_refl].
Qed.

Lemma ev_trans P Q a b c : evolves P Q a b -> evolves P Q b c -> evolves P Q a c.
Proof.
  intros [H1 [H2 H3]] [G1 [G2 G3]]. split; [congruence|]. split; [lia|].
  intros j c'' Hc. destruct (G3 j c'' Hc) as [Hle|[c' [Hc' Hr']]]; [left; lia|].
  destruct (H3 j c' Hc') as [Hle|[c0 [Hc0 Hr0]]]; [left; lia|].
  right. exists c0. split; [exact Hc0|]. eapply crel_trans; eassumption.
Qed.

Lemma ev_weaken (P Q P' Q' : nat -> Prop) a b :
  (forall j, P j -> P' j) -> (forall j, Q j -> Q' j) -> evolves P Q a b -> evolves P' Q' a b.
Proof.
  intros HP HQ [H1 [H2 H3]]. split; [exact H1|]. split; [exact H2|].
  intros j c' Hc. destruct (H3 j c' Hc) as [Hle|[c [Hc0 Hr]]]; [left; exact Hle|].
  right. exists c. split; [exact Hc0|]. eapply crel_weaken; eassumption.
Qed.

Lemma ev0_any P Q a b : ev0 a b -> evolves P Q a b.
Proof. apply ev_weaken; intros j []. Qed.

Lemma ev_same P Q n n' :
  n_conns n' = n_conns n -> pnames n' = pnames n -> (n_next_cid n <= n_next_cid n')%nat -> evolves P Q n n'.
Proof.
  intros Hc Hp Hn. split; [exact Hp|]. split; [exact Hn|]. intros j c' H. right. exists c'.
  split; [|apply crel_refl]. rewrite <- H. apply get_conn_ext. symmetry. exact Hc.
Qed.

Lemma ev_cupd P Q n n' i F :
  pnames n' = pnames n -> (n_next_cid n <= n_next_cid n')%nat -> cupd n n' i F ->
  (forall c, get_conn n i = Some c -> crel P Q i c (F c)) -> evolves P Q n n'.
Proof.
  intros Hp Hn Hu HF. split; [exact Hp|]. split; [exact Hn|]. intros j c' H. right.
  rewrite Hu in H. destruct (Nat.eqb j i) eqn:E.
  - apply Nat.eqb_eq in E. subst j. destruct (get_conn n i) as [c|] eqn:Hc; [|discriminate].
    cbn in H. inversion H; subst. exists c. split; [reflexivity|]. apply HF. reflexivity.
  - exists c'. split; [exact H|apply crel_refl].
Qed.

Lemma ev_wframe_cupd P Q n n' i F :
  wframe n n' -> cupd n n' i F ->
  (forall c, get_conn n i = Some c -> crel P Q i c (F c)) -> evolves P Q n n'.
Proof. intros [Hp [Hn _]] Hu HF. eapply ev_cupd; [exact Hp|lia|exact Hu|exact HF]. Qed.

Lemma ev_close P Q n cid r : evolves P Q n (fst (close_conn n cid r)).
Proof.
  destruct (close_conn_wframe n cid r) as [Hp [Hn _]]. split; [exact Hp|]. split; [lia|].
  intros j c' H. rewrite close_conn_get in H. destruct (Nat.eqb j cid); [discriminate|].
  right. exists c'. split; [exact H|apply crel_refl].
Qed.

Ltac solve_crel :=
  let c := fresh "c" in let H := fresh "H" in let E := fresh "E" in
  intros c H; unfold crel, wdmark, qout, bump; cbn;
  destruct (c_state c) eqn:E; cbn; rewrite ?E; cbn; repeat split; auto; try (intros; discriminate).

Lemma ev_upd P Q n i F :
  idp F -> (forall c, get_conn n i = Some c -> crel P Q i c (F c)) ->
  evolves P Q n (set_conns n (upd_conn (n_conns n) i F)).
Proof. intros HF HR. eapply ev_cupd; [reflexivity|apply Nat.le_refl|apply cupd_upd, HF|exact HR]. Qed.

Lemma ev_send_message P Q n cid m : evolves P Q n (fst (send_message n cid m)).
Proof.
  eapply ev_wframe_cupd; [apply frame_wframe, send_message_frame|apply send_message_cupd|]. solve_crel.
Qed.

Lemma ev_send_cer P Q n cid : evolves P Q n (fst (send_cer n cid)).
Proof.
  destruct (send_cer_spec n cid) as [m [_ [_ [_ [Hu Hf]]]]].
  eapply ev_wframe_cupd; [apply frame_wframe, Hf|exact Hu|]. solve_crel.
Qed.

Lemma ev_send_dwr P Q n cid : evolves P Q n (fst (send_dwr n cid)).
Proof.
  destruct (send_dwr_spec n cid) as [m [_ [_ [_ [Hu Hf]]]]].
  eapply ev_wframe_cupd; [apply frame_wframe, Hf|exact Hu|]. solve_crel.
Qed.

Lemma ev_send_dpr P Q n cid c :
  get_conn n cid = Some c -> is_ready_state (c_state c) = true -> evolves P Q n (fst (send_dpr n cid)).
Proof.
  intros Hc Hr. destruct (send_dpr_spec n cid) as [m [_ [_ [_ [Hu Hf]]]]].
  eapply ev_wframe_cupd; [apply frame_wframe, Hf|exact Hu|].
  intros c0 Hc0. rewrite Hc in Hc0. inversion Hc0; subst c0. unfold crel, qout, bump. cbn.
  split; [reflexivity|]. split; [discriminate|]. intros Hs. rewrite Hs in Hr. discriminate.
Qed.

Lemma ev_flush_one n j : ev0 n (fst (flush_one n j)).
Proof.
  unfold flush_one. destruct (get_conn n j) as [c|]; [|apply ev_refl].
  destruct (c_stalled c || negb (c_sock_open c)); [apply ev_refl|].
  assert (H1 : ev0 n (set_conns n (upd_conn (n_conns n) j (fun c => set_cout c []))))
    by (apply ev_upd; [solve_idp|solve_crel]).
  destruct (c_out c); [exact H1|].
  destruct (cstate_eqb (c_state c) SClosing); [|exact H1].
  match goal with |- context [close_conn ?a ?b ?r] =>
    pose proof (ev_close NoP NoP a b r) as H2; destruct (close_conn a b r) end.
  cbn [fst] in *. eapply ev_trans; eassumption.
Qed.

Lemma ev_flush_conns l : forall n, ev0 n (fst (flush_conns n l)).
Proof.
  induction l as [|j r IH]; intros n; [apply ev_refl|].
  rewrite flush_conns_cons. pose proof (ev_flush_one n j) as H1.
  destruct (flush_one n j) as [n1 o1]. specialize (IH n1).
  destruct (flush_conns n1 r) as [n2 o2]. cbn [fst] in *. eapply ev_trans; eassumption.
Qed.

Lemma ev_flush n : ev0 n (fst (flush n)).
Proof. apply ev_flush_conns. Qed.

Lemma ev_check_timers n cid : ev0 n (fst (check_timers n cid)).
Proof.
  unfold check_timers. destruct (n_stopping n); [apply ev_refl|].
  destruct (get_conn n cid) as [c|]; [|apply ev_refl].
  destruct (c_state c); try apply ev_refl.
  - match goal with |- context [if ?b then _ else _] => destruct b end; [apply ev_close|apply ev_refl].
  - match goal with |- context [if ?b then _ else _] => destruct b end; [apply ev_send_dwr|apply ev_refl].
  - match goal with |- context [if ?b then _ else _] => destruct b end; [apply ev_close|apply ev_refl].
Qed.

Lemma ev_timers_all l : forall n, ev0 n (fst (timers_all n l)).
Proof.
  induction l as [|j r IH]; intros n; [apply ev_refl|].
  cbn [timers_all]. pose proof (ev_check_timers n j) as H1.
  destruct (check_timers n j) as [n1 o1]. specialize (IH n1).
  destruct (timers_all n1 r) as [n2 o2]. cbn [fst] in *. eapply ev_trans; eassumption.
Qed.

Lemma ev_add P Q n n' c :
  n_conns n' = n_conns n ++ [c] -> c_id c = n_next_cid n -> n_next_cid n' = S (n_next_cid n) ->
  pnames n' = pnames n -> evolves P Q n n'.
Proof.
  intros Hc Hid Hn Hp. split; [exact Hp|]. split; [lia|]. intros j c' H.
  unfold get_conn in H. rewrite Hc, find_app_conn in H. fold (get_conn n j) in H.
  destruct (get_conn n j) as [x|] eqn:Hx.
  - right. exists x. split; [reflexivity|]. inversion H; subst. apply crel_refl.
  - left. destruct (Nat.eqb (c_id c) j) eqn:E; [|discriminate]. apply Nat.eqb_eq in E. lia.
Qed.

Lemma ev_connect_to_peer n name h0 res : ev0 n (fst (connect_to_peer n name h0 res)).
Proof.
  unfold connect_to_peer. destruct (get_peer n name) as [p|]; [|apply ev_refl].
  destruct (p_conn p); [apply ev_refl|]. destruct (negb (p_has_addr p)); [apply ev_refl|].
  set (cid := n_next_cid n). set (c := new_conn cid false SConnecting name (n_now n) h0).
  match goal with |- context [close_conn ?x cid R_SOCKET_FAIL] => set (n3 := x) end.
  assert (H3 : ev0 n n3).
  { apply (ev_add _ _ n n3 c); try reflexivity. unfold pnames, n3. cbn [n_peers set_peers].
    apply upd_peer_names. reflexivity. }
  destruct res.
  - assert (H4 : ev0 n3 (set_conns n3 (upd_conn (n_conns n3) cid (fun c => set_cstate c SConnected))))
      by (apply ev_upd; [solve_idp|solve_crel]).
    match goal with |- context [send_cer ?x cid] => pose proof (ev_send_cer NoP NoP x cid) as H5;
      destruct (send_cer x cid) as [n5 o] end.
    cbn [fst] in *. eapply ev_trans; [exact H3|]. eapply ev_trans; eassumption.
  - pose proof (ev_close NoP NoP n3 cid R_SOCKET_FAIL) as H4.
    destruct (close_conn n3 cid R_SOCKET_FAIL) as [n4 o]. cbn [fst] in *. eapply ev_trans; eassumption.
  - exact H3.
Qed.

Lemma ev_reconnect_all names : forall n ds, ev0 n (fst (fst (reconnect_all n names ds))).
Proof.
  induction names as [|nm r IH]; intros n ds; [apply ev_refl|].
  cbn [reconnect_all]. destruct (get_peer n nm) as [p|]; [|apply IH].
  destruct (wants_reconnect n p && p_has_addr p); [|apply IH].
  destruct ds as [|[h0 res] dr].
  - pose proof (ev_connect_to_peer n nm 0 DialOk) as H1.
    destruct (connect_to_peer n nm 0 DialOk) as [n1 o1]. specialize (IH n1 []).
    destruct (reconnect_all n1 r []) as [[n2 o2] d2]. cbn [fst] in *. eapply ev_trans; eassumption.
  - pose proof (ev_connect_to_peer n nm h0 res) as H1.
    destruct (connect_to_peer n nm h0 res) as [n1 o1]. specialize (IH n1 dr).
    destruct (reconnect_all n1 r dr) as [[n2 o2] d2]. cbn [fst] in *. eapply ev_trans; eassumption.
Qed.

Lemma ev_io_iteration n ds : ev0 n (fst (fst (io_iteration n ds))).
Proof.
  unfold io_iteration. pose proof (ev_timers_all (List.map c_id (n_conns n)) n) as H1.
  destruct (timers_all n (List.map c_id (n_conns n))) as [n1 o1].
  pose proof (ev_reconnect_all (List.map p_name (n_peers n1)) n1 ds) as H2.
  destruct (reconnect_all n1 (List.map p_name (n_peers n1)) ds) as [[n2 o2] ds']. cbn [fst] in *.
  eapply ev_trans; [exact H1|]. eapply ev_trans; [exact H2|]. apply ev_same; reflexivity.
Qed.

Lemma ev_settle n ds : ev0 n (fst (fst (settle n ds))).
Proof.
  unfold settle. pose proof (ev_flush n) as H1. destruct (flush n) as [n1 o1].
  pose proof (ev_io_iteration n1 ds) as H2. destruct (io_iteration n1 ds) as [[n2 o2] ds'].
  pose proof (ev_flush n2) as H3. destruct (flush n2) as [n3 o3]. cbn [fst] in *.
  eapply ev_trans; [exact H1|]. eapply ev_trans; eassumption.
Qed.

Lemma ev_settle' n ds : ev0 n (fst (settle' n ds)).
Proof.
  unfold settle'. pose proof (ev_settle n ds) as H. destruct (settle n ds) as [[n1 o1] d]. exact H.
Qed.

(* ---- handlers ------------------------------------------------------------------------------------ *)
Definition Qc (cid : nat) : nat -> Prop := fun j => j = cid.

(* a CER of a configured peer, or a CEA with Result-Code 2001 *)
Definition ce_any (pn : list string) (m : msg) : Prop :=
  m_cmd m = CE /\
  ((m_req m = true /\ exists h, m_origin m = Present h /\ List.In h pn) \/
   (m_req m = false /\ m_result m = Present 2001)).
(* the same with the direction fixed: CER on an inbound (b = true), CEA on an outbound connection *)
Definition ce_ok (pn : list string) (b : bool) (m : msg) : Prop :=
  m_cmd m = CE /\
  if b then m_req m = true /\ exists h, m_origin m = Present h /\ List.In h pn
  else m_req m = false /\ m_result m = Present 2001.
Definition PA (cid : nat) (pn : list string) (ms : list msg) : nat -> Prop :=
  fun j => j = cid /\ exists m, List.In m ms /\ ce_any pn m.

Lemma ce_ok_any pn b m : ce_ok pn b m -> ce_any pn m.
Proof. unfold ce_ok, ce_any. intros [H1 H2]. split; [exact H1|]. destruct b; auto. Qed.

Lemma get_peer_in n h p : get_peer n h = Some p -> List.In h (pnames n).
Proof.
  unfold get_peer, pnames. intros H. apply List.find_some in H. destruct H as [Hin He].
  apply String.eqb_eq in He. subst h. apply List.in_map, Hin.
Qed.

Lemma in_pnames_get_peer n h : List.In h (pnames n) -> get_peer n h <> None.
Proof.
  unfold pnames, get_peer. intros Hin Hn. apply List.in_map_iff in Hin. destruct Hin as [p [Hp Hin]].
  apply (List.find_none _ _ Hn) in Hin. subst h. rewrite String.eqb_refl in Hin. discriminate.
Qed.

Lemma ev_upd_keep P Q n i F :
  idp F -> (forall c, c_recv (F c) = c_recv c /\ c_state (F c) = c_state c) ->
  evolves P Q n (set_conns n (upd_conn (n_conns n) i F)).
Proof.
  intros HF HK. apply ev_upd; [exact HF|]. intros c _. destruct (HK c) as [H1 H2].
  unfold crel. rewrite H1, H2. auto.
Qed.

Lemma ev_upd_escape (P Q : nat -> Prop) n i F :
  idp F -> (forall c, c_recv (F c) = c_recv c) -> P i -> Q i ->
  evolves P Q n (set_conns n (upd_conn (n_conns n) i F)).
Proof.
  intros HF HK HP HQ. apply ev_upd; [exact HF|]. intros c _. unfold crel. rewrite HK. auto.
Qed.

Lemma ev_assign P Q n cid : evolves P Q n (assign_peer_conn n cid).
Proof.
  unfold assign_peer_conn. destruct (get_conn n cid) as [c|]; [|apply ev_refl].
  destruct (String.eqb (c_host c) ""); [apply ev_refl|].
  destruct (get_peer n (c_host c)); [|apply ev_refl].
  destruct (mem_nat cid (n_half_ready n)); (apply ev_same; [reflexivity| |apply Nat.le_refl]);
    unfold pnames; cbn [n_peers set_peers set_tables]; apply upd_peer_names; reflexivity.
Qed.

Lemma ev_flag_ready (P Q : nat -> Prop) n cid : P cid -> Q cid -> evolves P Q n (flag_ready n cid).
Proof.
  intros HP HQ. unfold flag_ready.
  eapply ev_trans; [apply (ev_upd_escape P Q n cid (fun c => set_cstate c SReady)); auto; solve_idp|].
  apply ev_same; reflexivity.
Qed.

Lemma ev_recv_dwa n cid : ev0 n (fst (recv_dwa n cid)).
Proof. unfold recv_dwa. cbn [fst]. apply ev_upd; [solve_idp|solve_crel]. Qed.

Lemma ev_recv_dpr P n cid m : evolves P (Qc cid) n (fst (recv_dpr n cid m)).
Proof.
  unfold recv_dpr. eapply ev_trans; [|apply ev_send_message].
  set (n1 := set_conns n _).
  assert (H1 : evolves P (Qc cid) n n1).
  { apply ev_upd; [solve_idp|]. intros c _. unfold crel. cbn. split; [reflexivity|].
    split; [discriminate|]. intros _. right. reflexivity. }
  eapply ev_trans; [exact H1|].
  destruct (get_conn n1 cid) as [c|]; [|apply ev_refl].
  destruct (find_conn_peer n1 c); [|apply ev_refl].
  apply ev_same; [reflexivity| |apply Nat.le_refl].
  unfold pnames. cbn [n_peers set_peers]. apply upd_peer_names. reflexivity.
Qed.

Lemma ev_recv_dpa P n cid : evolves P (Qc cid) n (fst (recv_dpa n cid)).
Proof.
  unfold recv_dpa. set (n1 := set_conns n _).
  assert (H1 : evolves P (Qc cid) n n1).
  { apply ev_upd; [solve_idp|]. intros c _. unfold crel. cbn. split; [reflexivity|].
    split; [discriminate|]. intros _. right. reflexivity. }
  destruct (get_conn n1 cid) as [c|]; [|exact H1].
  destruct (c_out c); [|exact H1]. eapply ev_trans; [exact H1|apply ev_close].
Qed.

Lemma ev_recv_app_request P Q n cid m : evolves P Q n (fst (recv_app_request n cid m)).
Proof.
  unfold recv_app_request. destruct (get_conn n cid) as [c|]; [|apply ev_refl].
  destruct (m_drealm m); try apply ev_send_message.
  destruct (route_lookup n a); [|apply ev_send_message].
  match goal with |- context [List.find ?f l] => destruct (List.find f l) as [[[i|] ?]|] end;
    try apply ev_send_message.
  cbn [fst]. apply ev_same; reflexivity.
Qed.

Lemma ev_recv_app_answer P Q n m : evolves P Q n (fst (recv_app_answer n m)).
Proof.
  unfold recv_app_answer.
  match goal with |- context [List.find ?f ?l] => destruct (List.find f l) as [[[? ?] i]|] end;
    [|apply ev_refl].
  destruct (List.nth_error (n_apps n) i) as [a|]; [|apply ev_refl].
  destruct (mem_z (m_hbh m) (List.map fst (a_waiting a))); cbn [fst]; apply ev_same; reflexivity.
Qed.

Lemma ev_recv_cer (Q : nat -> Prop) n cid m :
  m_cmd m = CE -> m_req m = true -> Q cid ->
  evolves (PA cid (pnames n) [m]) Q n (fst (recv_cer n cid m)).
Proof.
  intros Hk Hr HQ. unfold recv_cer. destruct (m_origin m) as [| |host] eqn:Ho; cbn [pres_get]; try apply ev_refl.
  destruct (get_peer n host) as [p|] eqn:Hp.
  - assert (HP : PA cid (pnames n) [m] cid).
    { split; [reflexivity|]. exists m. split; [left; reflexivity|]. split; [exact Hk|]. left.
      split; [exact Hr|]. exists host. split; [exact Ho|]. eapply get_peer_in, Hp. }
    set (n1 := set_conns n _).
    assert (H1 : evolves (PA cid (pnames n) [m]) Q n n1).
    { apply ev_upd_keep; [solve_idp|]. intros c. destruct (String.eqb (c_node_name c) ""); split; reflexivity. }
    destruct (inter_z (node_auth n1) (m_auth m)); destruct (inter_z (node_acct n1) (m_acct m));
      destruct (mem_z APP_RELAY (m_auth m) || mem_z APP_RELAY (m_acct m));
      try (eapply ev_trans; [exact H1|apply ev_send_message]);
      (eapply ev_trans; [|apply ev_send_message]);
      (eapply ev_trans; [|apply ev_flag_ready; [exact HP|exact HQ]]);
      (eapply ev_trans; [|apply ev_assign]);
      (eapply ev_trans; [exact H1|]);
      (apply ev_upd_keep; [solve_idp|intros c; split; reflexivity]).
  - eapply ev_trans; [|apply ev_send_message].
    apply ev_upd; [solve_idp|]. intros c _. unfold crel. cbn. split; [reflexivity|].
    split; [discriminate|]. intros _. right. exact HQ.
Qed.

Lemma recv_cea_rejected n cid m :
  m_result m <> Present 2001 -> recv_cea n cid m = close_conn n cid R_CER_REJECTED.
Proof. intros H. apply C06_cea_rejected, H. Qed.

Lemma ev_recv_cea (Q : nat -> Prop) n cid m :
  m_cmd m = CE -> m_req m = false -> Q cid ->
  evolves (PA cid (pnames n) [m]) Q n (fst (recv_cea n cid m)).
Proof.
  intros Hk Hr HQ.
  destruct (m_result m) as [| |z] eqn:Er;
    try (rewrite (recv_cea_rejected n cid m) by (rewrite Er; discriminate); apply ev_close).
  destruct (Z.eq_dec z 2001) as [->|Hne];
    [|rewrite (recv_cea_rejected n cid m) by (rewrite Er; congruence); apply ev_close].
  assert (HP : PA cid (pnames n) [m] cid).
  { split; [reflexivity|]. exists m. split; [left; reflexivity|]. split; [exact Hk|]. right. auto. }
  unfold recv_cea. rewrite Er. set (n1 := set_conns n _).
  assert (H1 : evolves (PA cid (pnames n) [m]) Q n n1)
    by (apply ev_upd_keep; [solve_idp|intros c; split; reflexivity]).
  destruct (pres_get (m_origin m)) as [host|]; [|exact H1]. cbn [fst].
  eapply ev_trans; [|apply ev_flag_ready; [exact HP|exact HQ]].
  eapply ev_trans; [|apply ev_assign].
  eapply ev_trans; [exact H1|].
  apply ev_upd_keep; [solve_idp|intros c; split; reflexivity].
Qed.

Lemma ev_receive_message n cid m :
  evolves (PA cid (pnames n) [m]) (Qc cid) n (fst (receive_message n cid m)).
Proof.
  unfold receive_message. cbv zeta.
  match goal with |- context [send_message ?x cid (answer_of m (Some RC_MISSING_AVP) _)] => set (n0 := x) end.
  assert (H0 : ev0 n n0).
  { unfold n0. destruct (m_origin m); destruct (m_req m); try apply ev_refl; apply ev_same; reflexivity. }
  assert (Hpn : pnames n0 = pnames n) by apply H0.
  clearbody n0. eapply ev_trans; [apply ev0_any, H0|]. rewrite <- Hpn.
  match goal with |- context [match ?l with [] => _ | _ :: _ => _ end] => destruct l end;
    [|apply ev_send_message].
  match goal with |- context [if ?b then send_message _ _ _ else _] => destruct b end;
    [apply ev_send_message|].
  destruct (m_req m) eqn:Hr; destruct (m_cmd m) eqn:Hk.
  - destruct (m_origin m); try apply ev_send_message. apply ev_recv_cer; auto. reflexivity.
  - apply ev_send_message.
  - apply ev_recv_dpr.
  - apply ev_recv_app_request.
  - apply ev_recv_cea; auto. reflexivity.
  - apply ev0_any, ev_recv_dwa.
  - apply ev_recv_dpa.
  - apply ev_recv_app_answer.
Qed.

Lemma ev_dispatch n cid m : evolves (PA cid (pnames n) [m]) (Qc cid) n (fst (dispatch n cid m)).
Proof.
  unfold dispatch. destruct (get_conn n cid) as [c|]; [|apply ev_refl].
  destruct (gate_passes c m); [apply ev_receive_message|apply ev_refl].
Qed.

Lemma PA_weaken cid pn ms ms' j : (forall m, List.In m ms -> List.In m ms') -> PA cid pn ms j -> PA cid pn ms' j.
Proof. intros Hsub [Hj [m [Hin Hm]]]. split; [exact Hj|]. exists m. split; [apply Hsub, Hin|exact Hm]. Qed.

Lemma ev_dispatch_all ms : forall n cid, evolves (PA cid (pnames n) ms) (Qc cid) n (fst (dispatch_all n cid ms)).
Proof.
  induction ms as [|m r IH]; intros n cid; [apply ev_refl|].
  cbn [dispatch_all]. pose proof (ev_dispatch n cid m) as H1.
  destruct (dispatch n cid m) as [n1 o1]. specialize (IH n1 cid).
  destruct (dispatch_all n1 cid r) as [n2 o2]. cbn [fst] in *.
  assert (Hpn : pnames n1 = pnames n) by apply H1. rewrite Hpn in IH.
  eapply ev_trans.
  - eapply ev_weaken; [| |exact H1]; [|auto]. intros j. apply PA_weaken. intros x [->|[]]. left. reflexivity.
  - eapply ev_weaken; [| |exact IH]; [|auto]. intros j. apply PA_weaken. intros x Hx. right. exact Hx.
Qed.

(* ---- what one frame can do to a CONNECTED connection ---------------------------------------------- *)
Definition conn_outcome (n' : node) (cid : nat) (b : bool) (pn : list string) (m : msg) : Prop :=
  get_conn n' cid = None \/
  (exists c', get_conn n' cid = Some c' /\ c_recv c' = b /\ (c_state c' = SConnected \/ c_state c' = SClosing)) \/
  ce_ok pn b m.

Lemma co_send n0 cid c a b pn m :
  get_conn n0 cid = Some c -> c_recv c = b -> (c_state c = SConnected \/ c_state c = SClosing) ->
  conn_outcome (fst (send_message n0 cid a)) cid b pn m.
Proof.
  intros Hc Hb Hs. right. left. exists (qout a c).
  split; [rewrite send_message_get, Nat.eqb_refl, Hc; reflexivity|]. split; [exact Hb|exact Hs].
Qed.

Lemma co_recv_cer n0 cid c m host :
  get_conn n0 cid = Some c -> c_state c = SConnected -> c_recv c = true ->
  m_cmd m = CE -> m_req m = true -> m_origin m = Present host ->
  conn_outcome (fst (recv_cer n0 cid m)) cid true (pnames n0) m.
Proof.
  intros Hc Hs Hb Hk Hr Ho. unfold recv_cer. rewrite Ho. cbn [pres_get].
  destruct (get_peer n0 host) as [p|] eqn:Hp.
  - right. right. split; [exact Hk|]. split; [exact Hr|]. exists host. split; [exact Ho|].
    eapply get_peer_in, Hp.
  - eapply co_send.
    + apply (get_conn_upd_same n0 cid (fun x => set_cstate x SClosing) c); [solve_idp|exact Hc].
    + exact Hb.
    + right. reflexivity.
Qed.

Lemma co_recv_cea n0 cid pn m :
  m_cmd m = CE -> m_req m = false ->
  conn_outcome (fst (recv_cea n0 cid m)) cid false pn m.
Proof.
  intros Hk Hr.
  assert (Hrej : m_result m <> Present 2001 -> conn_outcome (fst (recv_cea n0 cid m)) cid false pn m).
  { intros H. left. rewrite (recv_cea_rejected n0 cid m H), close_conn_get, Nat.eqb_refl. reflexivity. }
  destruct (m_result m) as [| |z] eqn:Er; try (apply Hrej; discriminate).
  destruct (Z.eq_dec z 2001) as [->|Hne]; [|apply Hrej; congruence].
  right. right. split; [exact Hk|]. split; [exact Hr|exact Er].
Qed.

Lemma co_dispatch n cid c m :
  get_conn n cid = Some c -> c_state c = SConnected ->
  conn_outcome (fst (dispatch n cid m)) cid (c_recv c) (pnames n) m.
Proof.
  intros Hc Hs. unfold dispatch. rewrite Hc. unfold gate_passes. rewrite Hs.
  assert (Hstay : conn_outcome n cid (c_recv c) (pnames n) m).
  { right. left. exists c. auto. }
  destruct (m_cmd m) eqn:Hk; cbn [cmd_eqb andb fst]; try exact Hstay.
  destruct (c_recv c) eqn:Hb; destruct (m_req m) eqn:Hr; cbn [negb fst]; try exact Hstay.
  - (* inbound, CER *)
    unfold receive_message. cbv zeta. rewrite Hr, Hk.
    assert (Hsm : forall n0 a, get_conn n0 cid = Some c ->
                   conn_outcome (fst (send_message n0 cid a)) cid true (pnames n) m)
      by (intros n0 a H0; eapply co_send; [exact H0|exact Hb|left; exact Hs]).
    destruct (m_origin m) as [| |host] eqn:Ho;
      (match goal with |- context [match ?l with [] => _ | _ :: _ => _ end] => destruct l end;
       [|apply Hsm; exact Hc]);
      cbv iota; try (apply Hsm; exact Hc);
      (match goal with |- context [if ?b then send_message _ _ _ else _] => destruct b end;
       cbv iota; try (apply Hsm; exact Hc)).
    match goal with |- conn_outcome (fst (recv_cer ?n0 _ _)) _ _ _ _ => change (pnames n) with (pnames n0) end.
    apply (co_recv_cer _ cid c m host); auto.
  - (* outbound, CEA *)
    unfold receive_message. cbv zeta. rewrite Hr, Hk. cbn [andb].
    destruct (m_origin m); apply co_recv_cea; auto.
Qed.

Lemma dispatch_all_dead ms : forall n cid,
  (get_conn n cid = None \/ exists c, get_conn n cid = Some c /\ c_state c = SClosing) ->
  dispatch_all n cid ms = (n, []).
Proof.
  induction ms as [|m r IH]; intros n cid H; [reflexivity|].
  cbn [dispatch_all].
  assert (Hd : dispatch n cid m = (n, [])).
  { destruct H as [H|[c [Hc Hs]]]; [unfold dispatch; rewrite H; reflexivity|].
    apply (C06_gate_closing n cid c m Hc). left. exact Hs. }
  rewrite Hd, (IH n cid H). reflexivity.
Qed.

Lemma co_dispatch_all ms : forall n cid c,
  get_conn n cid = Some c -> c_state c = SConnected ->
  get_conn (fst (dispatch_all n cid ms)) cid = None \/
  (exists c', get_conn (fst (dispatch_all n cid ms)) cid = Some c' /\
              (c_state c' = SConnected \/ c_state c' = SClosing)) \/
  exists m, List.In m ms /\ ce_ok (pnames n) (c_recv c) m.
Proof.
  induction ms as [|m r IH]; intros n cid c Hc Hs.
  - right. left. exists c. auto.
  - cbn [dispatch_all]. pose proof (co_dispatch n cid c m Hc Hs) as H1.
    pose proof (ev_dispatch n cid m) as He.
    destruct (dispatch n cid m) as [n1 o1]. cbn [fst] in H1, He.
    assert (Hpn : pnames n1 = pnames n) by apply He.
    destruct H1 as [Hnone|[[c1 [Hc1 [Hb1 [Hs1|Hs1]]]]|Hok]].
    + rewrite (dispatch_all_dead r n1 cid) by (left; exact Hnone). cbn [fst]. left. exact Hnone.
    + specialize (IH n1 cid c1 Hc1 Hs1). destruct (dispatch_all n1 cid r) as [n2 o2]. cbn [fst] in *.
      destruct IH as [H|[H|[m' [Hin Hm']]]]; [left; exact H|right; left; exact H|].
      right. right. exists m'. split; [right; exact Hin|]. rewrite <- Hpn, <- Hb1. exact Hm'.
    + rewrite (dispatch_all_dead r n1 cid) by (right; exists c1; auto). cbn [fst].
      right. left. exists c1. auto.
    + right. right. exists m. split; [left; reflexivity|exact Hok].
Qed.

(* ---- events other than ERecv never make a connection ready --------------------------------------- *)
Ltac ev_chain := repeat (first [eassumption | apply ev_refl | (eapply ev_trans; [eassumption|])]).

Lemma ev_step_accept n ds h : ev0 n (fst (step n ds (EAccept h))).
Proof.
  cbn [step]. destruct (n_stopping n).
  - cbn [fst]. apply ev_same; [reflexivity|reflexivity|cbn; lia].
  - match goal with |- context [settle' ?x ds] => set (n2 := x) end.
    assert (H1 : ev0 n n2) by (eapply ev_add; reflexivity).
    pose proof (ev_settle' n2 ds) as H2. ev_chain.
Qed.

Lemma ev_step_peer_close n ds cid : ev0 n (fst (step n ds (EPeerClose cid))).
Proof.
  cbn [step]. pose proof (ev_close NoP NoP n cid R_GONE) as H1. destruct (close_conn n cid R_GONE) as [n1 o1].
  pose proof (ev_settle' n1 ds) as H2. destruct (settle' n1 ds) as [n2 o2]. cbn [fst] in *. ev_chain.
Qed.

Lemma ev_step_read_err n ds cid hard : ev0 n (fst (step n ds (EReadErr cid hard))).
Proof.
  cbn [step].
  assert (H1 : ev0 n (fst (if hard then close_conn n cid R_SOCKET_FAIL else (n, []))))
    by (destruct hard; [apply ev_close|apply ev_refl]).
  destruct (if hard then close_conn n cid R_SOCKET_FAIL else (n, [])) as [n1 o1].
  pose proof (ev_settle' n1 ds) as H2. destruct (settle' n1 ds) as [n2 o2]. cbn [fst] in *. ev_chain.
Qed.

Lemma ev_step_conn_done n ds cid ok : ev0 n (fst (step n ds (EConnDone cid ok))).
Proof.
  cbn [step]. destruct (get_conn n cid) as [c|]; [|apply ev_refl].
  destruct (cstate_eqb (c_state c) SConnecting); [|apply ev_refl]. destruct ok.
  - set (n1 := set_conns n _).
    assert (H1 : ev0 n n1) by (apply ev_upd; [solve_idp|solve_crel]).
    match goal with |- context [send_cer ?x cid] => set (n2 := x) end.
    assert (H2 : ev0 n1 n2).
    { unfold n2. destruct (find_conn_peer n1 c); [|apply ev_refl].
      apply ev_same; [reflexivity| |apply Nat.le_refl].
      unfold pnames. cbn [n_peers set_peers]. apply upd_peer_names. reflexivity. }
    clearbody n2. pose proof (ev_send_cer NoP NoP n2 cid) as H3. destruct (send_cer n2 cid) as [n3 o3].
    pose proof (ev_io_iteration n3 ds) as H4. destruct (io_iteration n3 ds) as [[n4 o4] ds4].
    pose proof (ev_settle' n4 ds4) as H5. destruct (settle' n4 ds4) as [n5 o5]. cbn [fst] in *. ev_chain.
  - pose proof (ev_close NoP NoP n cid R_FAILED_CONNECT) as H1.
    destruct (close_conn n cid R_FAILED_CONNECT) as [n1 o1].
    pose proof (ev_settle' n1 ds) as H2. destruct (settle' n1 ds) as [n2 o2]. cbn [fst] in *. ev_chain.
Qed.

Lemma ev_step_stall n ds cid b : ev0 n (fst (step n ds (EStall cid b))).
Proof.
  cbn [step]. destruct (get_conn n cid) as [c|]; [|apply ev_refl].
  set (n1 := set_conns n _).
  assert (H1 : ev0 n n1) by (apply ev_upd_keep; [solve_idp|intros x; split; reflexivity]).
  destruct b; [exact H1|]. destruct (c_out c); [exact H1|].
  pose proof (ev_settle' n1 ds) as H2. ev_chain.
Qed.

Definition expire (target : Z) (n : node) : node :=
  set_apps n (List.map (fun a => set_awaiting a (List.filter (fun w => target <? snd w) (a_waiting a))) (n_apps n)).

Definition wake (target : Z) : nat -> node -> dials -> list output -> node * list output :=
  fix wake (fuel : nat) (n : node) (ds : dials) (acc : list output) : node * list output :=
    let expire := fun (n : node) =>
      set_apps n (List.map (fun a => set_awaiting a (List.filter (fun w => target <? snd w) (a_waiting a))) (n_apps n)) in
    match fuel with
    | O => (expire (set_time n target (n_io_deadline n)), acc)
    | S f =>
        if n_io_deadline n <=? target then
          let n1 := set_time n (n_io_deadline n) (n_io_deadline n) in
          let '(n2, o2, ds2) := settle n1 ds in
          wake f n2 ds2 (acc ++ o2)%list
        else (expire (set_time n target (n_io_deadline n)), acc)
    end.

Lemma step_tick n ds dt : step n ds (ETick dt) = wake (n_now n + dt) (S (Z.to_nat dt)) n ds [].
Proof. reflexivity. Qed.

Lemma wake_O target n ds acc :
  wake target O n ds acc = (expire target (set_time n target (n_io_deadline n)), acc).
Proof. reflexivity. Qed.

Lemma wake_S target f n ds acc :
  wake target (S f) n ds acc =
  if n_io_deadline n <=? target then
    let '(n2, o2, ds2) := settle (set_time n (n_io_deadline n) (n_io_deadline n)) ds in
    wake target f n2 ds2 (acc ++ o2)%list
  else (expire target (set_time n target (n_io_deadline n)), acc).
Proof. reflexivity. Qed.

Lemma ev_wake target fuel : forall n ds acc, ev0 n (fst (wake target fuel n ds acc)).
Proof.
  induction fuel as [|f IH]; intros n ds acc.
  - rewrite wake_O. cbn [fst]. apply ev_same; reflexivity.
  - rewrite wake_S. destruct (n_io_deadline n <=? target); [|cbn [fst]; apply ev_same; reflexivity].
    set (n1 := set_time n (n_io_deadline n) (n_io_deadline n)).
    assert (H1 : ev0 n n1) by (apply ev_same; reflexivity).
    pose proof (ev_settle n1 ds) as H2. destruct (settle n1 ds) as [[n2 o2] ds2]. cbn [fst] in H2.
    specialize (IH n2 ds2 (acc ++ o2)). ev_chain.
Qed.

Lemma ev_step_tick n ds dt : ev0 n (fst (step n ds (ETick dt))).
Proof. rewrite step_tick. apply ev_wake. Qed.

Lemma ev_step_app_answer n ds i m : ev0 n (fst (step n ds (EAppAnswer i m))).
Proof.
  cbn [step].
  assert (H0 : ev0 n (snd (route_answer n m))).
  { unfold route_answer.
    match goal with |- context [List.find ?f ?l] => destruct (List.find f l) as [[host ?]|] end;
      [|apply ev_refl].
    match goal with |- context [List.find ?f ?l] => destruct (List.find f l) as [c|] end;
      [destruct (is_ready_state (c_state c))|]; cbn [snd]; apply ev_same; reflexivity. }
  destruct (route_answer n m) as [[cid|] n1]; cbn [snd] in H0; [|exact H0].
  pose proof (ev_send_message NoP NoP n1 cid m) as H1. destruct (send_message n1 cid m) as [n2 o2].
  pose proof (ev_settle' n2 ds) as H2. destruct (settle' n2 ds) as [n3 o3]. cbn [fst] in *. ev_chain.
Qed.

Lemma ev_step_app_request n ds i m realm pick tmo : ev0 n (fst (step n ds (EAppRequest i m realm pick tmo))).
Proof.
  cbn [step].
  match goal with |- context [let '(n0, e2e) := ?r in _] => set (r0 := r) end.
  assert (H0 : ev0 n (fst r0)) by (unfold r0; destruct (o_e2e m =? 0); [apply ev_same; reflexivity|apply ev_refl]).
  destruct r0 as [n0 e2e]. cbn [fst] in H0.
  destruct (route_request n0 i realm) as [[|p0 us]|]; try exact H0.
  match goal with |- context [match ?ch with Some _ => _ | None => (n0, [ONotRoutable]) end] => destruct ch as [p|] end;
    [|exact H0].
  destruct (p_conn p) as [k|]; [|exact H0].
  destruct (get_conn n0 k) as [c|]; [|exact H0].
  match goal with |- context [let '(n1, hbh) := ?r in _] => set (r1 := r) end.
  assert (H1 : ev0 n0 (fst r1)).
  { unfold r1. destruct (o_hbh m =? 0); [|apply ev_refl]. cbn [fst].
    apply ev_upd_keep; [solve_idp|intros x; split; reflexivity]. }
  destruct r1 as [n1 hbh]. cbn [fst] in H1.
  match goal with |- context [send_message ?x k ?mm] => set (n3 := x); set (m' := mm) end.
  assert (H3 : ev0 n1 n3) by (apply ev_same; reflexivity).
  clearbody n3 m'.
  pose proof (ev_send_message NoP NoP n3 k m') as H4. destruct (send_message n3 k m') as [n4 o4].
  pose proof (ev_settle' n4 ds) as H5. destruct (settle' n4 ds) as [n5 o5]. cbn [fst] in *. ev_chain.
Qed.

Lemma ev_dpr_all cids : forall n acc, ev0 n (fst (dpr_all cids n acc)).
Proof.
  induction cids as [|a r IH]; intros n acc; [apply ev_refl|].
  cbn [dpr_all]. destruct (get_conn n a) as [cn|] eqn:Hc; [|apply IH].
  destruct (is_ready_state (c_state cn)) eqn:Hr; [|apply IH].
  pose proof (ev_send_dpr NoP NoP n a cn Hc Hr) as H1. destruct (send_dpr n a) as [n' o'].
  specialize (IH n' (acc ++ o')). cbn [fst] in *. ev_chain.
Qed.

Lemma ev_step_stop n ds force : ev0 n (fst (step n ds (EStop force))).
Proof.
  rewrite step_stop. cbv zeta. set (n0 := set_misc n true (n_next_cid n) (n_e2e n)).
  assert (H0 : ev0 n n0) by (apply ev_same; reflexivity).
  destruct force; [exact H0|].
  pose proof (ev_dpr_all (List.map c_id (n_conns n0)) n0 []) as H1.
  destruct (dpr_all (List.map c_id (n_conns n0)) n0 []) as [n1 o1].
  pose proof (ev_settle' n1 ds) as H2. destruct (settle' n1 ds) as [n2 o2]. cbn [fst] in *. ev_chain.
Qed.

Lemma ev_close_all cids : forall n acc, ev0 n (fst (close_all cids n acc)).
Proof.
  induction cids as [|a r IH]; intros n acc; [apply ev_refl|].
  cbn [close_all]. pose proof (ev_close NoP NoP n a R_SHUTDOWN) as H1.
  destruct (close_conn n a R_SHUTDOWN) as [n' o']. specialize (IH n' (acc ++ o')). cbn [fst] in *. ev_chain.
Qed.

Lemma ev_step_stop_finish n ds tc te : ev0 n (fst (step n ds (EStopFinish tc te))).
Proof.
  rewrite step_stop_finish. cbv zeta. set (n0 := set_time n tc (n_io_deadline n)).
  assert (H0 : ev0 n n0) by (apply ev_same; reflexivity).
  pose proof (ev_close_all (List.map c_id (n_conns n0)) n0 []) as H1.
  destruct (close_all (List.map c_id (n_conns n0)) n0 []) as [n1 o1]. cbn [fst] in *.
  eapply ev_trans; [exact H0|]. eapply ev_trans; [exact H1|]. apply ev_same; reflexivity.
Qed.

Fixpoint start_all (names : list string) (n : node) (ds : dials) (acc : list output) : node * list output * dials :=
  match names with
  | [] => (n, acc, ds)
  | nm :: r =>
      match get_peer n nm with
      | Some p =>
          if p_persistent p then
            match ds with
            | (h0, res) :: dr => let '(n1, o1) := connect_to_peer n nm h0 res in start_all r n1 dr (acc ++ o1)%list
            | [] => let '(n1, o1) := connect_to_peer n nm 0 DialOk in start_all r n1 [] (acc ++ o1)%list
            end
          else start_all r n ds acc
      | None => start_all r n ds acc
      end
  end.

Lemma step_start n ds :
  step n ds EStart =
  let '(n1, o1, ds1) := start_all (List.map p_name (n_peers n)) n ds [] in
  let '(n2, o2) := settle' n1 ds1 in (n2, (o1 ++ o2)%list).
Proof. reflexivity. Qed.

Lemma ev_start_all names : forall n ds acc, ev0 n (fst (fst (start_all names n ds acc))).
Proof.
  induction names as [|nm r IH]; intros n ds acc; [apply ev_refl|].
  cbn [start_all]. destruct (get_peer n nm) as [p|]; [|apply IH].
  destruct (p_persistent p); [|apply IH]. destruct ds as [|[h0 res] dr].
  - pose proof (ev_connect_to_peer n nm 0 DialOk) as H1. destruct (connect_to_peer n nm 0 DialOk) as [n1 o1].
    specialize (IH n1 [] (acc ++ o1)). cbn [fst] in *. ev_chain.
  - pose proof (ev_connect_to_peer n nm h0 res) as H1. destruct (connect_to_peer n nm h0 res) as [n1 o1].
    specialize (IH n1 dr (acc ++ o1)). cbn [fst] in *. ev_chain.
Qed.

Lemma ev_step_start n ds : ev0 n (fst (step n ds EStart)).
Proof.
  rewrite step_start. pose proof (ev_start_all (List.map p_name (n_peers n)) n ds []) as H1.
  destruct (start_all (List.map p_name (n_peers n)) n ds []) as [[n1 o1] ds1].
  pose proof (ev_settle' n1 ds1) as H2. destruct (settle' n1 ds1) as [n2 o2]. cbn [fst] in *. ev_chain.
Qed.

(* ---- ERecv ------------------------------------------------------------------------------------------ *)
Lemma ev_upd_last_read n cid : ev0 n (upd_last_read n cid).
Proof. unfold upd_last_read. apply ev_upd_keep; [solve_idp|intros x; split; reflexivity]. Qed.

Lemma ev_step_recv n ds cid ms :
  evolves (PA cid (pnames n) ms) (Qc cid) n (fst (step n ds (ERecv cid ms))).
Proof.
  cbn [step]. destruct (get_conn n cid); [|apply ev_refl].
  pose proof (ev_io_iteration n ds) as H1. destruct (io_iteration n ds) as [[n1 o1] ds1]. cbn [fst] in H1.
  pose proof (ev_upd_last_read n1 cid) as H2. set (n2 := upd_last_read n1 cid) in *.
  assert (H12 : ev0 n n2) by (eapply ev_trans; eassumption).
  pose proof (ev_dispatch_all ms n2 cid) as H3. destruct (dispatch_all n2 cid ms) as [n3 o3].
  pose proof (ev_settle' n3 ds1) as H4. destruct (settle' n3 ds1) as [n4 o4]. cbn [fst] in *.
  assert (Hpn : pnames n2 = pnames n) by apply H12. rewrite Hpn in H3.
  eapply ev_trans; [apply ev0_any, H12|]. eapply ev_trans; [exact H3|apply ev0_any, H4].
Qed.

(* every step: numbers of connections stay below the counter *)
Definition conns_fresh (n : node) : Prop := forall j c, get_conn n j = Some c -> (j < n_next_cid n)%nat.

Lemma ev_step n ds e : exists P Q, evolves P Q n (fst (step n ds e)).
Proof.
  destruct e.
  - exists NoP, NoP. apply ev_step_accept.
  - eexists _, _. apply ev_step_recv.
  - exists NoP, NoP. apply ev_step_peer_close.
  - exists NoP, NoP. apply ev_step_read_err.
  - exists NoP, NoP. apply ev_step_conn_done.
  - exists NoP, NoP. apply ev_step_stall.
  - exists NoP, NoP. apply ev_step_tick.
  - exists NoP, NoP. apply ev_step_app_answer.
  - exists NoP, NoP. apply ev_step_app_request.
  - exists NoP, NoP. apply ev_step_stop.
  - exists NoP, NoP. apply ev_step_stop_finish.
  - exists NoP, NoP. apply ev_step_start.
Qed.

(* freshness of connection numbers is an invariant of step (it holds for a node without connections) *)
Theorem conns_fresh_step n ds e : conns_fresh n -> conns_fresh (fst (step n ds e)).
Proof.
  intros Hf j c' Hc'. destruct (ev_step n ds e) as [P [Q [_ [Hn H]]]].
  destruct (H j c' Hc') as [Hle|[c [Hc _]]]; [lia|]. apply Hf in Hc. lia.
Qed.

Lemma ev_at P Q n n' cid c c' :
  evolves P Q n n' -> (cid < n_next_cid n)%nat -> get_conn n cid = Some c -> get_conn n' cid = Some c' ->
  crel P Q cid c c'.
Proof.
  intros [_ [_ H]] Hlt Hc Hc'. destruct (H cid c' Hc') as [Hle|[c0 [Hc0 Hr]]]; [lia|].
  rewrite Hc in Hc0. inversion Hc0; subst. exact Hr.
Qed.

Lemma ev_at_none P Q n n' cid :
  evolves P Q n n' -> (cid < n_next_cid n)%nat -> get_conn n cid = None -> get_conn n' cid = None.
Proof.
  intros [_ [_ H]] Hlt Hc. destruct (get_conn n' cid) as [c'|] eqn:Hc'; [|reflexivity].
  destruct (H cid c' Hc') as [Hle|[c0 [Hc0 Hr]]]; [lia|congruence].
Qed.

(* the statements about frames, in terms of the node's configured peers *)
Definition is_good_cer (n : node) (m : msg) : Prop :=
  m_cmd m = CE /\ m_req m = true /\ exists h, m_origin m = Present h /\ get_peer n h <> None.
Definition is_good_cea (m : msg) : Prop :=
  m_cmd m = CE /\ m_req m = false /\ m_result m = Present 2001.

Lemma ce_any_good n m : ce_any (pnames n) m -> is_good_cer n m \/ is_good_cea m.
Proof.
  intros [Hk [[Hr [h [Ho Hin]]]|[Hr He]]]; [left|right]; split; auto. split; [exact Hr|].
  exists h. split; [exact Ho|apply in_pnames_get_peer, Hin].
Qed.

Lemma ce_ok_good n b m : ce_ok (pnames n) b m -> if b then is_good_cer n m else is_good_cea m.
Proof.
  intros [Hk H]. destruct b.
  - destruct H as [Hr [h [Ho Hin]]]. split; [exact Hk|]. split; [exact Hr|].
    exists h. split; [exact Ho|apply in_pnames_get_peer, Hin].
  - destruct H as [Hr He]. split; auto.
Qed.

(* C06, per event kind: no event other than a network read makes a connection ready *)
Lemma C06_ready_only_by_ce_other n ds e cid c c' :
  ev0 n (fst (step n ds e)) ->
  (cid < n_next_cid n)%nat -> get_conn n cid = Some c -> is_ready_state (c_state c) = false ->
  get_conn (fst (step n ds e)) cid = Some c' -> is_ready_state (c_state c') = true -> False.
Proof.
  intros Hev Hlt Hc Hnr Hc' Hr. destruct (ev_at _ _ _ _ cid c c' Hev Hlt Hc Hc') as [_ [H _]].
  destruct (H Hr) as [H1|[]]. congruence.
Qed.

(* C06, network read: the frames contain a CER of a configured peer or a CEA 2001 *)
Lemma C06_ready_only_by_ce_recv n ds cid0 ms cid c c' :
  (cid < n_next_cid n)%nat -> get_conn n cid = Some c -> is_ready_state (c_state c) = false ->
  get_conn (fst (step n ds (ERecv cid0 ms))) cid = Some c' -> is_ready_state (c_state c') = true ->
  cid0 = cid /\ exists m, List.In m ms /\ (is_good_cer n m \/ is_good_cea m).
Proof.
  intros Hlt Hc Hnr Hc' Hr.
  destruct (ev_at _ _ _ _ cid c c' (ev_step_recv n ds cid0 ms) Hlt Hc Hc') as [_ [H _]].
  destruct (H Hr) as [H1|[Hj [m [Hin Hm]]]]; [congruence|]. split; [congruence|].
  exists m. split; [exact Hin|apply ce_any_good, Hm].
Qed.

(* C06, network read on a CONNECTED connection: the direction of the CE message matches the connection *)
Lemma C06_ready_only_by_ce_recv_connected n ds cid ms c c' :
  (cid < n_next_cid n)%nat -> get_conn n cid = Some c -> c_state c = SConnected ->
  get_conn (fst (step n ds (ERecv cid ms))) cid = Some c' -> is_ready_state (c_state c') = true ->
  exists m, List.In m ms /\ if c_recv c then is_good_cer n m else is_good_cea m.
Proof.
  intros Hlt Hc Hs Hc' Hr. cbn [step] in Hc'. rewrite Hc in Hc'.
  pose proof (ev_io_iteration n ds) as H1. destruct (io_iteration n ds) as [[n1 o1] ds1]. cbn [fst] in H1.
  pose proof (ev_upd_last_read n1 cid) as H2. set (n2 := upd_last_read n1 cid) in *.
  assert (H12 : ev0 n n2) by (eapply ev_trans; eassumption).
  pose proof (ev_dispatch_all ms n2 cid) as H3.
  pose proof (co_dispatch_all ms n2 cid) as Hco.
  pose proof (dispatch_all_dead ms n2 cid) as Hdead.
  destruct (dispatch_all n2 cid ms) as [n3 o3].
  pose proof (ev_settle' n3 ds1) as H4. destruct (settle' n3 ds1) as [n4 o4]. cbn [fst] in *.
  assert (Hpn : pnames n2 = pnames n) by apply H12.
  assert (Hlt2 : (cid < n_next_cid n2)%nat) by (destruct H12 as [_ [Hn _]]; lia).
  assert (Hlt3 : (cid < n_next_cid n3)%nat) by (destruct H3 as [_ [Hn _]]; lia).
  assert (Hnone : get_conn n3 cid = None -> False).
  { intros Hn3. rewrite (ev_at_none _ _ n3 n4 cid H4 Hlt3 Hn3) in Hc'. discriminate. }
  assert (Hdull : forall c3, get_conn n3 cid = Some c3 -> c_state c3 = SConnected \/ c_state c3 = SClosing -> False).
  { intros c3 Hc3 Hs3. destruct (ev_at _ _ _ _ cid c3 c' H4 Hlt3 Hc3 Hc') as [_ [H _]].
    destruct (H Hr) as [Hr3|[]]. destruct Hs3 as [E|E]; rewrite E in Hr3; discriminate. }
  destruct (get_conn n2 cid) as [c2|] eqn:Hc2.
  - destruct (ev_at _ _ _ _ cid c c2 H12 Hlt Hc Hc2) as [Hb2 [_ Hs2]].
    destruct (Hs2 Hs) as [Hs2'|[]].
    destruct (Hco c2 eq_refl Hs2') as [Hn3|[[c3 [Hc3 Hs3]]|[m [Hin Hm]]]].
    + destruct (Hnone Hn3).
    + destruct (Hdull c3 Hc3 Hs3).
    + exists m. split; [exact Hin|]. rewrite Hpn, Hb2 in Hm. apply ce_ok_good, Hm.
  - exfalso. apply Hnone. assert (E : (n3, o3) = (n2, [])) by (apply Hdead; left; reflexivity).
    inversion E; subst. exact Hc2.
Qed.

(* C06: a connection that was not ready and is ready after a step: the step was a network read on that
   connection whose frames contain a CER of a configured peer or a CEA 2001; if the connection was CONNECTED
   the message has the direction of the connection (CER on an inbound, CEA on an outbound connection) *)
Theorem C06_ready_only_by_ce n ds e cid c c' :
  (cid < n_next_cid n)%nat ->
  get_conn n cid = Some c -> is_ready_state (c_state c) = false ->
  get_conn (fst (step n ds e)) cid = Some c' -> is_ready_state (c_state c') = true ->
  exists ms, e = ERecv cid ms /\
    (exists m, List.In m ms /\ (is_good_cer n m \/ is_good_cea m)) /\
    (c_state c = SConnected ->
     exists m, List.In m ms /\ if c_recv c then is_good_cer n m else is_good_cea m).
Proof.
  intros Hlt Hc Hnr Hc' Hr.
  destruct e as [h|cid0 ms|k|k hard|k ok|k b|dt|i m|i m realm pick tmo|force|tc te|];
    try (exfalso;
         match type of Hc' with get_conn (fst (step n ds ?e)) _ = _ => eapply (C06_ready_only_by_ce_other n ds e) end;
         [first [apply ev_step_accept | apply ev_step_peer_close | apply ev_step_read_err
                | apply ev_step_conn_done | apply ev_step_stall | apply ev_step_tick
                | apply ev_step_app_answer | apply ev_step_app_request | apply ev_step_stop
                | apply ev_step_stop_finish | apply ev_step_start]
         |exact Hlt|exact Hc|exact Hnr|exact Hc'|exact Hr]).
  destruct (C06_ready_only_by_ce_recv n ds cid0 ms cid c c' Hlt Hc Hnr Hc' Hr) as [-> Hm].
  exists ms. split; [reflexivity|]. split; [exact Hm|]. intros Hs.
  eapply C06_ready_only_by_ce_recv_connected; eassumption.
Qed.

(* ================================================================================== *)
(* Examples on a concrete node: one peer "p", one application (id 4), one connection    *)
(* ================================================================================== *)
Definition ex_cfg : cfg :=
  {| g_host := "n"; g_realm := "r"; g_cea := 4; g_cer := 4; g_dwa := 4; g_idle := 20; g_wakeup := 6;
     g_rsize := 10%nat; g_validate := true; g_state_id := 1 |}.
Definition ex_peer : peer :=
  {| p_name := "p"; p_realm := "r"; p_has_addr := true; p_persistent := false; p_always := false;
     p_cea := None; p_cer := None; p_dwa := None; p_idle := Some 10; p_rwait := 30;
     p_conn := None; p_reason := None; p_lastconn := None; p_lastdisc := None; p_reqs := 0 |}.
Definition ex_app : app := {| a_id := 4; a_auth := true; a_acct := false; a_ready := false; a_waiting := [] |}.
Definition ex_node (now : Z) (c : conn) : node :=
  {| n_cfg := ex_cfg; n_now := now; n_io_deadline := now + 6; n_stopping := false;
     n_peers := [ex_peer]; n_conns := [c]; n_next_cid := 1%nat; n_half_ready := []; n_socket_peers := [0%nat];
     n_routes := [("r", [(RApp 0, ["p"])])]; n_apps := [ex_app];
     n_app_waiting := []; n_peer_waiting := []; n_origin_waiting := []; n_sent_answers := []; n_e2e := 1 |}.
Definition ex_conn (recv : bool) (st : cstate) (host : string) : conn :=
  {| c_id := 0%nat; c_recv := recv; c_state := st; c_node_name := host; c_host := host; c_last_read := 0;
     c_last_dwr := 0; c_auth := []; c_acct := []; c_hbh := 100; c_sock_open := true; c_stalled := false;
     c_out := []; c_workers := true |}.
Definition ex_msg (k : cmd) (req : bool) (result : pres Z) : msg :=
  {| m_cmd := k; m_req := req; m_p := false; m_e := false; m_t := false; m_app := 0; m_hbh := 7; m_e2e := 8;
     m_origin := Present "p"; m_drealm := Undeclared; m_result := result; m_missing := [];
     m_has_failed_avp_slot := true; m_auth := [4]; m_acct := []; m_tag := 0 |}.
Definition ex_cer : msg := ex_msg CE true Absent.
Definition ex_cea : msg := ex_msg CE false (Present 2001).
Definition ex_dwr : msg := ex_msg DW true Absent.

(* C06: the hypotheses of C06_cer_known / C06_ready_only_by_ce hold and the conclusions compute *)
Example C06_example :
  let n := ex_node 0 (ex_conn true SConnected "") in
  (0 < n_next_cid n)%nat /\
  option_map c_state (get_conn n 0%nat) = Some SConnected /\
  (exists p, get_peer n "p" = Some p) /\
  inter_z (node_auth n) (m_auth ex_cer) = [4] /\
  snd (recv_cer n 0%nat ex_cer) = [OQueue 0%nat (answer_of ex_cer (Some 2001) [])] /\
  option_map c_state (get_conn (fst (recv_cer n 0%nat ex_cer)) 0%nat) = Some SReady /\
  option_map c_host (get_conn (fst (recv_cer n 0%nat ex_cer)) 0%nat) = Some "p" /\
  option_map c_state (get_conn (fst (step n [] (ERecv 0%nat [ex_cer]))) 0%nat) = Some SReady /\
  snd (step n [] (ERecv 0%nat [ex_dwr; ex_cer])) =
    [OQueue 0%nat (answer_of ex_cer (Some 2001) []); OSend 0%nat (answer_of ex_cer (Some 2001) [])] /\
  dispatch n 0%nat ex_dwr = (n, []).
Proof. vm_compute. repeat split; try reflexivity; try lia. eexists; reflexivity. Qed.

(* C06: the direction claim fails outside CONNECTED: an inbound connection in DISCONNECTING is flagged READY
   again by a CEA 2001 (the gate passes every command in that state), no CER is involved *)
Example C06_direction_counterexample :
  let n := ex_node 0 (ex_conn true SDisconnecting "p") in
  option_map c_recv (get_conn n 0%nat) = Some true /\
  option_map c_state (get_conn n 0%nat) = Some SDisconnecting /\
  option_map c_state (get_conn (fst (step n [] (ERecv 0%nat [ex_cea]))) 0%nat) = Some SReady /\
  m_req ex_cea = false.
Proof. vm_compute. repeat split; reflexivity. Qed.

(* C11: an idle READY connection (peer idle timer 10 overrides the node's 20) gets one DWR; a DWA restores READY *)
Example C11_example :
  let n := ex_node 15 (ex_conn true SReady "p") in
  let n1 := fst (check_timers n 0%nat) in
  n_stopping n = false /\
  option_map (eff_idle n) (get_conn n 0%nat) = Some 10 /\
  snd (check_timers n 0%nat) =
    [OQueue 0%nat {| o_cmd := DW; o_req := true; o_app := 0; o_hbh := 101; o_e2e := 2;
                     o_result := None; o_failed := []; o_tag := 0 |}] /\
  option_map c_state (get_conn n1 0%nat) = Some SReadyWaitDwa /\
  option_map c_last_dwr (get_conn n1 0%nat) = Some 15 /\
  snd (check_timers n1 0%nat) = [] /\
  option_map c_state (get_conn (fst (recv_dwa n1 0%nat)) 0%nat) = Some SReady /\
  snd (check_timers (set_time n1 20 26) 0%nat) = [OClose 0%nat R_DWA_TIMEOUT] /\
  snd (dispatch n 0%nat ex_dwr) = [OQueue 0%nat (answer_of ex_dwr (Some 2001) [])].
Proof. vm_compute. repeat split; reflexivity. Qed.

(* C18: stop() sends one DPR to the ready connection; finishing the stop closes it with NODE_SHUTDOWN *)
Example C18_example :
  let n := ex_node 0 (ex_conn true SReady "p") in
  let n1 := fst (step n [] (EStop false)) in
  List.NoDup (List.map c_id (n_conns n)) /\
  queued (snd (step n [] (EStop false))) =
    [(0%nat, {| o_cmd := DP; o_req := true; o_app := 0; o_hbh := 101; o_e2e := 2;
                o_result := None; o_failed := []; o_tag := 0 |})] /\
  n_stopping n1 = true /\
  snd (step n [] (EStop true)) = [] /\
  snd (step n1 [] (EAccept 5)) = [OClose 1%nat R_SHUTDOWN] /\
  snd (step n1 [] (EStopFinish 1 2)) = [OClose 0%nat R_SHUTDOWN] /\
  n_conns (fst (step n1 [] (EStopFinish 1 2))) = [].
Proof. vm_compute. repeat split; try reflexivity. repeat constructor. intros []. Qed.

(* ================================================================================== *)
Print Assumptions C06_gate_connected.
Print Assumptions C06_gate_closing.
Print Assumptions C06_cer_known.
Print Assumptions C06_cer_unknown.
Print Assumptions C06_unknown_then_closed.
Print Assumptions C06_cer_no_common.
Print Assumptions C06_ready_only_by_ce_other.
Print Assumptions C06_ready_only_by_ce_recv.
Print Assumptions C06_ready_only_by_ce_recv_connected.
Print Assumptions C06_ready_only_by_ce.
Print Assumptions conns_fresh_step.
Print Assumptions C06_outbound_first_is_cer.
Print Assumptions C06_cea_rejected.
Print Assumptions C06_timeout.
Print Assumptions check_timers_unfold.
Print Assumptions C11_idle_sends_one.
Print Assumptions C11_no_second_dwr.
Print Assumptions C11_dwa_restores.
Print Assumptions C11_silence_closes.
Print Assumptions C11_no_dwr_while_busy.
Print Assumptions C11_peer_overrides.
Print Assumptions C11_dwr_answered.
Print Assumptions C11_timers_idempotent.
Print Assumptions C18_dpr_to_ready.
Print Assumptions C18_quiet_while_stopping.
Print Assumptions C18_newcomers_refused.
Print Assumptions C18_all_closed.
Print Assumptions C18_close_after_dpa.
Print Assumptions C06_example.
Print Assumptions C06_direction_counterexample.
Print Assumptions C11_example.
Print Assumptions C18_example.
