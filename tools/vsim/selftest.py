"""vsim self test.

    PYTHONPATH=/repo/src:/verif/tools /venv/bin/python /verif/tools/vsim/selftest.py
"""
from __future__ import annotations

import errno
import json
import sys
import threading
import time as real_time

from diameter.message import Message, constants
from diameter.message.commands import (
    CapabilitiesExchangeRequest, CapabilitiesExchangeAnswer,
    CreditControlRequest, CreditControlAnswer, DeviceWatchdogRequest,
    DisconnectPeerRequest, DisconnectPeerAnswer)

from vsim import Sim, SpinDetected, HarnessError, scripted_chooser

CMD_CE, CMD_DW, CMD_DP, CMD_CC = 257, 280, 282, 272


def check(cond, what):
    if not cond:
        raise AssertionError(what)


# ------------------------------------------------------------ message makers
def mk_cer(host="cli0.example.net", realm="example.net", ip="10.1.0.1",
           hbh=0x1001, e2e=0x2001, auth_apps=(4,)):
    cer = CapabilitiesExchangeRequest()
    cer.header.hop_by_hop_identifier = hbh
    cer.header.end_to_end_identifier = e2e
    cer.origin_host = host.encode()
    cer.origin_realm = realm.encode()
    cer.host_ip_address = ip
    cer.vendor_id = 99999
    cer.product_name = "vsim-peer"
    cer.origin_state_id = 1
    for a in auth_apps:
        cer.auth_application_id = a
    return cer.as_bytes()


def mk_cea(cer_msg, host="srv1.example.net", realm="example.net",
           ip="10.2.0.1", result=2001, auth_apps=(4,)):
    cea = CapabilitiesExchangeAnswer()
    cea.header.hop_by_hop_identifier = cer_msg.header.hop_by_hop_identifier
    cea.header.end_to_end_identifier = cer_msg.header.end_to_end_identifier
    cea.result_code = result
    cea.origin_host = host.encode()
    cea.origin_realm = realm.encode()
    cea.host_ip_address = ip
    cea.vendor_id = 99999
    cea.product_name = "vsim-peer"
    for a in auth_apps:
        cea.auth_application_id = a
    return cea.as_bytes()


def mk_ccr(host="cli0.example.net", realm="example.net", hbh=0x1002,
           e2e=0x2002, dest_realm="example.net", session="cli0;1;1"):
    ccr = CreditControlRequest()
    ccr.header.application_id = 4
    ccr.header.hop_by_hop_identifier = hbh
    ccr.header.end_to_end_identifier = e2e
    ccr.session_id = session
    ccr.origin_host = host.encode()
    ccr.origin_realm = realm.encode()
    ccr.destination_realm = dest_realm.encode()
    ccr.auth_application_id = 4
    ccr.service_context_id = "32251@3gpp.org"
    ccr.cc_request_type = constants.E_CC_REQUEST_TYPE_EVENT_REQUEST
    ccr.cc_request_number = 1
    return ccr


def mk_cca(req_msg, host="srv1.example.net", realm="example.net",
           result=2001):
    cca = CreditControlAnswer()
    cca.header.application_id = 4
    cca.header.hop_by_hop_identifier = req_msg.header.hop_by_hop_identifier
    cca.header.end_to_end_identifier = req_msg.header.end_to_end_identifier
    cca.session_id = req_msg.session_id
    cca.origin_host = host.encode()
    cca.origin_realm = realm.encode()
    cca.auth_application_id = 4
    cca.result_code = result
    cca.cc_request_type = req_msg.cc_request_type
    cca.cc_request_number = req_msg.cc_request_number
    return cca.as_bytes()


def mk_dpa(dpr_msg, host, realm="example.net"):
    dpa = DisconnectPeerAnswer()
    dpa.header.hop_by_hop_identifier = dpr_msg.header.hop_by_hop_identifier
    dpa.header.end_to_end_identifier = dpr_msg.header.end_to_end_identifier
    dpa.result_code = 2001
    dpa.origin_host = host.encode()
    dpa.origin_realm = realm.encode()
    return dpa.as_bytes()


def summarise(msgs):
    return [(m.header.command_code, bool(m.header.is_request),
             getattr(m, "result_code", None)) for m in msgs]


# ---------------------------------------------------------------- scenario a
def scenario_a(seed=1, policy="fifo", transcript=None):
    """Server node, inbound peer, CER in two chunks, CCR, DWR, DWA timeout."""
    T = transcript if transcript is not None else []
    handled = []
    with Sim(seed=seed, policy=policy) as sim:
        nm, am, pm = sim.node_mod, sim.app_mod, sim.peer_mod
        node = nm.Node("srv.example.net", "example.net",
                       ip_addresses=["10.0.0.1"], tcp_port=3868)
        node.wakeup_interval = 1          # timers checked every second

        def handler(app, msg):
            handled.append((sim.rel_now, sim.current_name(),
                            msg.header.hop_by_hop_identifier))
            return app.generate_answer(msg, result_code=2001)

        app = am.SimpleThreadingApplication(
            4, is_auth_application=True, request_handler=handler)
        peer = node.add_peer("aaa://cli0.example.net", "example.net",
                             ip_addresses=["10.1.0.1"])
        node.add_application(app, [peer])
        node.start()

        r = sim.connect_in(0, "10.1.0.1", 40000)
        sim.run()
        T.append(("after-accept", sim.snapshot(node)))
        check(len(node.connections) == 1, "connection accepted")

        cer = mk_cer()
        r.feed(cer[:37])
        sim.run()
        check(len(r.sent) == 0, "no answer to half a CER")
        r.feed(cer[37:])
        sim.run()
        msgs = r.take_messages()
        check(summarise(msgs) == [(CMD_CE, False, 2001)], f"CEA 2001: {msgs}")
        T.append(("cea", msgs[0].as_bytes().hex()))
        conn = peer.connection
        check(conn is not None and conn.state == pm.PEER_READY, "READY")
        check(app.is_ready.is_set(), "app ready")

        ccr = mk_ccr()
        r.feed(ccr.as_bytes())
        sim.run()
        msgs = r.take_messages()
        check(len(handled) == 1 and handled[0][2] == 0x1002, "handler called")
        check(handled[0][1].startswith("_process_recv_msg"), handled)
        check(summarise(msgs) == [(CMD_CC, False, 2001)], f"CCA: {msgs}")
        check(msgs[0].header.hop_by_hop_identifier == 0x1002, "CCA hbh")
        T.append(("cca", msgs[0].as_bytes().hex()))
        T.append(("after-cca", sim.snapshot(node)))

        sim.advance(30)
        check(len(r.sent) == 0, "no DWR after 30 idle seconds")
        sim.advance(1)
        msgs = r.take_messages()
        check(summarise(msgs) == [(CMD_DW, True, None)], f"DWR at 31s: {msgs}")
        check(conn.state == pm.PEER_READY_WAITING_DWA, "waiting DWA")
        T.append(("dwr", sim.rel_now, msgs[0].as_bytes().hex()))

        sim.advance(4)
        check(not r.closed_by_node, "still open 4s after DWR")
        sim.advance(1)
        check(r.closed_by_node, "closed after DWA timeout")
        check(r.linger == (1, 0), "SO_LINGER(1,0) before close")
        check(peer.disconnect_reason == pm.DISCONNECT_REASON_DWA_TIMEOUT
              == 0x35, f"disconnect_reason {peer.disconnect_reason}")
        check(peer.connection is None, "peer.connection cleared")
        check(not app.is_ready.is_set(), "app not ready any more")
        T.append(("after-dwa-timeout", sim.snapshot(node)))
        sim.advance(6)
        snap = sim.snapshot(node)
        check("work_read_queue" not in snap["threads"], snap["threads"])
        T.append(("end", snap))
        T.append(("schedule", list(sim.schedule)))
        T.append(("trace", [list(map(str, t)) for t in sim.trace]))
        check(sim.thread_deaths == [], sim.thread_deaths)
        check(sim.anomalies == [], sim.anomalies)
        json.dumps(T)     # snapshot must be JSON serialisable
    return T


# ------------------------------------------------------- client-side fixture
def client_node(sim, persistent=True):
    nm, am = sim.node_mod, sim.app_mod
    node = nm.Node("cli.example.net", "example.net")
    node.wakeup_interval = 1
    app = am.SimpleThreadingApplication(4, is_auth_application=True)
    peer = node.add_peer("aaa://srv1.example.net:3868", "example.net",
                         ip_addresses=["10.2.0.1"], is_persistent=persistent)
    node.add_application(app, [peer])
    return node, app, peer


def bring_up(sim, node, peer, remote_index=-1):
    """Answer the CER on the newest outbound remote; returns the Remote."""
    r = sim.outbound[remote_index]
    sim.run()
    msgs = r.take_messages()
    check(summarise(msgs) == [(CMD_CE, True, None)], f"CER expected: {msgs}")
    r.feed(mk_cea(msgs[0]))
    sim.run()
    check(peer.connection is not None and
          peer.connection.state == sim.peer_mod.PEER_READY, "outbound READY")
    return r


# ---------------------------------------------------------------- scenario b
def scenario_b():
    """Outbound persistent peer: in-progress connect, refused, reconnect."""
    with Sim(seed=2) as sim:
        pm = sim.peer_mod
        node, app, peer = client_node(sim)
        sim.script_connect([("inprogress", "ok")])
        node.start()
        check(len(sim.connect_calls) == 1 and
              sim.connect_calls[0][1] == ("10.2.0.1", 3868) and
              sim.connect_calls[0][2] == ("inprogress", "ok"),
              sim.connect_calls)
        r = sim.outbound[0]
        sim.run()
        check(peer.connection.state == pm.PEER_CONNECTING, "CONNECTING")
        check(len(r.sent) == 0, "nothing sent while connecting")
        sim.advance(2)
        check(len(r.sent) == 0, "still nothing")
        r.complete_connect()
        sim.run()
        msgs = r.take_messages()
        check(summarise(msgs) == [(CMD_CE, True, None)], f"CER: {msgs}")
        check(msgs[0].origin_host == b"cli.example.net", "CER origin")
        check(peer.connection.state == pm.PEER_CONNECTED, "CONNECTED")
        r.feed(mk_cea(msgs[0]))
        sim.run()
        check(peer.connection.state == pm.PEER_READY, "READY after CEA")
        check(app.is_ready.is_set(), "app ready")
        check(sim.snapshot(node)["connections"][peer.connection.ident]
              ["auth_application_ids"] == [4], "negotiated app 4")

        # far end goes away; next attempt is refused, the one after succeeds
        sim.script_connect(["refused", "ok"])
        t_gone = sim.rel_now
        r.close()
        sim.run()
        check(r.closed_by_node, "node closed after EOF")
        check(peer.disconnect_reason == pm.DISCONNECT_REASON_GONE_AWAY, "0x31")
        check(peer.connection is None, "no connection")
        sim.advance(peer.reconnect_wait - 1)
        check(len(sim.connect_calls) == 1, "no reconnect before wait")
        sim.advance(1)
        check(len(sim.connect_calls) == 2 and
              sim.connect_calls[1][2] == "refused", sim.connect_calls)
        check(sim.connect_calls[1][0] - sim.t0 == t_gone + 30, "at +30s")
        check(peer.connection is None, "refused -> no connection")
        check(peer.last_disconnect - sim.t0 == t_gone + 30,
              "refusal restarts the wait")
        r_ref = sim.outbound[1]
        # observation: the refused socket is never closed by the node and its
        # two worker threads keep running
        leaked = (not r_ref.closed_by_node,
                  sim.live_threads_by_role().get("work_read_queue", 0))
        sim.advance(30)
        check(len(sim.connect_calls) == 3 and
              sim.connect_calls[2][2] == "ok", sim.connect_calls)
        r3 = bring_up(sim, node, peer)
        check(r3 is sim.outbound[2], "third remote")
        check(peer.disconnect_reason is None, "reason reset on reconnect")
        check(sim.thread_deaths == [], sim.thread_deaths)
        check(sim.anomalies == [], sim.anomalies)
        return {"refused_socket_left_open": leaked[0],
                "read_workers_after_refusal": leaked[1]}


# ---------------------------------------------------------------- scenario c
def scenario_c():
    """Spawned send_request: one answered, one timing out."""
    with Sim(seed=3) as sim:
        node, app, peer = client_node(sim)
        node.start()
        r = bring_up(sim, node, peer)

        h1 = sim.spawn(app.send_request, mk_ccr(host="cli.example.net",
                                                hbh=0, e2e=0), timeout=5,
                       name="req1")
        sim.run()
        check(not h1.done, "send_request is blocked")
        reqs = r.take_messages()
        check(summarise(reqs) == [(CMD_CC, True, None)], f"CCR out: {reqs}")
        check(reqs[0].header.hop_by_hop_identifier != 0, "hbh assigned")
        snap = sim.snapshot(node)
        check(snap["applications"][0]["answer_waiting"] ==
              [reqs[0].header.hop_by_hop_identifier], snap["applications"])
        check(snap["threads"].get("spawn") == 1, snap["threads"])
        sim.advance(2)
        r.feed(mk_cca(reqs[0]))
        sim.run()
        check(h1.done and h1.exception is None, f"{h1}")
        check(h1.result.result_code == 2001, "answer delivered")
        check(h1.result.header.hop_by_hop_identifier ==
              reqs[0].header.hop_by_hop_identifier, "same hbh")

        t0 = sim.rel_now
        h2 = sim.spawn(lambda: app.send_request(
            mk_ccr(host="cli.example.net", hbh=0, e2e=0), timeout=5),
            name="req2")
        sim.run()
        check(len(r.take_messages()) == 1, "second CCR out")
        sim.advance(4.5)
        check(not h2.done, "not yet timed out")
        sim.advance(0.5)
        check(h2.done and isinstance(h2.exception, TimeoutError), f"{h2}")
        check(sim.rel_now == t0 + 5, "exactly 5 virtual seconds")
        check(sim.snapshot(node)["applications"][0]["answer_waiting"] == [],
              "waiting entry removed")
        check(sim.thread_deaths == [], sim.thread_deaths)
        check(sorted(sim.thread_exits)[:2] == ["req1", "req2"],
              sim.thread_exits)


# ---------------------------------------------------------------- scenario d
def scenario_d():
    """node.stop() in a spawned thread: DPR/DPA, everything winds down."""
    with Sim(seed=4) as sim:
        nm, am, pm = sim.node_mod, sim.app_mod, sim.peer_mod
        node = nm.Node("srv.example.net", "example.net",
                       ip_addresses=["10.0.0.1"], tcp_port=3868)
        app = am.SimpleThreadingApplication(
            4, is_auth_application=True,
            request_handler=lambda a, m: a.generate_answer(m, 2001))
        peer = node.add_peer("aaa://cli0.example.net", "example.net",
                             ip_addresses=["10.1.0.1"])
        node.add_application(app, [peer])
        node.start()
        r = sim.connect_in()
        sim.run()
        r.feed(mk_cer())
        sim.run()
        check(summarise(r.take_messages()) == [(CMD_CE, False, 2001)], "CEA")

        try:
            sim.vmodules["time"].sleep(1)
            check(False, "blocking call from the driver must be refused")
        except HarnessError:
            pass

        h = sim.spawn(node.stop, wait_timeout=30, name="stopper")
        sim.run()
        msgs = r.take_messages()
        check(summarise(msgs) == [(CMD_DP, True, None)], f"DPR: {msgs}")
        check(peer.connection.state == pm.PEER_DISCONNECTING, "DISCONNECTING")
        sim.advance(3)
        check(not h.done, "stop() still waiting for DPA")
        r.feed(mk_dpa(msgs[0], "cli0.example.net"))
        sim.run()
        check(r.closed_by_node, "socket closed after DPA")
        check(sim.run_until(lambda: h.done, timeout=30), "stop() returned")
        check(h.exception is None, f"{h}")
        sim.advance(6)
        snap = sim.snapshot(node)
        check(snap["open_listeners"] == 0 and snap["open_peer_sockets"] == 0,
              snap)
        check(snap["threads"] == {}, snap["threads"])
        check(snap["stopping"] is True, "stopping flag")
        check(peer.disconnect_reason ==
              pm.DISCONNECT_REASON_CLEAN_DISCONNECT, peer.disconnect_reason)
        check(sim.thread_deaths == [], sim.thread_deaths)
        check(sim.anomalies == [], sim.anomalies)
        return sim.rel_now


# ---------------------------------------------------------------- scenario e
def scenario_e():
    """Line mode: the unlocked SequenceGenerator.next_sequence race."""
    with Sim(seed=5) as sim:
        sim.script_random([1000])
        gen = sim.helpers_mod.SequenceGenerator()
        check(gen.sequence == 1000, "scripted random start value")
        chooser = scripted_chooser(["A", "A", "A", "B", "B", "B", "A", "B"])
        sim.line_mode([sim.helpers_mod.SequenceGenerator.next_sequence],
                      chooser)
        a = sim.spawn(gen.next_sequence, name="A")
        b = sim.spawn(gen.next_sequence, name="B")
        sim.run()
        check(a.done and b.done, "both finished")
        import inspect
        has_lock = "lock" in inspect.getsource(
            sim.helpers_mod.SequenceGenerator.next_sequence).lower()
        if not has_lock:
            check(chooser.choices[:7] == ["A", "A", "A", "B", "B", "B", "A"],
                  chooser.choices)
            check(a.result == b.result == 1002,
                  f"duplicate expected: {a.result} {b.result}")
        else:   # a lock was added: B blocks on it, the schedule is forced
            check({a.result, b.result} == {1001, 1002}, (a.result, b.result))
        # sequential schedule gives distinct values in either case
        sim.line_mode([("_helpers.py", "next_sequence")],
                      scripted_chooser(["C", "C", "C", "C", "D"]))
        c = sim.spawn(gen.next_sequence, name="C")
        d = sim.spawn(gen.next_sequence, name="D")
        sim.run()
        check(c.result != d.result, "sequential schedule: distinct values")
        sim.line_mode(None)
        check(sim.spins == [] and sim.thread_deaths == [], "clean")
        return {"duplicate": a.result == b.result, "values": (a.result,
                                                             b.result),
                "choices": chooser.choices}


# ---------------------------------------------------------------- scenario g
def scenario_g():
    """Zero length field makes work_read_queue spin: caught by line budget."""
    with Sim(seed=7) as sim:
        nm = sim.node_mod
        node = nm.Node("srv.example.net", "example.net",
                       ip_addresses=["10.0.0.1"], tcp_port=3868)
        node.start()
        r = sim.connect_in()
        sim.run()
        sim.line_budget = 20000        # set after the threads were started
        r.feed(bytes([1, 0, 0, 0]) + bytes(16))
        t = real_time.perf_counter()
        sim.run()
        dt = real_time.perf_counter() - t
        check(len(sim.spins) == 1 and
              sim.spins[0][0].startswith("work_read_queue"), sim.spins)
        check(sim.thread_deaths == [], sim.thread_deaths)
        check("work_read_queue" not in sim.live_threads_by_role(), "ended")
        sim.line_budget = None
        sim.advance(10)                # the rest of the node keeps going
        check(len(sim.spins) == 1, sim.spins)
        return dt


# ------------------------------------------------------------ extra checks
def scenario_io():
    """Partial sends, stalls, soft/hard errors, thread death recording."""
    with Sim(seed=8, policy="seeded") as sim:
        nm, am, pm = sim.node_mod, sim.app_mod, sim.peer_mod
        node = nm.Node("srv.example.net", "example.net",
                       ip_addresses=["10.0.0.1"], tcp_port=3868)
        node.wakeup_interval = 1
        app = am.SimpleThreadingApplication(
            4, is_auth_application=True,
            request_handler=lambda a, m: a.generate_answer(m, 2001))
        peer = node.add_peer("aaa://cli0.example.net", "example.net",
                             ip_addresses=["10.1.0.1"])
        node.add_application(app, [peer])
        node.start()
        r = sim.connect_in()
        r.script_send([10, ("err", errno.EAGAIN), 1, "all"])
        r.feed(mk_cer())
        sim.run()
        check([c[1:] for c in r.send_calls][:1] == [(r.send_calls[0][1], 10)],
              r.send_calls)
        check([c[2] for c in r.send_calls][:2] == [10, 1], r.send_calls)
        check(summarise(r.take_messages()) == [(CMD_CE, False, 2001)],
              "CEA reassembled from partial sends")
        # stalled writes: answer stays in the node's write buffer
        r.stall_writes(True)
        r.inject_read_error(errno.EAGAIN)        # soft failure, ignored
        r.feed(mk_ccr().as_bytes())
        sim.run()
        check(len(r.sent) == 0, "stalled")
        conn = peer.connection
        check(len(conn.write_buffer) > 0, "buffered in node")
        r.stall_writes(False)
        sim.advance(1)
        check(summarise(r.take_messages()) == [(CMD_CC, False, 2001)], "CCA")
        # an answer nobody waits for kills _wait_for_resp_msg (NotRoutable)
        bogus = app.generate_answer(mk_ccr(hbh=0x7777), 2001)
        app._resp_msg_queue.put(bogus)
        sim.run()
        check(len(sim.thread_deaths) == 1 and
              sim.thread_deaths[0][0].startswith("_wait_for_resp_msg") and
              sim.thread_deaths[0][1] == "NotRoutable", sim.thread_deaths)
        check("Traceback" in sim.thread_death_tracebacks[
            sim.thread_deaths[0][0]], "traceback kept")
        # hard read error
        r.reset()
        sim.run()
        check(r.closed_by_node and
              peer.disconnect_reason == pm.DISCONNECT_REASON_SOCKET_FAIL,
              peer.disconnect_reason)
        check(sim.anomalies == [], sim.anomalies)


def scenario_stuck():
    """Real-time watchdog, fd reuse, primitives, chooser errors."""
    from vsim import HarnessStuck
    # a thread that never yields (and no line budget) -> HarnessStuck
    sim = Sim(seed=9, watchdog=0.3)
    flag = []

    def hog():
        while not flag:
            pass

    sim.spawn(hog, name="hog")
    try:
        sim.run()
        check(False, "HarnessStuck expected")
    except HarnessStuck as e:
        check("hog" in str(e), str(e))
    sim.shutdown()          # must still terminate the hog

    with Sim(seed=9, fd_reuse=True) as sim:
        node = sim.node_mod.Node("srv.example.net", "example.net",
                                 ip_addresses=["10.0.0.1"], tcp_port=3868)
        node.wakeup_interval = 1
        node.start()
        r1 = sim.connect_in()
        sim.run()
        r1.close()
        sim.run()
        r2 = sim.connect_in(port=40001)
        sim.run()
        check(r1.fileno == r2.fileno, "fd reused like a real OS would")

    with Sim(seed=9) as sim:
        th, qm, tm = (sim.vmodules[k] for k in ("threading", "queue", "time"))
        log = []
        lock, ev, q = th.Lock(), th.Event(), qm.Queue(maxsize=1)
        cond = th.Condition()

        def t1():
            with lock:
                log.append("t1 has lock")
                tm.sleep(2)
            q.put(1)
            q.put(2)                       # blocks: maxsize 1
            log.append(("t1 put2", tm.time() - sim.t0))
            with cond:
                cond.notify_all()

        def t2():
            check(lock.acquire(timeout=1) is False, "lock timeout")
            log.append(("t2 timeout", tm.time() - sim.t0))
            with lock:
                log.append(("t2 has lock", tm.time() - sim.t0))
            tm.sleep(3)
            check(q.get() == 1, "fifo")
            try:
                qm.Queue().get(True, 0.5)
            except qm.Empty:
                log.append(("empty", tm.time() - sim.t0))
            ev.set()

        def t3():
            check(ev.wait(1) is False, "event timeout")
            check(ev.wait() is True, "event set")
            with cond:
                pass
            log.append(("t3 done", tm.time() - sim.t0))

        hs = [sim.spawn(f, name=f.__name__) for f in (t1, t2, t3)]
        sim.run()
        check(sim.rel_now == 0 and not any(h.done for h in hs), "t=0")
        sim.advance(10)
        check(all(h.done and h.exception is None for h in hs), hs)
        check(log == ["t1 has lock", ("t2 timeout", 1.0),
                      ("t2 has lock", 2.0), ("t1 put2", 5.0),
                      ("empty", 5.5), ("t3 done", 5.5)], log)
        check(sim.rel_now == 10.0, "advance ends exactly at +10")

        # chooser errors surface in the driver and the Sim stays usable
        sim.set_chooser(lambda names: "nobody", always=True)
        h = sim.spawn(lambda: 7, name="seven")
        try:
            sim.run()
            check(False, "HarnessError expected")
        except HarnessError:
            pass
        sim.set_chooser(None)
        sim.run()
        check(h.done and h.result == 7, h)
        check(sim.step() is None, "quiescent")


def scenario_f():
    t1 = scenario_a(seed=11)
    t2 = scenario_a(seed=11)
    check(json.dumps(t1) == json.dumps(t2), "transcripts differ")
    for pol in ("lifo", "seeded"):
        x = scenario_a(seed=11, policy=pol)
        y = scenario_a(seed=11, policy=pol)
        check(json.dumps(x) == json.dumps(y), f"{pol} not deterministic")
    t3 = scenario_a(seed=12)
    idents1 = dict(t1[:1])["after-accept"]["connection_keys"]
    idents3 = dict(t3[:1])["after-accept"]["connection_keys"]
    check(idents1 != idents3, "different seed, different idents")
    return len(json.dumps(t1))


def scenario_h(n=200):
    base = threading.active_count()
    t = real_time.perf_counter()
    for i in range(n):
        sim = Sim(seed=i)
        node = sim.node_mod.Node("srv.example.net", "example.net",
                                 ip_addresses=["10.0.0.1"], tcp_port=3868)
        node.start()
        r = sim.connect_in()
        sim.run()
        r.feed(mk_cer()[:30])
        sim.advance(1)
        sim.shutdown()
    dt = (real_time.perf_counter() - t) / n
    check(threading.active_count() == base,
          f"leaked OS threads: {threading.active_count()} vs {base}")
    return dt


def timing(n=100):
    """~8 driver events per scenario."""
    cer, ccr = mk_cer(), mk_ccr().as_bytes()
    t = real_time.perf_counter()
    for i in range(n):
        with Sim(seed=i) as sim:
            nm, am = sim.node_mod, sim.app_mod
            node = nm.Node("srv.example.net", "example.net",
                           ip_addresses=["10.0.0.1"], tcp_port=3868)
            app = am.SimpleThreadingApplication(
                4, is_auth_application=True,
                request_handler=lambda a, m: a.generate_answer(m, 2001))
            peer = node.add_peer("aaa://cli0.example.net", "example.net",
                                 ip_addresses=["10.1.0.1"])
            node.add_application(app, [peer])
            node.start()                                   # 1
            r = sim.connect_in(); sim.run()                # 2
            r.feed(cer[:40]); sim.run()                    # 3
            r.feed(cer[40:]); sim.run()                    # 4
            r.feed(ccr); sim.run()                         # 5
            sim.advance(3)                                 # 6
            r.feed(ccr); sim.run()                         # 7
            r.close(); sim.run()                           # 8
            sim.snapshot(node)
    return (real_time.perf_counter() - t) / n


def main():
    base = threading.active_count()
    t_all = real_time.perf_counter()
    results = []

    def run(label, fn, *a):
        t = real_time.perf_counter()
        out = fn(*a)
        results.append((label, real_time.perf_counter() - t, out))
        print(f"  ok  {label:<44} {1000 * (real_time.perf_counter() - t):8.1f} ms"
              f"  {out if not isinstance(out, list) else ''}")

    run("(a) server: CER split, CCR, DWR, DWA timeout", scenario_a)
    run("(b) outbound inprogress / refused / reconnect", scenario_b)
    run("(c) spawned send_request: answer and timeout", scenario_c)
    run("(d) node.stop() with DPR/DPA", scenario_d)
    run("(e) line mode: next_sequence race", scenario_e)
    run("(f) determinism (3 policies)", scenario_f)
    run("(g) spin detection, real seconds", scenario_g)
    run("(x) partial sends, stalls, errors, deaths", scenario_io)
    run("(y) watchdog, fd reuse, primitives, chooser", scenario_stuck)
    run("(h) 200 sequential Sims, s/Sim", scenario_h)
    run("(t) 8-event scenario, s/scenario", timing)
    check(threading.active_count() == base, "OS threads leaked")
    print(f"all vsim self tests passed in "
          f"{real_time.perf_counter() - t_all:.2f}s")
    return 0


if __name__ == "__main__":
    sys.exit(main())
