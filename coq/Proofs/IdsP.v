From DV Require Import Prelude.Base Proofs.BaseP Model.Ids.

Section Seq.
Variable mx : Z.
Hypothesis Hmx : 1 <= mx.
Notation nx := (next 1 mx).

Lemma next_range s : 1 <= s <= mx -> 1 <= nx s <= mx.
Proof. unfold next; intros H; destruct (s =? mx) eqn:E; lia. Qed.

Lemma next_nonzero s : 1 <= s <= mx -> nx s <> 0.
Proof. intros H; pose proof (next_range s H); lia. Qed.

Lemma next_wraps : nx mx = 1.
Proof. unfold next; rewrite Z.eqb_refl; reflexivity. Qed.

Lemma iter_range k s : 1 <= s <= mx -> 1 <= iter k nx s <= mx.
Proof. induction k as [|k IH]; intros H; cbn [iter]; [exact H|]. apply next_range, IH, H. Qed.

Lemma seq_iter k s : 1 <= s <= mx ->
  iter k nx s = (s - 1 + Z.of_nat k) mod mx + 1.
Proof.
  intros Hs. induction k as [|k IH].
  - cbn [iter]. rewrite Z.add_0_r, Z.mod_small; lia.
  - cbn [iter]. rewrite IH. unfold next.
    replace (s - 1 + Z.of_nat (S k)) with ((s - 1 + Z.of_nat k) + 1) by lia.
    set (a := s - 1 + Z.of_nat k) in *.
    assert (Ha : 0 <= a) by lia.
    destruct (a mod mx + 1 =? mx) eqn:E.
    + assert (a mod mx = mx - 1) by lia.
      pose proof (Z.div_mod a mx ltac:(lia)).
      replace (a + 1) with ((a / mx + 1) * mx) by lia.
      rewrite Z.mod_mul by lia. lia.
    + pose proof (Z.mod_pos_bound a mx ltac:(lia)).
      pose proof (Z.div_mod a mx ltac:(lia)).
      replace (a + 1) with ((a mod mx + 1) + (a / mx) * mx) by lia.
      rewrite Z.mod_add by lia.
      apply Z.eqb_neq in E. rewrite (Z.mod_small (a mod mx + 1)); [reflexivity|]. clear -E H Hmx. lia.
Qed.

Lemma iter_inj i j s : 1 <= s <= mx -> (i < j)%nat -> Z.of_nat j - Z.of_nat i < mx ->
  iter i nx s <> iter j nx s.
Proof.
  intros Hs Hij Hd. rewrite !seq_iter by assumption. intros E.
  assert (E' : (s - 1 + Z.of_nat i) mod mx = (s - 1 + Z.of_nat j) mod mx) by lia.
  set (a := s - 1 + Z.of_nat i) in *. set (d := Z.of_nat j - Z.of_nat i) in *.
  replace (s - 1 + Z.of_nat j) with (a + d) in E' by (unfold a, d; lia).
  assert (Hdm : (a + d - a) mod mx = 0).
  { rewrite Zminus_mod, <- E', Z.sub_diag. apply Z.mod_0_l; lia. }
  replace (a + d - a) with d in Hdm by lia.
  rewrite Z.mod_small in Hdm by (unfold d; lia). unfold d in Hdm; lia.
Qed.

Lemma iter_inj' i j s : 1 <= s <= mx -> Z.of_nat i < mx -> Z.of_nat j < mx ->
  iter i nx s = iter j nx s -> i = j.
Proof.
  intros Hs Hi Hj E. destruct (Nat.lt_trichotomy i j) as [H|[H|H]]; [|exact H|].
  - exfalso; apply (iter_inj i j s Hs H); [lia|exact E].
  - exfalso; apply (iter_inj j i s Hs H); [lia|symmetry; exact E].
Qed.

(* k successive draws from a generator at s: pairwise distinct while k < mx *)
Fixpoint draws (k : nat) (s : Z) : list Z :=
  match k with O => [] | S k' => nx s :: draws k' (nx s) end.

Lemma draws_iter k s : draws k s = map (fun i => iter (S i) nx s) (List.seq 0 k).
Proof.
  revert s; induction k as [|k IH]; intros s; [reflexivity|].
  cbn [draws]. rewrite IH. cbn [List.seq map iter]. f_equal.
  rewrite <- seq_shift, map_map. apply map_ext; intros i.
  cbn [iter]. f_equal. clear. induction i as [|i IH]; cbn [iter]; [reflexivity|]. rewrite IH; reflexivity.
Qed.

Lemma draws_nodup k s : 1 <= s <= mx -> Z.of_nat k <= mx -> NoDup (draws k s).
Proof.
  intros Hs Hk. rewrite draws_iter.
  apply NoDup_map_inj_in; [|apply seq_NoDup].
  intros i j Hi Hj E. apply in_seq in Hi, Hj.
  destruct (Nat.lt_trichotomy i j) as [H|[H|H]]; [|exact H|]; exfalso.
  - apply (iter_inj (S i) (S j) s Hs); [lia|lia|exact E].
  - apply (iter_inj (S j) (S i) s Hs); [lia|lia|symmetry; exact E].
Qed.
End Seq.

(* ---- initial end-to-end value --------------------------------------- *)
Lemma seq_init_bits now r :
  0 <= now -> 1 <= r <= 1048575 ->
  seq_init 4294967295 now r = (now mod 4096) * 1048576 + r.
Proof.
  intros Hn Hr. unfold seq_init.
  rewrite Z.lor_comm, (lor_shiftl_add r now 20) by lia.
  change 4294967295 with (2 ^ 32 - 1). rewrite land_ones_mod by lia.
  change (2 ^ 20) with 1048576. change (2 ^ 32) with 4294967296. lia.
Qed.

Lemma seq_init_high12 now r :
  0 <= now -> 1 <= r <= 1048575 ->
  seq_init 4294967295 now r / 1048576 = now mod 4096 /\
  1 <= seq_init 4294967295 now r <= 4294967295.
Proof. intros Hn Hr. rewrite seq_init_bits by assumption. lia. Qed.
