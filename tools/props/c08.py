"""C08 — node-layer property; see tools/nodecheck.py and tools/nodeoracles.py."""
import nodecheck

PROFILE = dict(outbound=0.1)
W = nodecheck.weights(bad_request=7, request=7, accept=4, cer=8)
N_QUICK, N_THOROUGH, LENGTH = 60, 1500, 16
THEMES = (("ready", 2, 60, 2, 3000), ("answers", 250, 0, None, 0), ("realms", 500, 0, None, 0), ("default_peer", None, 0, None, 0), ("comeback", None, 0, None, 0))
FILES = ["Props/C08.v"]


def check(run):
    return nodecheck.run(run, "C08", FILES, PROFILE, W, N_QUICK, N_THOROUGH, LENGTH, themes=THEMES)


replay = nodecheck.replay_generic
