(* C09 — an application's answer goes back over the connection of the requester, once
   Statements copied from the proof files; each is closed by `exact`. *)
From DV Require Prelude.Base Model.Ids Proofs.IdsP Model.Node Proofs.NodeA Proofs.NodeB Proofs.NodeC Proofs.NodeD Proofs.NodeF Proofs.NodeE.
From Coq Require String List Lia Bool Arith ZArith.

Module FromNodeC.
Import DV.Prelude.Base DV.Model.Ids DV.Proofs.IdsP DV.Model.Node DV.Proofs.NodeC.
Local Open Scope Z_scope.

(* shape of the reaction to Application.send_answer: NotRoutable, or the answer handed to one
   ready connection under whose host identity the pair was waiting, followed only by what the
   I/O thread does on its own (writes, closes, dials, its own CER / DWR) *)
Theorem C09_answer_shape n ds i a n' outs :
  step n ds (EAppAnswer i a) = (n', outs) ->
  outs = [ONotRoutable] \/
  exists cid c l rest,
    outs = OQueue cid a :: rest /\ List.Forall (sysout (pmap n)) rest /\
    List.In c (n_conns n) /\ c_id c = cid /\ is_ready_state (c_state c) = true /\
    List.In (c_host c, l) (n_peer_waiting n) /\ mem_zz (o_hbh a, o_e2e a) l = true.
Proof. exact (@NodeC.C09_answer_shape n ds i a n' outs). Qed.

(* C09: an answer handed to a connection is the submitted one, goes to a ready connection under
   whose host identity its (hop-by-hop, end-to-end) pair was waiting, and at most one answer is
   handed out (o_req m = false separates it from the CER / DWR of the I/O thread) *)
Theorem C09_to_requester n ds i a n' outs cid m :
  step n ds (EAppAnswer i a) = (n', outs) ->
  List.In (OQueue cid m) outs -> o_req m = false ->
  m = a /\
  (exists c l, List.In c (n_conns n) /\ c_id c = cid /\ is_ready_state (c_state c) = true /\
               List.In (c_host c, l) (n_peer_waiting n) /\ mem_zz (o_hbh a, o_e2e a) l = true) /\
  (List.length (List.filter is_answer_queue outs) <= 1)%nat /\
  (forall cid' m', List.In (OQueue cid' m') outs -> o_req m' = false -> cid' = cid /\ m' = m).
Proof. exact (@NodeC.C09_to_requester n ds i a n' outs cid m). Qed.

(* C09: waiting entries only come from delivered requests *)
Theorem C09_entry_from_delivery n ds e n' outs h hbh e2e :
  step n ds e = (n', outs) ->
  ~ pw_has (n_peer_waiting n) h (hbh, e2e) -> pw_has (n_peer_waiting n') h (hbh, e2e) ->
  exists cid ms c0 i m,
    e = ERecv cid ms /\ get_conn n cid = Some c0 /\ List.In m ms /\ List.In (ODeliver i m) outs /\
    m_hbh m = hbh /\ m_e2e m = e2e.
Proof. exact (@NodeC.C09_entry_from_delivery n ds e n' outs h hbh e2e). Qed.

(* C09: a pair enters a host's waiting list only when a request carrying it is delivered on a
   connection whose host identity is that host *)
Theorem C09_entry_host n cid m n' outs h k :
  recv_app_request n cid m = (n', outs) ->
  ~ pw_has (n_peer_waiting n) h k -> pw_has (n_peer_waiting n') h k ->
  exists c i, get_conn n cid = Some c /\ c_host c = h /\ outs = [ODeliver i m] /\ k = (m_hbh m, m_e2e m).
Proof. exact (@NodeC.C09_entry_host n cid m n' outs h k). Qed.

(* C09: an answer whose pair is recorded nowhere, or whose recorded host has no connection, or
   whose connection is not ready, is refused and nothing is handed to anybody *)
Theorem C09_gone_is_error n ds i a :
  (forall h l, List.In (h, l) (n_peer_waiting n) -> mem_zz (o_hbh a, o_e2e a) l = false) \/
  (exists host l,
      List.find (fun e => mem_zz (o_hbh a, o_e2e a) (snd e)) (n_peer_waiting n) = Some (host, l) /\
      ((forall c, List.In c (n_conns n) -> c_host c <> host) \/
       (exists c, List.find (fun c => String.eqb (c_host c) host) (n_conns n) = Some c /\
                  is_ready_state (c_state c) = false))) ->
  snd (step n ds (EAppAnswer i a)) = [ONotRoutable].
Proof. exact (@NodeC.C09_gone_is_error n ds i a). Qed.

(* C09: once submitted, the pair is gone from that host's list, immediately and after the step *)
Theorem C09_second_fails n a cid n1 :
  route_answer n a = (Some cid, n1) ->
  exists c, List.In c (n_conns n) /\ c_id c = cid /\
            (forall l, List.In (c_host c, l) (n_peer_waiting n1) -> mem_zz (o_hbh a, o_e2e a) l = false) /\
            forall ds i n' outs, step n ds (EAppAnswer i a) = (n', outs) ->
                                 ~ pw_has (n_peer_waiting n') (c_host c) (o_hbh a, o_e2e a).
Proof. exact (@NodeC.C09_second_fails n a cid n1). Qed.

(* ... consequently a second submission of the same answer is refused *)
Theorem C09_second_is_error n ds i a n' outs cid n1 :
  route_answer n a = (Some cid, n1) ->
  step n ds (EAppAnswer i a) = (n', outs) ->
  (forall c h, List.In c (n_conns n) -> c_id c = cid -> h <> c_host c ->
               ~ pw_has (n_peer_waiting n) h (o_hbh a, o_e2e a)) ->
  forall ds2 j, snd (step n' ds2 (EAppAnswer j a)) = [ONotRoutable].
Proof. exact (@NodeC.C09_second_is_error n ds i a n' outs cid n1). Qed.

(* C09: closing a connection drops every waiting list filed under its host identity *)
Theorem C09_removed_on_close n cid r c :
  get_conn n cid = Some c ->
  forall l, ~ List.In (c_host c, l) (n_peer_waiting (remove_conn n cid r)).
Proof. exact (@NodeC.C09_removed_on_close n cid r c). Qed.

(* C09 (old statement, origin table keyed by the pair only; false for the table keyed by connection,
   see ex_C09_unroutable_releases_origin_refuted below):
     fst (route_answer n m) = None ->
     List.find (fun e => mem_zz (o_hbh m, o_e2e m) (snd e)) (n_peer_waiting n) <> None ->
     forall h e x, List.In (h, e, x) (n_origin_waiting (snd (route_answer n m))) ->
                   ~ (h = o_hbh m /\ e = o_e2e m).
   New: an answer that cannot be routed although a host was waiting for its pair AND a connection
   with that host identity exists (which then is not ready) releases that connection's entry for
   the pair; every other entry of the origin table stays. *)
Theorem C09_unroutable_releases_origin n m host l c :
  List.find (fun e => mem_zz (o_hbh m, o_e2e m) (snd e)) (n_peer_waiting n) = Some (host, l) ->
  List.find (fun c => String.eqb (c_host c) host) (n_conns n) = Some c ->
  fst (route_answer n m) = None ->
  is_ready_state (c_state c) = false /\
  (forall k h e x, List.In (k, h, e, x) (n_origin_waiting (snd (route_answer n m))) ->
                   ~ (k = c_id c /\ h = o_hbh m /\ e = o_e2e m)) /\
  (forall k h e x, List.In (k, h, e, x) (n_origin_waiting n) ->
                   ~ (k = c_id c /\ h = o_hbh m /\ e = o_e2e m) ->
                   List.In (k, h, e, x) (n_origin_waiting (snd (route_answer n m)))).
Proof. exact (@NodeC.C09_unroutable_releases_origin n m host l c). Qed.

(* when no connection carries the waiting host's identity the origin table is left as it is (the
   entries of a connection leave with the connection, remove_conn) *)
Theorem C09_unroutable_no_conn_keeps_origin n m host l :
  List.find (fun e => mem_zz (o_hbh m, o_e2e m) (snd e)) (n_peer_waiting n) = Some (host, l) ->
  List.find (fun c => String.eqb (c_host c) host) (n_conns n) = None ->
  fst (route_answer n m) = None /\
  n_origin_waiting (snd (route_answer n m)) = n_origin_waiting n.
Proof. exact (@NodeC.C09_unroutable_no_conn_keeps_origin n m host l). Qed.

(* ... and when the application's handler raises, the request is delivered and answered 5012 on the
   same connection, and no pair is left behind *)
Theorem C09_raise_leaves_no_entry n cid m n' outs :
  recv_app_request n cid m = (n', outs) -> handler_raises m = true ->
  (forall h k, pw_has (n_peer_waiting n') h k -> pw_has (n_peer_waiting n) h k) /\
  (forall i, List.In (ODeliver i m) outs -> outs = [ODeliver i m; OQueue cid (answer_of m (Some RC_UNABLE) [])]).
Proof. exact (@NodeC.C09_raise_leaves_no_entry n cid m n' outs). Qed.
End FromNodeC.

Module FromNodeE.
Import DV.Prelude.Base DV.Model.Node DV.Proofs.NodeC DV.Proofs.NodeF DV.Proofs.NodeE.
Import Coq.micromega.Lia.
Local Open Scope Z_scope.

(* C: under wf_init_g + ce_guard (= reach_g of NodeD: the hypotheses of C13_one_conn_per_peer, reach_c, and
   of C19_waiting_hosts, reach_nc, together), an answer that an application hands to the node goes out,
   unchanged, on the very connection from which a request with its (hop-by-hop, end-to-end) pair was read
   and delivered to an application earlier in the history *)
Theorem C07_history_app_answers n0 evs1 ds i a evs2 cid a' :
  NodeD.wf_init_g n0 -> NodeD.ce_guard n0 (evs1 ++ (ds, EAppAnswer i a) :: evs2)%list ->
  List.In (OQueue cid a') (snd (step (fst (run n0 evs1)) ds (EAppAnswer i a))) -> o_req a' = false ->
  a' = a /\
  exists ms outs j m,
    List.In (ERecv cid ms, outs) (trace n0 evs1) /\ List.In m ms /\ m_req m = true /\
    m_hbh m = o_hbh a /\ m_e2e m = o_e2e a /\ List.In (ODeliver j m) outs.
Proof. exact (@NodeE.C07_history_app_answers n0 evs1 ds i a evs2 cid a'). Qed.

(* C, stated on a point of the history: the event, the state before it and its outputs *)
Theorem C07_history_app_answers_at n0 evs nk i a outs cid a' :
  NodeD.wf_init_g n0 -> NodeD.ce_guard n0 evs ->
  List.In (nk, (EAppAnswer i a, outs)) (strace n0 evs) -> List.In (OQueue cid a') outs -> o_req a' = false ->
  a' = a /\
  exists evs1 ds evs2 ms outs0 j m,
    evs = (evs1 ++ (ds, EAppAnswer i a) :: evs2)%list /\
    List.In (ERecv cid ms, outs0) (trace n0 evs1) /\ List.In m ms /\ m_req m = true /\
    m_hbh m = o_hbh a /\ m_e2e m = o_e2e a /\ List.In (ODeliver j m) outs0.
Proof. exact (@NodeE.C07_history_app_answers_at n0 evs nk i a outs cid a'). Qed.

(* D: when the requests read from a connection carry pairwise distinct (hop-by-hop, end-to-end) pairs, the
   node hands that connection at most one answer per pair in the whole history *)
Theorem C07_history_at_most_once n0 evs cid k :
  NodeD.wf_init_g n0 -> NodeD.ce_guard n0 evs -> List.NoDup (req_keys_on cid evs) ->
  (qans cid k (trace n0 evs) <= 1)%nat.
Proof. exact (@NodeE.C07_history_at_most_once n0 evs cid k). Qed.
End FromNodeE.

Print Assumptions FromNodeC.C09_answer_shape.
Print Assumptions FromNodeC.C09_to_requester.
Print Assumptions FromNodeC.C09_entry_from_delivery.
Print Assumptions FromNodeC.C09_entry_host.
Print Assumptions FromNodeC.C09_gone_is_error.
Print Assumptions FromNodeC.C09_second_fails.
Print Assumptions FromNodeC.C09_second_is_error.
Print Assumptions FromNodeC.C09_removed_on_close.
Print Assumptions FromNodeC.C09_unroutable_releases_origin.
Print Assumptions FromNodeC.C09_unroutable_no_conn_keeps_origin.
Print Assumptions FromNodeC.C09_raise_leaves_no_entry.
Print Assumptions FromNodeE.C07_history_app_answers.
Print Assumptions FromNodeE.C07_history_app_answers_at.
Print Assumptions FromNodeE.C07_history_at_most_once.
