(* C02 — message codec is byte-exact; class dispatch and AVP search are correct.
   Statements only.  The registry-wide ("every registered command code") parts are the
   table obligations of Link/LinkRegistry.v. *)
From DV Require Import Prelude.Base Spec.Rfc6733 Spec.MsgSpec Model.Wire Model.Msg Proofs.WireP Proofs.MsgP.
From Coq Require Import String.

(* the 20-byte header is exactly version(8) length(24) flags(8) code(24) app(32) hbh(32) e2e(32) *)
Theorem C02_hdr_is_rfc : forall h, wf_hdr h ->
  enc_hdr h = Ok (rfc_hdr (h_version h) (h_length h) (h_flags h) (h_code h) (h_app h) (h_hbh h) (h_e2e h)).
Proof. exact enc_hdr_is_rfc. Qed.
Theorem C02_hdr_length : forall h bs, enc_hdr h = Ok bs -> blen bs = 20.
Proof. exact enc_hdr_length. Qed.

(* both directions, for all 8/24/32-bit field values *)
Theorem C02_hdr_dec_enc : forall h bs rest, wf_hdr h -> enc_hdr h = Ok bs -> dec_hdr (bs ++ rest) = Ok (h, rest).
Proof. exact dec_enc_hdr. Qed.
Theorem C02_hdr_enc_dec : forall bs h rest, wf_bytes bs -> dec_hdr bs = Ok (h, rest) ->
  wf_hdr h /\ exists pre, enc_hdr h = Ok pre /\ pre ++ rest = bs.
Proof. exact enc_dec_hdr. Qed.

(* the length field equals the total byte count (for every message that fits the 24-bit field) *)
Theorem C02_length_field : forall h l bs, wf_hdr h -> Forall wf_avp l -> enc_msg h l = Ok bs ->
  blen bs < 16777216 -> exists h' r, dec_hdr bs = Ok (h', r) /\ h_length h' = blen bs.
Proof. exact enc_msg_length_field_partial. Qed.

(* generic decode of an encoded message: same header (with the recomputed length), same AVP
   sequence -- order, codes, vendors, flags, payloads; any number of AVPs *)
Theorem C02_dec_enc_msg : forall h l bs, wf_hdr h -> Forall wf_avp l -> enc_msg h l = Ok bs ->
  blen bs < 16777216 -> dec_msg bs = Ok (set_length h (blen bs), l).
Proof. exact dec_enc_msg_partial. Qed.

(* lists of AVPs of any length *)
Theorem C02_dec_enc_avps : forall l bs, Forall wf_avp' l -> enc_avps l = Ok bs -> dec_avps bs = Ok l.
Proof. exact dec_enc_avps'. Qed.

(* the decoded header keeps the received flags whatever class is instantiated *)
Theorem C02_decoded_flags : forall classes cname h, h_flags (decoded_header classes cname h) = h_flags h.
Proof. exact decoded_header_flags. Qed.

(* class dispatch, for ANY registry (so run-time registrations are covered): an unknown command
   code gives the generic class; a known one the class its registry row names for the R bit
   (the registered base class for a plain decode) *)
Theorem C02_dispatch : forall reg plain code flags,
  (class_of reg plain code flags = "UndefinedMessage"%string /\
   forall c b r a, In (c, b, r, a) reg -> c <> code) \/
  (exists b r a, In (code, b, r, a) reg /\
   class_of reg plain code flags = if plain then b else if Z.land flags 128 =? 0 then a else r).
Proof.
  intros reg plain code flags. unfold class_of.
  match goal with |- context [find ?f reg] => destruct (find f reg) as [[[[c b] r] a]|] eqn:E end.
  - right. apply find_some in E as [Hin Hc]. apply Z.eqb_eq in Hc. subst c.
    exists b, r, a. split; [exact Hin|reflexivity].
  - left. split; [reflexivity|]. intros c b r a Hin Hc.
    pose proof (find_none _ _ E _ Hin) as Hn. cbn in Hn. apply Z.eqb_neq in Hn. contradiction.
Qed.

Print Assumptions C02_hdr_is_rfc.
Print Assumptions C02_hdr_length.
Print Assumptions C02_hdr_dec_enc.
Print Assumptions C02_hdr_enc_dec.
Print Assumptions C02_length_field.
Print Assumptions C02_dec_enc_msg.
Print Assumptions C02_dec_enc_avps.
Print Assumptions C02_decoded_flags.
Print Assumptions C02_dispatch.
