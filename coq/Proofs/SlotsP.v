(* C14: the thread-slot accounting of ThreadingApplication can never leak a slot and no
   transition ends a consumer, for every interleaving of arrivals, consumer steps and handler
   outcomes (answer / no answer / exception), routable or not. *)
From DV Require Import Prelude.Base Model.Slots.

Record SInv (a : tapp) : Prop := {
  s_cons : t_slots a = (List.length (t_running a) + List.length (t_respq a))%nat;
  s_cap  : (0 < t_max a)%nat -> (t_slots a <= t_max a)%nat;
  s_recv : t_recv_alive a = true;
  s_resp : t_resp_alive a = true }.

Lemma remove1_length x l : List.existsb (Z.eqb x) l = true ->
  S (List.length (remove1 x l)) = List.length l.
Proof.
  induction l as [|y r IH]; cbn [List.existsb remove1]; intros H; [discriminate|].
  destruct (x =? y) eqn:E; cbn [orb] in H.
  - reflexivity.
  - cbn [List.length]. rewrite (IH H). reflexivity.
Qed.

Lemma sinv_init max : SInv (tapp0 max).
Proof. constructor; cbn; intros; lia || reflexivity. Qed.

Lemma sinv_step a s a' o : SInv a -> tstep_fn a s = Some (a', o) -> SInv a'.
Proof.
  intros [Hc Hk Hr Hs] H. destruct s as [id| | |rt|id oc|rt]; cbn [tstep_fn] in H.
  - injection H as <- _. constructor; cbn; auto.
  - destruct (t_held a); [discriminate|]. destruct (t_recvq a) as [|id r]; [discriminate|].
    rewrite Hr in H. injection H as <- _. constructor; cbn; auto.
  - destruct (t_held a) as [id|]; [|discriminate]. destruct (has_slot a) eqn:Eh; [|discriminate].
    injection H as <- _. constructor; cbn [t_slots t_running t_respq t_max t_recv_alive t_resp_alive set_app]; auto.
    + rewrite app_length; cbn [List.length]. lia.
    + intros Hm. unfold has_slot in Eh. apply orb_true_iff in Eh as [E|E].
      * apply Nat.eqb_eq in E. lia.
      * apply Nat.ltb_lt in E. lia.
  - destruct (t_held a) as [id|]; [|discriminate]. destruct (has_slot a); [discriminate|].
    injection H as <- _. constructor; cbn; auto.
  - destruct (List.existsb (Z.eqb id) (t_running a)) eqn:E; [|discriminate].
    injection H as <- _. constructor; cbn [t_slots t_running t_respq t_max t_recv_alive t_resp_alive set_app]; auto.
    pose proof (remove1_length id (t_running a) E). rewrite app_length; cbn [List.length]. lia.
  - destruct (t_respq a) as [|[id code] r] eqn:Eq; [discriminate|]. rewrite Hs in H.
    injection H as <- _. constructor; cbn [t_slots t_running t_respq t_max t_recv_alive t_resp_alive set_app]; auto.
    + cbn [List.length] in Hc. lia.
    + intros Hm. specialize (Hk Hm). lia.
Qed.

Theorem slots_invariant : forall max ss a o, trun (tapp0 max) ss = Some (a, o) -> SInv a.
Proof.
  intros max ss. generalize (sinv_init max). generalize (tapp0 max).
  induction ss as [|s r IH]; intros a0 I a o H; cbn [trun] in H.
  - injection H as <- _. exact I.
  - destruct (tstep_fn a0 s) as [[a1 o1]|] eqn:E; [|discriminate].
    destruct (trun a1 r) as [[a2 o2]|] eqn:E2; [|discriminate]. injection H as <- _.
    eapply IH; [eapply sinv_step; eassumption|exact E2].
Qed.

(* no processing capacity is consumed for good: once no handler runs and nothing is queued,
   every slot is back -- whatever the handlers did and whether or not answers were routable *)
Theorem capacity_returns : forall max ss a o, trun (tapp0 max) ss = Some (a, o) ->
  t_running a = [] -> t_respq a = [] -> t_slots a = 0%nat.
Proof. intros max ss a o H Hr Hq. destruct (slots_invariant max ss a o H) as [Hc _ _ _]. rewrite Hc, Hr, Hq. reflexivity. Qed.

Theorem consumers_survive : forall max ss a o, trun (tapp0 max) ss = Some (a, o) ->
  t_recv_alive a = true /\ t_resp_alive a = true.
Proof. intros max ss a o H. destruct (slots_invariant max ss a o H) as [_ _ Hr Hs]. split; assumption. Qed.

Lemma trun_max : forall ss a0 a o, trun a0 ss = Some (a, o) -> t_max a = t_max a0.
Proof.
  induction ss as [|s r IH]; intros a0 a o H; cbn [trun] in H; [injection H as <- _; reflexivity|].
  destruct (tstep_fn a0 s) as [[a1 o1]|] eqn:E; [|discriminate].
  destruct (trun a1 r) as [[a2 o2]|] eqn:E2; [|discriminate]. injection H as <- _.
  rewrite (IH _ _ _ E2). destruct s; cbn [tstep_fn] in E;
    repeat match type of E with
           | match ?x with _ => _ end = _ => destruct x eqn:?; try discriminate
           | (if ?x then _ else _) = _ => destruct x eqn:?; try discriminate
           end; injection E as <- _; reflexivity.
Qed.

Theorem capacity_bounded : forall max ss a o, (0 < max)%nat -> trun (tapp0 max) ss = Some (a, o) ->
  (List.length (t_running a) <= max)%nat.
Proof.
  intros max ss a o Hm H. destruct (slots_invariant max ss a o H) as [Hc Hk _ _].
  pose proof (trun_max ss (tapp0 max) a o H) as E. cbn [tapp0 t_max] in E.
  rewrite E in Hk. specialize (Hk Hm). lia.
Qed.

(* the slot is returned for EVERY handler outcome, including "no answer" and "exception" *)
Example slot_returned_for_every_outcome :
  List.map (fun oc => match trun (tapp0 1) [SArrive 7; STake; SSlot; SFinish 7 oc; SResp false] with
                      | Some (a, _) => Some (t_slots a)
                      | None => None end) [HAnswer; HNone; HRaise]
  = [Some 0%nat; Some 0%nat; Some 0%nat].
Proof. vm_compute. reflexivity. Qed.
