(* C16, concurrent part: for ANY number of threads, ANY number of draws per
   thread and ANY interleaving of the line-granular step programs, the values
   handed out are pairwise distinct until the counter space wraps. *)
From DV Require Import Prelude.Base Proofs.BaseP Model.Ids Proofs.IdsP.

Lemma upd_same f i x : upd f i x i = x.
Proof. unfold upd; rewrite Nat.eqb_refl; reflexivity. Qed.
Lemma upd_other f i x j : j <> i -> upd f i x j = f j.
Proof. unfold upd; intros H; apply Nat.eqb_neq in H; rewrite H; reflexivity. Qed.

Section Conc.
Variable mx s0 : Z.
Hypothesis Hmx : 1 <= mx.
Hypothesis Hs0 : 1 <= s0 <= mx.
Notation nx := (next 1 mx).

(* generic invariant; the program enters through pc classes *)
Variable plen : nat.                 (* length of the program *)
Variable held : nat -> bool.         (* pcs at which the thread holds the lock *)
Variable post : nat -> bool.         (* counter modified, value not yet read *)
Variable pnd  : nat -> bool.         (* value read into a local, not yet returned *)
Variable atmx : nat -> bool.         (* the test found counter = MAX *)
Variable nomx : nat -> bool.         (* the test found counter <> MAX *)

Record Inv (m : mach) : Prop := {
  i_sq  : sq m = iter (cnt m) nx s0;
  i_ret : forall v k, In (v, k) (ret m) -> v = iter k nx s0 /\ (k <= cnt m)%nat;
  i_nd  : NoDup (map snd (ret m));
  i_pc  : forall i, (pc (th m i) <= plen)%nat;
  i_lk  : forall i, held (pc (th m i)) = true <-> lk m = Some i;
  i_post : forall i, post (pc (th m i)) = true ->
            ~ In (cnt m) (map snd (ret m)) /\
            forall j, pend (th m j) = true -> lidx (th m j) <> cnt m;
  i_mx  : forall i, atmx (pc (th m i)) = true -> sq m = mx;
  i_nmx : forall i, nomx (pc (th m i)) = true -> sq m <> mx;
  i_pnd : forall i, pend (th m i) = pnd (pc (th m i));
  i_loc : forall i, pend (th m i) = true ->
            loc (th m i) = iter (lidx (th m i)) nx s0 /\ (lidx (th m i) <= cnt m)%nat /\
            ~ In (lidx (th m i)) (map snd (ret m));
  i_sep : forall i j, i <> j -> pend (th m i) = true -> pend (th m j) = true ->
            lidx (th m i) <> lidx (th m j) }.

Lemma inv_values m : Inv m -> Z.of_nat (cnt m) < mx -> NoDup (map fst (ret m)).
Proof.
  intros I Hc. pose proof (i_nd m I) as Hnd. pose proof (i_ret m I) as Hr.
  revert Hnd Hr. generalize (ret m) as l. induction l as [|[v k] l IH]; intros Hnd Hr; [constructor|].
  cbn [map fst snd] in *. inversion Hnd as [|? ? Hk Hnd']; subst. constructor.
  - intros Hin. apply in_map_iff in Hin as [[v' k'] [E Hin]]. cbn [fst] in E; subst v'.
    destruct (Hr v k (or_introl eq_refl)) as [Ev Hkc].
    destruct (Hr v k' (or_intror Hin)) as [Ev' Hkc'].
    assert (k = k').
    { apply (iter_inj' mx Hmx k k' s0 Hs0); [lia|lia|congruence]. }
    subst k'. apply Hk. apply in_map_iff. exists (v, k); split; [reflexivity|exact Hin].
  - apply IH; [exact Hnd'|]. intros v' k' Hin; apply Hr; right; exact Hin.
Qed.

(* facts of the invariant instantiated at one thread *)
Lemma inv_at m i : Inv m ->
  (pc (th m i) <= plen)%nat /\
  (held (pc (th m i)) = true <-> lk m = Some i) /\
  (post (pc (th m i)) = true -> ~ In (cnt m) (map snd (ret m)) /\
      forall j, pend (th m j) = true -> lidx (th m j) <> cnt m) /\
  (atmx (pc (th m i)) = true -> sq m = mx) /\
  (nomx (pc (th m i)) = true -> sq m <> mx) /\
  pend (th m i) = pnd (pc (th m i)) /\
  (pend (th m i) = true -> loc (th m i) = iter (lidx (th m i)) nx s0 /\ (lidx (th m i) <= cnt m)%nat /\
            ~ In (lidx (th m i)) (map snd (ret m))).
Proof.
  intros I.
  exact (conj (i_pc m I i) (conj (i_lk m I i) (conj (i_post m I i) (conj (i_mx m I i)
        (conj (i_nmx m I i) (conj (i_pnd m I i) (i_loc m I i))))))).
Qed.

Lemma iter_S k : iter (S k) nx s0 = nx (iter k nx s0).
Proof. reflexivity. Qed.
End Conc.

(* ---------------------------------------------------------------------- *)
Ltac thr_cases i j := destruct (Nat.eq_dec j i) as [->|?];
  [rewrite ?upd_same in *|rewrite ?upd_other in * by assumption].
Ltac split_thr i := repeat match goal with
  | |- context [upd _ i _ ?j] => thr_cases i j
  | H : context [upd _ i _ ?j] |- _ => thr_cases i j
  end.

Inductive Mark (n : nat) : Prop := MkMark.
Ltac keep3 I m := first [exact (i_sq _ _ _ _ _ _ _ _ m I) | exact (i_ret _ _ _ _ _ _ _ _ m I) | exact (i_nd _ _ _ _ _ _ _ _ m I)].
Ltac ret_mono I m := let v := fresh in let k := fresh in let Hin := fresh in
  intros v k Hin; destruct (i_ret _ _ _ _ _ _ _ _ m I v k Hin); split; [assumption|lia].

Section ProgA.   (* locked_next_seq = [IAcq; IIfMax 3; ISetMin 4; IInc; IRetSeq; IRel] *)
Variable mx s0 : Z.
Hypothesis Hmx : 1 <= mx.
Hypothesis Hs0 : 1 <= s0 <= mx.
Notation nx := (next 1 mx).
Definition heldA (p : nat) : bool := (1 <=? p)%nat && (p <=? 5)%nat.
Definition postA (p : nat) : bool := (p =? 4)%nat.
Definition pndA (p : nat) : bool := false.
Definition atmxA (p : nat) : bool := (p =? 2)%nat.
Definition nomxA (p : nat) : bool := (p =? 3)%nat.
Notation InvA := (Inv mx s0 6 heldA postA pndA atmxA nomxA).
Notation atA := (inv_at mx s0 6 heldA postA pndA atmxA nomxA).

Lemma invA_init draws : InvA (init locked_next_seq s0 draws).
Proof.
  constructor; cbn; intros; try (split; discriminate); try discriminate; try lia;
    try constructor; try tauto.
Qed.

Lemma classA p : (atmxA p = true -> heldA p = true) /\ (nomxA p = true -> heldA p = true) /\
  (postA p = true -> heldA p = true).
Proof. do 7 (destruct p as [|p]; [cbn; intuition discriminate|]). cbn; intuition discriminate. Qed.
Ltac pose_all I m := repeat match goal with j : nat |- _ =>
    lazymatch goal with _ : Mark j |- _ => fail | _ => pose proof (atA m j I); pose proof (classA (pc (th m j))); pose proof (MkMark j) end end.
Ltac crush I m i :=
  repeat (first [ progress intros | progress split_thr i
                | match goal with |- _ /\ _ => split | |- _ <-> _ => split end ]);
  cbn [setpc pc pend lidx loc todo] in *;
  pose_all I m;
  cbn [heldA postA pndA atmxA nomxA Nat.leb Nat.eqb andb] in *;
  try solve [intuition (first [congruence | lia | discriminate | eauto])].


Lemma fresh_idx m : InvA m -> ~ In (S (cnt m)) (map snd (ret m)).
Proof.
  intros I Hin. apply in_map_iff in Hin as [[v k] [E Hin]]. cbn in E; subst k.
  destruct (i_ret _ _ _ _ _ _ _ _ m I v _ Hin). lia.
Qed.

Lemma invA_step m i : InvA m -> InvA (step locked_next_seq 1 mx m i).
Proof.
  intros I. pose proof (atA m i I) as (Hpc & Hlk & Hpost & Hmxi & Hnmx & Hpn & Hloc).
  assert (Hnp : forall j, pend (th m j) = false) by (intros j; rewrite (i_pnd _ _ _ _ _ _ _ _ m I j); reflexivity).
  pose proof (fresh_idx m I) as Hfresh.
  unfold step.
  destruct (pc (th m i)) as [|[|[|[|[|[|[|p]]]]]]] eqn:Epc; [..|lia]; cbn [nth_error locked_next_seq].
  - (* pc 0: Acquire *)
    destruct (lk m) as [h|] eqn:Elk; [exact I|].
    constructor; cbn [sq cnt ret lk th]; [keep3 I m..| | | | | | | |]; crush I m i.
  - (* pc 1: IfMax *)
    destruct (sq m =? mx) eqn:Emx;
    (constructor; cbn [sq cnt ret lk th]; [keep3 I m..| | | | | | | |]); crush I m i.
  - (* pc 2: SetMin *)
    constructor; cbn [sq cnt ret lk th]; [ | ret_mono I m| keep3 I m | | | | | | | |]; crush I m i.
    rewrite iter_S, <- (i_sq _ _ _ _ _ _ _ _ m I), Hmxi by reflexivity. unfold next; rewrite Z.eqb_refl; reflexivity.
  - (* pc 3: Inc *)
    constructor; cbn [sq cnt ret lk th]; [ | ret_mono I m| keep3 I m | | | | | | | |]; crush I m i.
    rewrite iter_S, <- (i_sq _ _ _ _ _ _ _ _ m I). unfold next.
    destruct (sq m =? mx) eqn:E; [apply Z.eqb_eq in E; exfalso; apply Hnmx; [reflexivity|exact E]|reflexivity].
  - (* pc 4: RetSeq *)
    destruct (Hpost eq_refl) as [Hnin _].
    constructor; cbn [sq cnt ret lk th]; [keep3 I m | | | | | | | | | |].
    { intros v k Hin; apply in_app_or in Hin as [Hin|[E|[]]];
        [exact (i_ret _ _ _ _ _ _ _ _ m I v k Hin)|].
      injection E as <- <-. split; [exact (i_sq _ _ _ _ _ _ _ _ m I)|lia]. }
    { rewrite map_app; cbn [map snd]. apply NoDup_snoc; [exact (i_nd _ _ _ _ _ _ _ _ m I)|exact Hnin]. }
    all: crush I m i.
  - (* pc 5: Release *)
    constructor; cbn [sq cnt ret lk th]; [keep3 I m..| | | | | | | |]; crush I m i.
  - (* pc 6: past the end: next call or idle *)
    destruct (todo (th m i)) as [|k]; [exact I|].
    constructor; cbn [sq cnt ret lk th]; [keep3 I m..| | | | | | | |]; crush I m i.
Qed.

Lemma invA_run sched m : InvA m -> InvA (run locked_next_seq 1 mx m sched).
Proof.
  revert m; induction sched as [|i sched IH]; intros m I; [exact I|].
  cbn [run fold_left]. apply IH, invA_step, I.
Qed.

(* every reachable state, any number of threads/draws, any schedule *)
Theorem locked_next_seq_unique draws sched :
  let m := run locked_next_seq 1 mx (init locked_next_seq s0 draws) sched in
  Z.of_nat (cnt m) < mx -> NoDup (map fst (ret m)).
Proof.
  intros m Hc. apply (inv_values mx s0 Hmx Hs0 6 heldA postA pndA atmxA nomxA); [|exact Hc].
  apply invA_run, invA_init.
Qed.

Theorem locked_next_seq_range draws sched v k :
  let m := run locked_next_seq 1 mx (init locked_next_seq s0 draws) sched in
  In (v, k) (ret m) -> 1 <= v <= mx.
Proof.
  intros m Hin. destruct (i_ret _ _ _ _ _ _ _ _ m (invA_run sched _ (invA_init draws)) v k Hin) as [-> _].
  apply iter_range; assumption.
Qed.
End ProgA.

Section ProgB.   (* locked_next_id = [IAcq; IIfMax 3; ISetMin 4; IInc; ILoad; IRel; IRetLoc] *)
Variable mx s0 : Z.
Hypothesis Hmx : 1 <= mx.
Hypothesis Hs0 : 1 <= s0 <= mx.
Notation nx := (next 1 mx).
Definition heldB (p : nat) : bool := (1 <=? p)%nat && (p <=? 5)%nat.
Definition postB (p : nat) : bool := (p =? 4)%nat.
Definition pndB (p : nat) : bool := (p =? 5)%nat || (p =? 6)%nat.
Definition atmxB (p : nat) : bool := (p =? 2)%nat.
Definition nomxB (p : nat) : bool := (p =? 3)%nat.
Notation InvB := (Inv mx s0 7 heldB postB pndB atmxB nomxB).
Notation atB := (inv_at mx s0 7 heldB postB pndB atmxB nomxB).

Lemma invB_init draws : InvB (init locked_next_id s0 draws).
Proof.
  constructor; cbn; intros; try (split; discriminate); try discriminate; try lia;
    try constructor; try tauto.
Qed.

Lemma classB p : (atmxB p = true -> heldB p = true) /\ (nomxB p = true -> heldB p = true) /\
  (postB p = true -> heldB p = true) /\ (pndB p = true -> postB p = false).
Proof. do 8 (destruct p as [|p]; [cbn; intuition discriminate|]). cbn; intuition discriminate. Qed.
Ltac pose_allB I m := repeat match goal with j : nat |- _ =>
    lazymatch goal with _ : Mark j |- _ => fail | _ => pose proof (atB m j I); pose proof (classB (pc (th m j))); pose proof (MkMark j) end end.
Ltac crushB I m i :=
  repeat (first [ progress intros | progress split_thr i
                | match goal with |- _ /\ _ => split | |- _ <-> _ => split end ]);
  cbn [setpc pc pend lidx loc todo] in *;
  pose_allB I m;
  cbn [heldB postB pndB atmxB nomxB Nat.leb Nat.eqb andb orb] in *;
  try solve [intuition (first [congruence | lia | discriminate | eauto])].

Lemma fresh_idxB m : InvB m -> ~ In (S (cnt m)) (map snd (ret m)).
Proof.
  intros I Hin. apply in_map_iff in Hin as [[v k] [E Hin]]. cbn in E; subst k.
  destruct (i_ret _ _ _ _ _ _ _ _ m I v _ Hin). lia.
Qed.

Lemma invB_step m i : InvB m -> InvB (step locked_next_id 1 mx m i).
Proof.
  intros I. pose proof (atB m i I) as (Hpc & Hlk & Hpost & Hmxi & Hnmx & Hpn & Hloc).
  pose proof (fresh_idxB m I) as Hfresh.
  pose proof (i_sep _ _ _ _ _ _ _ _ m I) as Hsep.
  unfold step.
  destruct (pc (th m i)) as [|[|[|[|[|[|[|[|p]]]]]]]] eqn:Epc; [..|lia]; cbn [nth_error locked_next_id].
  - (* pc 0: Acquire *)
    destruct (lk m) as [h|] eqn:Elk; [exact I|].
    constructor; cbn [sq cnt ret lk th]; [keep3 I m..| | | | | | | |]; crushB I m i.
  - (* pc 1: IfMax *)
    destruct (sq m =? mx) eqn:Emx;
    (constructor; cbn [sq cnt ret lk th]; [keep3 I m..| | | | | | | |]); crushB I m i.
  - (* pc 2: SetMin *)
    constructor; cbn [sq cnt ret lk th]; [ | ret_mono I m| keep3 I m | | | | | | | |];
      [rewrite iter_S, <- (i_sq _ _ _ _ _ _ _ _ m I), Hmxi by reflexivity; unfold next; rewrite Z.eqb_refl; reflexivity|..];
      crushB I m i.
  - (* pc 3: Inc *)
    constructor; cbn [sq cnt ret lk th]; [ | ret_mono I m| keep3 I m | | | | | | | |];
      [rewrite iter_S, <- (i_sq _ _ _ _ _ _ _ _ m I); unfold next;
       destruct (sq m =? mx) eqn:E; [apply Z.eqb_eq in E; exfalso; apply Hnmx; [reflexivity|exact E]|reflexivity]|..];
      crushB I m i.
  - (* pc 4: Load *)
    destruct (Hpost eq_refl) as [Hnin Hothers].
    pose proof (i_sq _ _ _ _ _ _ _ _ m I) as Hsq.
    constructor; cbn [sq cnt ret lk th]; [keep3 I m..| | | | | | | |]; crushB I m i.
  - (* pc 5: Release *)
    constructor; cbn [sq cnt ret lk th]; [keep3 I m..| | | | | | | |]; crushB I m i.
  - (* pc 6: RetLoc *)
    assert (Hp : pend (th m i) = true) by (rewrite Hpn; reflexivity).
    destruct (Hloc Hp) as (Hl1 & Hl2 & Hl3).
    constructor; cbn [sq cnt ret lk th]; [keep3 I m | | | | | | | | | |].
    { intros v k Hin; apply in_app_or in Hin as [Hin|[E|[]]];
        [exact (i_ret _ _ _ _ _ _ _ _ m I v k Hin)|].
      injection E as <- <-. split; assumption. }
    { rewrite map_app; cbn [map snd]. apply NoDup_snoc; [exact (i_nd _ _ _ _ _ _ _ _ m I)|exact Hl3]. }
    all: try rewrite map_app; cbn [map snd]; crushB I m i.
    + rewrite in_app_iff; cbn [In]. intros [Hin|[E|[]]].
      * intuition.
      * match goal with Hx : postB (pc (th m i0)) = true |- _ =>
          destruct (i_post _ _ _ _ _ _ _ _ m I i0 Hx) as [_ Hq] end.
        apply (Hq i Hp). exact E.
    + rewrite in_app_iff; cbn [In]. intros [Hin|[E|[]]].
      * intuition.
      * apply (Hsep i i0); [congruence|exact Hp|assumption|exact E].
  - (* pc 7: past the end *)
    destruct (todo (th m i)) as [|k]; [exact I|].
    constructor; cbn [sq cnt ret lk th]; [keep3 I m..| | | | | | | |]; crushB I m i.
Qed.

Lemma invB_run sched m : InvB m -> InvB (run locked_next_id 1 mx m sched).
Proof.
  revert m; induction sched as [|i sched IH]; intros m I; [exact I|].
  cbn [run fold_left]. apply IH, invB_step, I.
Qed.

Theorem locked_next_id_unique draws sched :
  let m := run locked_next_id 1 mx (init locked_next_id s0 draws) sched in
  Z.of_nat (cnt m) < mx -> NoDup (map fst (ret m)).
Proof.
  intros m Hc. apply (inv_values mx s0 Hmx Hs0 7 heldB postB pndB atmxB nomxB); [|exact Hc].
  apply invB_run, invB_init.
Qed.
End ProgB.
