(* The hand-over of an answer to the thread blocked in Application.send_request (node/application.py), at the
   granularity of the statements of send_request and receive_answer: two thread programs over the shared table
   `_answer_waiting`, the waiter object (answer slot + event) and the wire.  The node model (Model/Node.v) takes the
   hand-over as one atomic output (OAnswerTo); this file is the part of C10 that is about schedules.

   sender      (send_request, after routing):  register the waiter; hand the request to the node; wait for the event
               (or time out); unregister (the `finally`)
   dispatcher  (receive_answer, on the connection's reader thread): look the waiter up; if there is one, store the
               answer and set the event, otherwise call handle_answer.
   The peer answers only a request it has seen: the dispatcher cannot start before the request is on the wire. *)
From DV Require Import Prelude.Base.

Inductive sinstr := SReg | SSend | SWait | SDel.
Inductive dinstr :=
| DGet      (* waiting = table.get(hbh)                     : found := registered *)
| DTest     (* if hbh in table                              : found := registered *)
| DIndex    (* waiting = table[hbh]                         : KeyError unless registered (only after a positive test) *)
| DStore    (* waiting.answer = message                     (only when found) *)
| DSet      (* waiting.event.set()                          (only when found) *)
| DHandle.  (* else: self.handle_answer(message)            (only when not found) *)

Inductive sres := RAnswer | RTimeout | REmpty.

Record hst := mk_hst {
  h_sp : list sinstr; h_dp : list dinstr;
  h_registered : bool; h_on_wire : bool; h_d_started : bool;
  h_found : bool; h_slot : bool; h_event : bool;
  h_result : option sres; h_unexpected : nat; h_crashed : bool }.

Inductive hact := ASender | ATimeout | ADisp.

Definition set_sp s p := mk_hst p (h_dp s) (h_registered s) (h_on_wire s) (h_d_started s) (h_found s) (h_slot s) (h_event s)
                                (h_result s) (h_unexpected s) (h_crashed s).
Definition set_dp s p := mk_hst (h_sp s) p (h_registered s) (h_on_wire s) true (h_found s) (h_slot s) (h_event s)
                                (h_result s) (h_unexpected s) (h_crashed s).
Definition crash s := mk_hst [] [] (h_registered s) (h_on_wire s) (h_d_started s) (h_found s) (h_slot s) (h_event s)
                             (h_result s) (h_unexpected s) true.

Definition sender_step (s : hst) : hst :=
  match h_sp s with
  | [] => s
  | SReg :: p => mk_hst p (h_dp s) true (h_on_wire s) (h_d_started s) (h_found s) (h_slot s) (h_event s)
                        (h_result s) (h_unexpected s) (h_crashed s)
  | SSend :: p => mk_hst p (h_dp s) (h_registered s) true (h_d_started s) (h_found s) (h_slot s) (h_event s)
                         (h_result s) (h_unexpected s) (h_crashed s)
  | SWait :: p =>
      if h_event s
      then mk_hst p (h_dp s) (h_registered s) (h_on_wire s) (h_d_started s) (h_found s) (h_slot s) (h_event s)
                  (Some (if h_slot s then RAnswer else REmpty)) (h_unexpected s) (h_crashed s)
      else s                                   (* blocked *)
  | SDel :: p =>
      if h_registered s
      then mk_hst p (h_dp s) false (h_on_wire s) (h_d_started s) (h_found s) (h_slot s) (h_event s)
                  (h_result s) (h_unexpected s) (h_crashed s)
      else crash s                             (* del of a missing key *)
  end.

Definition timeout_step (s : hst) : hst :=
  match h_sp s with
  | SWait :: p =>
      if h_event s then s
      else mk_hst p (h_dp s) (h_registered s) (h_on_wire s) (h_d_started s) (h_found s) (h_slot s) (h_event s)
                  (Some RTimeout) (h_unexpected s) (h_crashed s)
  | _ => s
  end.

Definition disp_step (s : hst) : hst :=
  if negb (h_on_wire s) then s else            (* no answer to a request that was never sent *)
  match h_dp s with
  | [] => s
  | DGet :: p | DTest :: p =>
      mk_hst (h_sp s) p (h_registered s) (h_on_wire s) true (h_registered s) (h_slot s) (h_event s)
             (h_result s) (h_unexpected s) (h_crashed s)
  | DIndex :: p => if h_found s then (if h_registered s then set_dp s p else crash s) else set_dp s p
  | DStore :: p =>
      if h_found s
      then mk_hst (h_sp s) p (h_registered s) (h_on_wire s) true (h_found s) true (h_event s)
                  (h_result s) (h_unexpected s) (h_crashed s)
      else set_dp s p
  | DSet :: p =>
      if h_found s
      then mk_hst (h_sp s) p (h_registered s) (h_on_wire s) true (h_found s) (h_slot s) true
                  (h_result s) (h_unexpected s) (h_crashed s)
      else set_dp s p
  | DHandle :: p =>
      if h_found s then set_dp s p
      else mk_hst (h_sp s) p (h_registered s) (h_on_wire s) true (h_found s) (h_slot s) (h_event s)
                  (h_result s) (S (h_unexpected s)) (h_crashed s)
  end.

Definition hstep (s : hst) (a : hact) : hst :=
  match a with ASender => sender_step s | ATimeout => timeout_step s | ADisp => disp_step s end.

Definition hrun (l : list hact) (s : hst) : hst := fold_left hstep l s.

Definition hinit (sp : list sinstr) (dp : list dinstr) : hst :=
  mk_hst sp dp false false false false false false None 0%nat false.

(* the programs of the code as it is (tied to the source by Link/LinkHandoff.v) *)
Definition sender_prog : list sinstr := [SReg; SSend; SWait; SDel].
Definition disp_prog : list dinstr := [DGet; DStore; DSet; DHandle].

(* variants that are refuted *)
Definition sender_prog_send_first : list sinstr := [SSend; SReg; SWait; SDel].
Definition disp_prog_test_then_index : list dinstr := [DTest; DIndex; DStore; DSet; DHandle].
Definition disp_prog_set_first : list dinstr := [DGet; DSet; DStore; DHandle].
