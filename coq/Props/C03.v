(* C03 — typed command/grouped attributes map 1:1 onto dictionary AVPs and round-trip.
   General statements for ANY class tables / dictionary; Link/LinkDefs.v checks the tables the
   library actually defines (exhaustive, regenerated every run). *)
From DV Require Import Prelude.Base Model.Wire Model.Types Model.Defs Proofs.WireP Proofs.DefsP.
From Coq Require Import String.

(* in a well-formed class every declared attribute denotes exactly one dictionary AVP (grouped iff
   it has a container class) and no two attributes share a name or an AVP *)
Theorem C03_attr_denotes : forall e c d, class_wf e c -> In d (d_defs c) ->
  (exists r, lookup (e_rows e) (f_code d) (f_vendor d) = Some r /\
             row_code r = f_code d /\ row_vendor r = f_vendor d /\
             (row_ty r = TGrouped <-> f_tclass d <> ""%string)) /\
  (forall d', In d' (d_defs c) ->
     f_attr d' = f_attr d \/ (f_code d' = f_code d /\ f_vendor d' = f_vendor d) -> d' = d).
Proof. exact DefsP.C03_attr_denotes. Qed.

(* what is generated: per definition, in definition order, exactly one AVP per set scalar / nested
   object and one per list element, none for unset attributes, each bearing the definition's code
   and vendor, V iff vendor <> 0, the effective M flag, P clear; then the undeclared extras unchanged *)
Theorem C03_gen_shape : forall e cls fields extra c l,
  cdef_lookup (e_classes e) cls = Some c -> d_has_defs c = true ->
  gen_obj e (Obj cls fields extra) = Ok l ->
  exists per : list (list avp),
    Forall2 (fun d p => List.length p = count_of (assoc (f_attr d) fields) /\ Forall (avp_for e d) p)
            (d_defs c) per /\
    l = (List.concat per ++ (if has_extras c then extra else []))%list.
Proof. exact DefsP.C03_gen_shape. Qed.

(* every shaped object (any subset of attributes set to values of the domain, lists of any length,
   any nesting depth) can be generated and put on the wire *)
Theorem C03_gen_total : forall e fuel o, e_time e = rfc_time -> shaped e fuel o -> exists l, gen_obj e o = Ok l.
Proof. exact DefsP.C03_gen_total. Qed.
Theorem C03_gen_encodable : forall e fuel o l, e_time e = rfc_time ->
  shaped e fuel o -> gen_obj e o = Ok l -> Forall wf_avp' l /\ exists bs, enc_avps l = Ok bs.
Proof. exact DefsP.C03_gen_encodable. Qed.

(* decoding restores every attribute that was set (unset = absent; [] lists identified) *)
Theorem C03_roundtrip : forall e fuel o l, e_time e = rfc_time ->
  shaped e fuel o -> gen_obj e o = Ok l ->
  forall fuel', (fuel <= fuel')%nat ->
  exists o', assign e fuel' (fresh (e_classes e) (obj_cls o)) l = Ok o' /\ obj_equiv e fuel' o' o.
Proof. exact DefsP.C03_roundtrip. Qed.

(* encode-decode-encode equals encode *)
Theorem C03_ede : forall e fuel o l, e_time e = rfc_time ->
  shaped e fuel o -> gen_obj e o = Ok l ->
  forall fuel', (fuel <= fuel')%nat ->
  exists o', assign e fuel' (fresh (e_classes e) (obj_cls o)) l = Ok o' /\ gen_obj e o' = Ok l.
Proof. exact DefsP.C03_ede. Qed.

(* the only errors generation can produce *)
Theorem C03_gen_errors : forall e o x, gen_obj e o = Err x ->
  x = AvpEncodeError \/ x = ValueError \/ x = TypeError \/ x = AttributeError.
Proof. exact gen_obj_errors. Qed.

Print Assumptions C03_attr_denotes.
Print Assumptions C03_gen_shape.
Print Assumptions C03_gen_total.
Print Assumptions C03_gen_encodable.
Print Assumptions C03_roundtrip.
Print Assumptions C03_ede.
Print Assumptions C03_gen_errors.
