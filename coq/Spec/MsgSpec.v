(* Declarative statements of the class-dispatch and answer-class rules (C02, C20),
   as decidable checks over the class tables. *)
From DV Require Import Prelude.Base Model.Wire Model.Msg.
From Coq Require Import String.

Definition in_mro (classes : list clsrow) (cls base : string) : bool :=
  match cls_lookup classes cls with
  | Some r => existsb (String.eqb base) (c_mro r)
  | None => false
  end.

Definition forced_code_ok (classes : list clsrow) (cls : string) (code : Z) : bool :=
  match cls_lookup classes cls with
  | Some r => (c_code r =? -1) || (c_code r =? code)
  | None => false
  end.

(* registry row: R=1 gives <Base>Request, R=0 gives <Base>Answer, both subclasses of the
   registered base class (or the base itself when the library has no typed pair) *)
Definition dispatch_row_ok (classes : list clsrow) (r : regrow) : bool :=
  let '(code, base, req, ans) := r in
  let has n := match cls_lookup classes n with Some _ => true | None => false end in
  has base &&
  (if has (String.append base "Request") && in_mro classes (String.append base "Request") base
   then String.eqb req (String.append base "Request") else String.eqb req base) &&
  (if has (String.append base "Answer") && in_mro classes (String.append base "Answer") base
   then String.eqb ans (String.append base "Answer") else String.eqb ans base) &&
  forced_code_ok classes req code && forced_code_ok classes ans code && forced_code_ok classes base code.

(* answer class: <X>Request -> <X>Answer when the library defines one under the same base X;
   otherwise the base X, otherwise the generic Message; any other class answers with itself *)
Definition answer_row_ok (classes : list clsrow) (r : clsrow) : bool :=
  let n := c_name r in
  match strip_request n with
  | None => String.eqb (answer_class classes n) n
  | Some x =>
      let a := String.append x "Answer" in
      if existsb (String.eqb x) (c_mro r) then
        if in_mro classes a x then String.eqb (answer_class classes n) a
        else String.eqb (answer_class classes n) x
      else String.eqb (answer_class classes n) "Message"
  end.

(* the answer class never forces a different command code than the request class *)
Definition answer_code_ok (classes : list clsrow) (r : clsrow) : bool :=
  match cls_lookup classes (answer_class classes (c_name r)) with
  | Some a => (c_code a =? -1) || (c_code a =? c_code r)
  | None => true
  end.
