"""C07 — node-layer property; see tools/nodecheck.py and tools/nodeoracles.py."""
import nodecheck

PROFILE = dict(outbound=0.3)
W = nodecheck.weights(stray_answer=4, bad_request=4, burst=2)
N_QUICK, N_THOROUGH, LENGTH = 60, 1500, 18
THEMES = (("ready", 2, 60, 2, 3000), ("answers", 300, 0, None, 0), ("answers_only", None, 0, None, 0), ("partial_reads", None, 0, None, 0), ("handshake_in", 1, 20, 2, 200))
# "exactly one answer" on the wire also rests on the write path handing every queued answer to the socket exactly once: the
# write path's translated thread programs (Link/LinkWrite.v) are an obligation here as well
FILES = ["Link/LinkWrite.v", "Props/C07.v"]


def _write_path_search(run):
    """failing-input search when the write-path tie (or anything else) broke without an oracle failing: the C15 schedule
    exploration (queued answers vs bytes handed to the socket, every interleaving with <= 2 pre-emptions)"""
    import errno
    from props import c15
    for spec in (dict(messages=[(0, True), (3, True), (0, True)], threads=[[0, 1, 2]], sends=[5, ("err", errno.EAGAIN), 30, "all"]),
                 dict(messages=[(3, True), (0, True), (40, True)], threads=[[0], [1], [2]], sends=[20, 21, "all"])):
        before = len(run.violations)
        c15.explore(run, spec, 2, 400)
        for v in run.violations[before:]:
            v["what"] = "answers queued on one connection reach the socket duplicated / damaged: " + (v.get("what") or "")
        if run.violations:
            break



def sync_handlers(run):
    """Applications that answer from INSIDE their request handler (the plain Application's way), with the kinds of answer
    an application may build: the macro-step model has the answer as a separate event, so this is judged on the
    implementation: one answer per request on the wire, the handler's, and no worker ends."""
    import nodesim as NS
    from vsim import Sim
    from diameter.message.avp.grouped import ExperimentalResult
    for shape in ("result-code", "experimental-result only", "error bit", "no result at all", "answer, then the handler raises"):
        sim = Sim(seed=1, t0=NS.T0)
        try:
            sim.script_random([77, 12345])
            node = sim.node_mod.Node("srv.example.net", "example.net", ip_addresses=["10.0.0.1"], tcp_port=3868)
            failures = []

            class App(sim.app_mod.Application):
                def handle_request(self, message):
                    a = self.generate_answer(message)
                    if shape in ("result-code", "answer, then the handler raises"):
                        a.result_code = 2001
                    elif shape == "experimental-result only":
                        a.result_code = None
                        a.experimental_result = ExperimentalResult(vendor_id=10415, experimental_result_code=5001)
                    elif shape == "error bit":
                        a.result_code = 3004
                        a.header.is_error = True
                    else:
                        a.result_code = None
                    try:
                        self.send_answer(a)
                    except Exception as e:   # noqa
                        failures.append(f"{type(e).__name__}: {e}")
                        raise
                    if shape == "answer, then the handler raises":
                        raise RuntimeError("handler failed after answering")
            app = App(4, is_auth_application=True)
            node.add_application(app, [node.add_peer("aaa://cli0.example.net", "example.net")])
            node.start()
            sim.run()
            sim.script_random([1000])
            r = sim.connect_in()
            sim.run()
            r.feed(NS.build_message(dict(kind="cer", host="cli0.example.net", hbh=1, e2e=1)))
            sim.run()
            r.take_messages()
            for k in range(3):
                r.feed(NS.build_message(dict(kind="req", hbh=0x50 + k, e2e=0x60 + k, host="cli0.example.net")))
                sim.run()
            sim.advance(1)
            got = [(m.header.hop_by_hop_identifier, getattr(m, "result_code", None)) for m in r.take_messages() if not m.header.is_request]
            run.count(1, [("sync-handler", shape)])
            per = {h: [rc for hh, rc in got if hh == h] for h in (0x50, 0x51, 0x52)}
            want_rc = {"result-code": 2001, "error bit": 3004, "answer, then the handler raises": 2001}.get(shape)
            if any(v != [want_rc] for v in per.values()) or failures or sim.thread_deaths:
                run.violation("exactly-one-answer", {"scenario": "handler answers inside handle_request", "answer_shape": shape},
                              {"answers_per_request": {hex(h): v for h, v in per.items()}, "send_answer_failures": failures[:2],
                               "deaths": [str(d)[:80] for d in sim.thread_deaths]},
                              "one answer per request (the handler's), send_answer returns normally",
                              what="a request answered from inside its handler got " + ", ".join(str(len(v)) for v in per.values()) + " answers")
        finally:
            sim.shutdown()


def check(run):
    orig_obligations = run.obligations

    def obligations_then_more(files):
        out = orig_obligations(files)
        sync_handlers(run)
        return out
    run.obligations = obligations_then_more
    return nodecheck.run(run, "C07", FILES, PROFILE, W, N_QUICK, N_THOROUGH, LENGTH, themes=THEMES, on_broken=_write_path_search)


replay = nodecheck.replay_generic
